"""Regenerate coq/Gen/<stem>.v from /repo's working tree.

usage: gen.py [--out DIR] [stem ...]      (no stems: all)
Writes a file only when its content changed.  Prints one JSON object:
  {"files": {stem: {"changed": bool, "units": {...}, "errors": {unit: "exc"}}}}
"""
import io
import json
import os
import sys
import time
import traceback
import contextlib

sys.path.insert(0, os.path.dirname(os.path.abspath(__file__)))


def main(argv):
    out = os.path.join(os.path.dirname(os.path.abspath(__file__)), "..", "coq", "Gen")
    stems = []
    i = 0
    while i < len(argv):
        if argv[i] == "--out":
            out = argv[i + 1]
            i += 2
        else:
            stems.append(argv[i])
            i += 1
    os.makedirs(out, exist_ok=True)
    t0 = time.time()
    result = {"files": {}, "import_error": None}
    sink = io.StringIO()
    try:
        with contextlib.redirect_stdout(sink):
            import sx2coq
            import units
            files = units.all_files()
    except Exception:
        result["import_error"] = traceback.format_exc()
        print(json.dumps(result))
        return 3
    if not stems:
        stems = list(files.keys())
    for stem in stems:
        if stem not in files:
            result["files"][stem] = {"changed": False, "units": {}, "errors": {"*": "unknown stem"}}
            continue
        us, errs, descr = [], {}, {}
        for name, builder in files[stem]:
            try:
                with contextlib.redirect_stdout(sink):
                    f = builder()
                    u = sx2coq.Unit(name, f)
                us.append(u)
                descr[u.name] = u.describe()
            except Exception as e:
                errs[name] = "%s: %s" % (type(e).__name__, str(e)[:300])
        txt = sx2coq.emit_file(us, stem)
        if errs:
            txt += "\n(* units that could not be extracted:\n%s\n*)\n" % "\n".join("%s: %s" % kv for kv in errs.items()).replace("*)", "* )")
        path = os.path.join(out, stem + ".v")
        old = None
        if os.path.exists(path):
            with open(path) as fh:
                old = fh.read()
        changed = old != txt
        if changed:
            with open(path, "w") as fh:
                fh.write(txt)
        with open(os.path.join(out, stem + ".units.json"), "w") as fh:
            json.dump({"units": descr, "errors": errs}, fh, indent=1, sort_keys=True)
        result["files"][stem] = {"changed": changed, "units": {k: v["n_instr"] for k, v in descr.items()}, "errors": errs}
    result["wall_s"] = round(time.time() - t0, 2)
    print(json.dumps(result))
    return 0


if __name__ == "__main__":
    sys.exit(main(sys.argv[1:]))
