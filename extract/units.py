"""Registry of units: how to obtain a ca.Function from cyecca's public API with fresh symbols.

FILES maps a Gen file stem -> list of (unit name, zero-argument builder).  A builder that
raises is recorded (the Gen file then lacks the definition and dependent proofs fail to
compile: an obligation failure of kind `extract`).
"""
import casadi as ca


def F(name, ins, build):
    """ins: list of (name, rows[, cols]); build(*syms) -> SX or list of SX"""
    syms = []
    for spec in ins:
        if len(spec) == 2:
            syms.append(ca.SX.sym(spec[0], spec[1]))
        else:
            syms.append(ca.SX.sym(spec[0], spec[1], spec[2]))
    outs = build(*syms)
    if not isinstance(outs, (list, tuple)):
        outs = [outs]
    outs = [ca.SX(o) for o in outs]
    return ca.Function(name, syms, outs, [s[0] for s in ins], ["o%d" % i for i in range(len(outs))])


def dense(M):
    return ca.densify(ca.SX(M))


# ------------------------------------------------------------------ Lie groups
def group_units(prefix, G, with_from_matrix=True, with_explog=True, with_Ad=True, algebra=True):
    n = G.n_param
    g = G.algebra
    m = g.n_param
    r, c = G.matrix_shape
    U = []
    U.append((prefix + ".product", lambda: F("product", [("a", n), ("b", n)], lambda a, b: (G.elem(a) * G.elem(b)).param)))
    U.append((prefix + ".inverse", lambda: F("inverse", [("a", n)], lambda a: G.elem(a).inverse().param)))
    U.append((prefix + ".identity", lambda: F("identity", [], lambda: dense(G.identity().param))))
    U.append((prefix + ".to_Matrix", lambda: F("to_Matrix", [("a", n)], lambda a: dense(G.elem(a).to_Matrix()))))
    if with_from_matrix:
        U.append((prefix + ".from_Matrix", lambda: F("from_Matrix", [("M", r, c)], lambda M: G.from_Matrix(M).param)))
    if with_Ad:
        U.append((prefix + ".Ad", lambda: F("Ad", [("a", n)], lambda a: dense(G.elem(a).Ad()))))
    if with_explog:
        U.append((prefix + ".exp", lambda: F("exp", [("x", m)], lambda x: g.elem(x).exp(G).param)))
        U.append((prefix + ".log", lambda: F("log", [("a", n)], lambda a: G.elem(a).log().param)))
    return U


def algebra_units(prefix, g, bracket=True, jac=False, Q=False):
    m = g.n_param
    U = []
    U.append((prefix + ".hat", lambda: F("hat", [("x", m)], lambda x: dense(g.elem(x).to_Matrix()))))
    U.append((prefix + ".ad", lambda: F("ad", [("x", m)], lambda x: dense(g.elem(x).ad()))))
    if bracket:
        U.append((prefix + ".bracket", lambda: F("bracket", [("x", m), ("y", m)], lambda x, y: (g.elem(x) * g.elem(y)).param)))
    U.append((prefix + ".add", lambda: F("add", [("x", m), ("y", m)], lambda x, y: (g.elem(x) + g.elem(y)).param)))
    U.append((prefix + ".smul", lambda: F("smul", [("s", 1), ("x", m)], lambda s, x: (s * g.elem(x)).param)))
    if jac:
        for nm in ["left_jacobian", "left_jacobian_inv", "right_jacobian", "right_jacobian_inv"]:
            U.append((prefix + "." + nm, (lambda nm=nm: F(nm, [("x", m)], lambda x: dense(getattr(g.elem(x), nm)())))))
    if Q:
        U.append((prefix + ".left_Q", lambda: F("left_Q", [("x", m)], lambda x: dense(g.elem(x).left_Q()))))
        U.append((prefix + ".right_Q", lambda: F("right_Q", [("x", m)], lambda x: dense(g.elem(x).right_Q()))))
    return U


def euler_general_units():
    """Euler groups other than the shipped B321, built through the public constructor: to_Matrix and Ad are offered"""
    from cyecca.lie.group_so3 import SO3EulerLieGroup, EulerType, Axis
    U = []
    for tag, et, seq in (("Sxyz", EulerType.space_fixed, [Axis.x, Axis.y, Axis.z]), ("Szxz", EulerType.space_fixed, [Axis.z, Axis.x, Axis.z]),
                         ("Bxyz", EulerType.body_fixed, [Axis.x, Axis.y, Axis.z])):
        def mk(et=et, seq=seq):
            return SO3EulerLieGroup(euler_type=et, sequence=seq)
        U.append(("SO3Euler%s.to_Matrix" % tag, (lambda mk=mk: F("m", [("e", 3)], lambda e: dense(mk().elem(e).to_Matrix())))))
        U.append(("SO3Euler%s.Ad" % tag, (lambda mk=mk: F("Ad", [("e", 3)], lambda e: dense(mk().elem(e).Ad())))))
    return U


def lie_files():
    from cyecca.lie.group_so2 import SO2, so2
    from cyecca.lie.group_se2 import SE2, se2
    from cyecca.lie.group_rn import R2, R3, r2, r3
    from cyecca.lie.group_so3 import SO3Quat, SO3Mrp, SO3Dcm, SO3EulerB321, so3
    from cyecca.lie.group_se3 import SE3Quat, SE3Mrp, se3
    from cyecca.lie.group_se23 import SE23Quat, SE23Mrp, se23

    files = {}
    files["SO2"] = group_units("SO2", SO2) + algebra_units("so2", so2)
    files["SE2"] = group_units("SE2", SE2) + algebra_units("se2", se2)
    files["Rn"] = (group_units("R2", R2, with_from_matrix=False) + algebra_units("r2", r2)
                   + group_units("R3", R3, with_from_matrix=False) + algebra_units("r3", r3))
    files["so3"] = algebra_units("so3", so3, jac=True)
    files["SO3Quat"] = group_units("SO3Quat", SO3Quat) + [
        ("SO3Quat.left_jacobian", lambda: F("lj", [("q", 4)], lambda q: dense(SO3Quat.elem(q).left_jacobian()))),
        ("SO3Quat.right_jacobian", lambda: F("rj", [("q", 4)], lambda q: dense(SO3Quat.elem(q).right_jacobian()))),
        ("SO3Quat.from_Mrp", lambda: F("c", [("r", 3)], lambda r: SO3Quat.from_Mrp(SO3Mrp.elem(r)).param)),
        ("SO3Quat.from_Dcm", lambda: F("c", [("R", 9)], lambda R: SO3Quat.from_Dcm(SO3Dcm.elem(R)).param)),
        ("SO3Quat.from_Euler", lambda: F("c", [("e", 3)], lambda e: SO3Quat.from_Euler(SO3EulerB321.elem(e)).param)),
    ]

    def mrp_shadow(r):
        X = SO3Mrp.elem(r)
        SO3Mrp.shadow_if_necessary(X)
        return X.param

    files["SO3Mrp"] = group_units("SO3Mrp", SO3Mrp) + [
        ("SO3Mrp.right_jacobian", lambda: F("rj", [("r", 3)], lambda r: dense(SO3Mrp.elem(r).right_jacobian()))),
        ("SO3Mrp.shadow_if_necessary", lambda: F("sh", [("r", 3)], mrp_shadow)),
        ("SO3Mrp.from_Quat", lambda: F("c", [("q", 4)], lambda q: SO3Mrp.from_Quat(SO3Quat.elem(q)).param)),
        ("SO3Mrp.from_Dcm", lambda: F("c", [("R", 9)], lambda R: SO3Mrp.from_Dcm(SO3Dcm.elem(R)).param)),
        ("SO3Mrp.from_Euler", lambda: F("c", [("e", 3)], lambda e: SO3Mrp.from_Euler(SO3EulerB321.elem(e)).param)),
    ]
    files["SO3Dcm"] = group_units("SO3Dcm", SO3Dcm) + [
        ("SO3Dcm.from_Quat", lambda: F("c", [("q", 4)], lambda q: SO3Dcm.from_Quat(SO3Quat.elem(q)).param)),
        ("SO3Dcm.from_Mrp", lambda: F("c", [("r", 3)], lambda r: SO3Dcm.from_Mrp(SO3Mrp.elem(r)).param)),
        ("SO3Dcm.from_Euler", lambda: F("c", [("e", 3)], lambda e: SO3Dcm.from_Euler(SO3EulerB321.elem(e)).param)),
    ]
    files["SO3Euler"] = group_units("SO3Euler", SO3EulerB321) + [
        ("SO3Euler.from_Quat", lambda: F("c", [("q", 4)], lambda q: SO3EulerB321.from_Quat(SO3Quat.elem(q)).param)),
        ("SO3Euler.from_Mrp", lambda: F("c", [("r", 3)], lambda r: SO3EulerB321.from_Mrp(SO3Mrp.elem(r)).param)),
        ("SO3Euler.from_Dcm", lambda: F("c", [("R", 9)], lambda R: SO3EulerB321.from_Dcm(SO3Dcm.elem(R)).param)),
    ] + euler_general_units()
    files["se3"] = algebra_units("se3", se3, jac=True, Q=True)
    files["SE3Quat"] = group_units("SE3Quat", SE3Quat, with_from_matrix=False)
    files["SE3Mrp"] = group_units("SE3Mrp", SE3Mrp, with_from_matrix=False)
    files["se23"] = algebra_units("se23", se23, jac=True)
    files["SE23Quat"] = group_units("SE23Quat", SE23Quat)
    files["SE23Mrp"] = group_units("SE23Mrp", SE23Mrp)
    # direct products built with `*` (flattening and nested)
    dps = {
        "DPa": lambda: SO3Mrp * R3,                 # the estimator's state group
        "DPb": lambda: (SO3Quat * R3) * SO2,        # left-nested: __mul__ flattens
        "DPc": lambda: SE2 * (SO2 * R2),            # right-nested
        "DPd": lambda: SO3Dcm * R2,                 # with a DCM factor
        "DPe": lambda: SO3Quat * SO3Mrp,            # the same non-abelian algebra twice, group/algebra sizes differ in the first factor
        "DPf": lambda: SE2 * SE2,                   # a repeated factor
    }
    U = []
    for nm, mk in dps.items():
        def units_for(nm=nm, mk=mk):
            G = mk()
            return group_units(nm, G, with_from_matrix=False, with_Ad=False) + [
                (nm + "_alg.hat", lambda: F("hat", [("x", G.algebra.n_param)], lambda x: dense(G.algebra.elem(x).to_Matrix()))),
                (nm + "_alg.ad", lambda: F("ad", [("x", G.algebra.n_param)], lambda x: dense(G.algebra.elem(x).ad()))),
            ]
        try:
            U += units_for()
        except Exception as e:  # the construction itself failed: record as a unit error
            U.append((nm + ".construct", (lambda e=e: (_ for _ in ()).throw(e))))
    files["DP"] = U
    return files


def series_files():
    from cyecca.symbolic import SERIES, SQUARED_SERIES
    U = []
    for i, k in enumerate(SERIES.keys()):
        U.append(("series_%d" % i, (lambda k=k: F("s", [("x", 1)], lambda x: SERIES[k](x)))))
    for i, k in enumerate(SQUARED_SERIES.keys()):
        U.append(("sq_series_%d" % i, (lambda k=k: F("s", [("x", 1)], lambda x: SQUARED_SERIES[k](x)))))
    return {"Series": U}


def series_keys():
    from cyecca.symbolic import SERIES
    return list(SERIES.keys())


def quadrotor_files():
    from cyecca.models import quadrotor

    def get(k):
        return lambda: quadrotor.derive_model()[k]
    return {"Quadrotor": [("quad.f", get("f")), ("quad.g_accel", get("g_accel")), ("quad.g_gyro", get("g_gyro"))]}


def bezier_files():
    from cyecca.models import bezier
    U = []
    for m in (1, 3):
        for n in range(1, 8 if m == 1 else 4):
            def ev(n=n, m=m):
                return F("ev", [("P", m, n + 1), ("T", 1), ("t", 1)], lambda P, T, t: bezier.Bezier(P, T).eval(t))
            U.append(("bez_eval_%d_%d" % (n, m), ev))
            for k in range(1, min(n, 4) + 1):
                def dv(n=n, m=m, k=k):
                    return F("dv", [("P", m, n + 1), ("T", 1)], lambda P, T: dense(bezier.Bezier(P, T).deriv(k).P))
                U.append(("bez_deriv_%d_%d_o%d" % (n, m, k), dv))
            if n >= 2:
                def dd(n=n, m=m):
                    return F("dd", [("P", m, n + 1), ("T", 1)], lambda P, T: dense(bezier.Bezier(P, T).deriv().deriv().P))
                U.append(("bez_deriv_%d_%d_chain2" % (n, m), dd))
    b3 = lambda k: (lambda: bezier.derive_bezier3()[k])
    b7 = lambda k: (lambda: bezier.derive_bezier7()[k])
    U += [("bezier3_solve", b3("bezier3_solve")), ("bezier3_traj", b3("bezier3_traj")),
          ("bezier7_solve", b7("bezier7_solve")), ("bezier7_traj", b7("bezier7_traj")),
          ("bezier_multirotor", lambda: bezier.derive_multirotor()["bezier_multirotor"])]
    return {"Bezier": U}


def rdd2_files():
    from cyecca.models import rdd2, rdd2_loglinear, mr_ref_traj, bezier
    U = []

    def every(mod, fname):
        def get(k):
            return lambda: getattr(mod, fname)()[k]
        return get
    for fname, keys in [("derive_control_allocation", ["f_alloc"]), ("derive_input_acro", None), ("derive_input_velocity", None),
                        ("derive_input_auto_level", None), ("derive_attitude_control", None), ("derive_attitude_rate_control", None),
                        ("derive_position_control", None), ("derive_common", None), ("derive_strapdown_ins_propagation", None),
                        ("derive_attitude_estimator", None)]:
        try:
            d = getattr(rdd2, fname)()
        except Exception as e:
            U.append(("rdd2." + fname, (lambda e=e: (_ for _ in ()).throw(e))))
            continue
        for k, f in d.items():
            U.append(("rdd2." + f.name(), (lambda f=f: f)))
    files = {"Rdd2": U}
    V = []
    for fname in ["derive_se23_error", "derive_so3_attitude_control", "derive_outerloop_control"]:
        try:
            d = getattr(rdd2_loglinear, fname)()
        except Exception as e:
            V.append(("ll." + fname, (lambda e=e: (_ for _ in ()).throw(e))))
            continue
        for k, f in d.items():
            V.append(("ll." + f.name(), (lambda f=f: f)))
    files["Loglinear"] = V
    W = []
    for nm, mk in [("mr_ref_traj", lambda: mr_ref_traj.derive_mr_ref_traj()["mr_ref_traj"]),
                   ("f_ref", lambda: bezier.derive_ref()["f_ref"]),
                   ("eulerB321_to_quat", lambda: bezier.derive_eulerB321_to_quat()["eulerB321_to_quat"]),
                   ("dcm_to_quat", lambda: bezier.derive_dcm_to_quat()["dcm_to_quat"])]:
        W.append((nm, mk))
    files["Ref"] = W
    return files


def util_files():
    from cyecca import util
    U = []

    def symm(name, n):
        """symmetric n x n SX from n(n+1)/2 symbols (lower triangle, column-major)"""
        L = ca.SX.sym(name, ca.Sparsity.lower(n))
        M = L + L.T
        for i in range(n):
            M[i, i] = L[i, i]
        return L, M

    # rk4 instances
    def rk_cubic():
        a = ca.SX.sym("a", 4); t = ca.SX.sym("t"); y = ca.SX.sym("y"); h = ca.SX.sym("h")
        f = lambda tt, yy: a[0] + a[1] * tt + a[2] * tt ** 2 + a[3] * tt ** 3
        return ca.Function("rk", [a, t, y, h], [util.rk4(f, t, y, h)], ["a", "t", "y", "h"], ["y1"])
    def rk_lin():
        lam = ca.SX.sym("lam"); t = ca.SX.sym("t"); y = ca.SX.sym("y"); h = ca.SX.sym("h")
        return ca.Function("rk", [lam, t, y, h], [util.rk4(lambda tt, yy: lam * yy, t, y, h)], ["lam", "t", "y", "h"], ["y1"])
    def rk_lin2():
        A = ca.SX.sym("A", 2, 2); t = ca.SX.sym("t"); y = ca.SX.sym("y", 2); h = ca.SX.sym("h")
        return ca.Function("rk", [A, t, y, h], [util.rk4(lambda tt, yy: A @ yy, t, y, h)], ["A", "t", "y", "h"], ["y1"])
    def rk_gen():
        # generic stages: f given by its four stage values is not expressible; use time-dependent affine field c0 + c1 t + k y
        c = ca.SX.sym("c", 3); t = ca.SX.sym("t"); y = ca.SX.sym("y"); h = ca.SX.sym("h")
        return ca.Function("rk", [c, t, y, h], [util.rk4(lambda tt, yy: c[0] + c[1] * tt + c[2] * yy, t, y, h)], ["c", "t", "y", "h"], ["y1"])
    U += [("rk4_cubic", rk_cubic), ("rk4_lin", rk_lin), ("rk4_lin2", rk_lin2), ("rk4_affine", rk_gen)]
    for n in range(1, 6):
        def ldl(n=n):
            L, P = symm("P", n)
            Lm, D = util.ldl_symmetric_decomposition(P)
            return ca.Function("ldl", [L], [dense(Lm), dense(D)], ["P"], ["L", "D"])
        def udu(n=n):
            L, P = symm("P", n)
            Um, D = util.udu_symmetric_decomposition(P)
            return ca.Function("udu", [L], [dense(Um), dense(D)], ["P"], ["U", "D"])
        U += [("ldl_%d" % n, ldl), ("udu_%d" % n, udu)]
    for n in range(1, 4):
        def scp(n=n):
            W = ca.SX.sym("W", ca.Sparsity.lower(n)); Fm = ca.SX.sym("F", n, n); Lq, Q = symm("Q", n)
            return ca.Function("scp", [W, Fm, Lq], [dense(util.sqrt_covariance_predict(W, Fm, Q))], ["W", "F", "Q"], ["Wdot"])
        U.append(("sqrt_cov_predict_%d" % n, scp))
    for (n, m) in [(1, 1), (2, 1), (2, 2), (3, 1), (3, 2)]:
        def sc(n=n, m=m):
            Rs = ca.SX.sym("Rs", ca.Sparsity.lower(m)); Hm = ca.SX.sym("H", m, n); W = ca.SX.sym("W", ca.Sparsity.lower(n))
            Wp, K, Ss = util.sqrt_correct(Rs, Hm, W)
            return ca.Function("sc", [Rs, Hm, W], [dense(Wp), dense(K), dense(Ss)], ["Rs", "H", "W"], ["Wp", "K", "Ss"])
        U.append(("sqrt_correct_%d_%d" % (n, m), sc))
    return {"Util": U}


def estimator_files():
    from cyecca.estimate.attitude import algorithms
    e = algorithms.eqs()
    files = {}
    files["Sim"] = [("sim." + k, (lambda f=f: f)) for k, f in e["sim"].items()]
    files["Mrp"] = [("mrp." + k, (lambda f=f: f)) for k, f in e["mrp"].items()]
    return files


def all_files():
    files = {}
    for part in (lie_files, series_files, quadrotor_files, bezier_files, rdd2_files, util_files, estimator_files):
        files.update(part())
    return files
