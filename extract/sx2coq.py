"""CasADi SX Function -> Coq text (DESIGN.md section 2.1).

Walks Function.instruction_id/_input/_output/_constant (the instruction list CasADi's VM
executes and its C generator prints) and emits, per unit,
  * a function form   Definition f (x0_0 ... : R) : list R := let v1 := ... in [outs]
  * a wp form         Definition f_wp (x0_0 ...) (P : list R -> Prop) : Prop := let ... in P [outs]
  * for units of >= WPE_MIN instructions, an equational wp form
                      Definition f_wpe (x0_0 ...) (P : list R -> Prop) : Prop := forall v.. : R, Eqn v e -> ... -> P [outs]
  * a list wrapper    Definition f_v (a0 a1 ... : list R) : list R := f (nth 0 a0 0) ...
  * named output projections  Definition f__<out> (r : list R) : list R := [nth k r 0; ...]
Outputs are dense, column-major, all outputs concatenated; structural zeros are 0.
Constants are the exact rational value of the IEEE double.  Fail closed on anything
not in the opcode table.
"""
import math
import re
from fractions import Fraction

import casadi as ca


class TranslateError(Exception):
    pass


OP1 = {
    ca.OP_ASSIGN: "{a}",
    ca.OP_NEG: "(- {a})",
    ca.OP_SQRT: "(sqrt {a})",
    ca.OP_SQ: "({a} * {a})",
    ca.OP_TWICE: "(2 * {a})",
    ca.OP_SIN: "(sin {a})",
    ca.OP_COS: "(cos {a})",
    ca.OP_TAN: "(tan {a})",
    ca.OP_ASIN: "(asin {a})",
    ca.OP_ACOS: "(acos {a})",
    ca.OP_ATAN: "(atan {a})",
    ca.OP_NOT: "(op_not {a})",
    ca.OP_FABS: "(Rabs {a})",
    ca.OP_SIGN: "(op_sign {a})",
    ca.OP_INV: "(/ {a})",
    ca.OP_FLOOR: "(op_floor {a})",
    ca.OP_CEIL: "(op_ceil {a})",
    ca.OP_EXP: "(op_exp {a})",
    ca.OP_LOG: "(op_log {a})",
}
OP2 = {
    ca.OP_ADD: "({a} + {b})",
    ca.OP_SUB: "({a} - {b})",
    ca.OP_MUL: "({a} * {b})",
    ca.OP_DIV: "({a} / {b})",
    ca.OP_LT: "(op_lt {a} {b})",
    ca.OP_LE: "(op_le {a} {b})",
    ca.OP_EQ: "(op_eq {a} {b})",
    ca.OP_NE: "(op_ne {a} {b})",
    ca.OP_AND: "(op_and {a} {b})",
    ca.OP_OR: "(op_or {a} {b})",
    ca.OP_IF_ELSE_ZERO: "(op_ifz {a} {b})",
    ca.OP_FMIN: "(Rmin {a} {b})",
    ca.OP_FMAX: "(Rmax {a} {b})",
    ca.OP_ATAN2: "(op_atan2 {a} {b})",
    ca.OP_COPYSIGN: "(op_copysign {a} {b})",
    ca.OP_FMOD: "(op_fmod {a} {b})",
    ca.OP_REMAINDER: "(op_remainder {a} {b})",
}
POWS = (ca.OP_POW, ca.OP_CONSTPOW)
OPNAME = {getattr(ca, n): n[3:] for n in dir(ca) if n.startswith("OP_")}


WPE_MIN = 200


def coq_const(c):
    """exact rational value of a double as Coq text"""
    if math.isnan(c):
        raise TranslateError("NaN constant")
    if math.isinf(c):
        return None
    fr = Fraction(c)
    n, d = fr.numerator, fr.denominator
    if d == 1:
        return "%d" % n if n >= 0 else "(%d)" % n
    return "(%d / %d)" % (n, d)


def sanitize(name):
    s = re.sub(r"[^A-Za-z0-9_]", "_", name)
    if not re.match(r"[A-Za-z]", s):
        s = "u_" + s
    return s


class Unit:
    """The translated form of one ca.Function"""

    def __init__(self, name, f):
        self.name = sanitize(name)
        self.f = f
        self.translate()

    def translate(self):
        f = self.f
        if f.class_name() != "SXFunction":
            raise TranslateError("%s: not an SXFunction (%s)" % (self.name, f.class_name()))
        if f.n_instructions() == 0 and f.nnz_out() > 0:
            pass
        try:
            free = f.free_sx()
        except Exception:
            free = []
        if len(free) > 0:
            raise TranslateError("%s: free variables %s" % (self.name, free))
        self.in_names = [sanitize(f.name_in(i)) for i in range(f.n_in())]
        self.out_names = [sanitize(f.name_out(i)) for i in range(f.n_out())]
        self.in_nnz = [f.nnz_in(i) for i in range(f.n_in())]
        self.in_shape = [f.size_in(i) for i in range(f.n_in())]
        self.out_shape = [f.size_out(i) for i in range(f.n_out())]
        self.args = []
        for i in range(f.n_in()):
            for k in range(self.in_nnz[i]):
                self.args.append("x%d_%d" % (i, k))
        reg = {}  # register -> current Coq atom (variable name or literal)
        regconst = {}  # register -> float if register currently holds a constant
        lets = []  # (var, expr)
        outs = {}  # (o, nz) -> atom
        self.has_inf = False
        inf_atoms = set()
        hist = {}
        n = f.n_instructions()
        self.n_instr = n
        self.instrs = []  # raw instruction list for the deep form
        for k in range(n):
            op = f.instruction_id(k)
            hist[OPNAME.get(op, str(op))] = hist.get(OPNAME.get(op, str(op)), 0) + 1
            ii = f.instruction_input(k)
            oo = f.instruction_output(k)
            if op == ca.OP_CONST:
                c = f.instruction_constant(k)
                self.instrs.append(("const", oo[0], c))
                lit = coq_const(c)
                if lit is None:
                    self.has_inf = True
                    lit = "INF" if c > 0 else "(- INF)"
                    inf_atoms.add(lit)
                reg[oo[0]] = lit
                regconst[oo[0]] = c
            elif op == ca.OP_INPUT:
                self.instrs.append(("input", oo[0], ii[0], ii[1]))
                reg[oo[0]] = "x%d_%d" % (ii[0], ii[1])
                regconst.pop(oo[0], None)
            elif op == ca.OP_OUTPUT:
                self.instrs.append(("output", oo[0], oo[1], ii[0]))
                outs[(oo[0], oo[1])] = reg[ii[0]]
            elif op in OP1:
                self.instrs.append(("op1", oo[0], OPNAME[op], ii[0]))
                a = reg[ii[0]]
                if a in inf_atoms:
                    raise TranslateError("%s: infinite constant used by %s" % (self.name, OPNAME[op]))
                v = "v%d" % k
                lets.append((v, OP1[op].format(a=a)))
                reg[oo[0]] = v
                regconst.pop(oo[0], None)
            elif op in OP2:
                self.instrs.append(("op2", oo[0], OPNAME[op], ii[0], ii[1]))
                a, b = reg[ii[0]], reg[ii[1]]
                if a in inf_atoms or (b in inf_atoms and op != ca.OP_IF_ELSE_ZERO):
                    raise TranslateError("%s: infinite constant used by %s" % (self.name, OPNAME[op]))
                v = "v%d" % k
                lets.append((v, OP2[op].format(a=a, b=b)))
                reg[oo[0]] = v
                regconst.pop(oo[0], None)
                if op == ca.OP_IF_ELSE_ZERO and b in inf_atoms:
                    # value is INF or 0; allowed to flow only into + with another ifz
                    # (the if_else decomposition) -- checked by the theorems, which are
                    # universally quantified over INF
                    pass
            elif op in POWS:
                self.instrs.append(("op2", oo[0], "POW", ii[0], ii[1]))
                a, b = reg[ii[0]], reg[ii[1]]
                if a in inf_atoms or b in inf_atoms:
                    raise TranslateError("%s: infinite constant used by pow" % self.name)
                v = "v%d" % k
                c = regconst.get(ii[1])
                if c is not None and float(c).is_integer() and abs(c) <= 64:
                    e = int(c)
                    if e >= 0:
                        ex = "({a} ^ {e})".format(a=a, e=e)
                    else:
                        ex = "(/ ({a} ^ {e}))".format(a=a, e=-e)
                else:
                    ex = "(op_pow {a} {b})".format(a=a, b=b)
                lets.append((v, ex))
                reg[oo[0]] = v
                regconst.pop(oo[0], None)
            else:
                raise TranslateError("%s: unsupported opcode %s" % (self.name, OPNAME.get(op, op)))
        self.lets = lets
        self.hist = hist
        # dense outputs
        dense = []
        self.out_offsets = []
        for o in range(f.n_out()):
            sp = f.sparsity_out(o)
            pos = {int(idx): kk for kk, idx in enumerate(sp.find())}
            self.out_offsets.append(len(dense))
            for idx in range(sp.size1() * sp.size2()):
                if idx in pos:
                    if (o, pos[idx]) not in outs:
                        raise TranslateError("%s: output (%d,%d) never written" % (self.name, o, pos[idx]))
                    dense.append(outs[(o, pos[idx])])
                else:
                    dense.append("0")
        for d in dense:
            if d in inf_atoms:
                raise TranslateError("%s: infinite constant reaches an output" % self.name)
        self.dense = dense

    # ---------------------------------------------------------------- emission
    def binder(self):
        names = (["INF"] if self.has_inf else []) + self.args
        return "(%s : R)" % " ".join(names) if names else ""

    def body(self, final):
        lines = []
        for v, e in self.lets:
            lines.append("  let %s := %s in" % (v, e))
        lines.append("  " + final)
        return "\n".join(lines)

    def emit(self):
        n = self.name
        outlist = "[" + "; ".join(self.dense) + "]"
        s = []
        s.append("(* unit %s: %d instructions; inputs %s; outputs %s at offsets %s *)" % (
            n, self.n_instr,
            ", ".join("%s%s nnz=%d" % (a, tuple(b), c) for a, b, c in zip(self.in_names, self.in_shape, self.in_nnz)),
            ", ".join("%s%s" % (a, tuple(b)) for a, b in zip(self.out_names, self.out_shape)),
            self.out_offsets))
        s.append("Definition %s %s : list R :=\n%s." % (n, self.binder(), self.body(outlist)))
        s.append("Definition %s_wp %s (P : list R -> Prop) : Prop :=\n%s." % (n, self.binder(), self.body("P " + outlist)))
        if self.n_instr >= WPE_MIN:
            # equational form of the same let-chain (large units: the kernel never has to zeta-expand shared subterms)
            # (binders first, then the equations: nesting one forall per instruction costs Coq cubic time)
            lines = ["  forall %s : R," % " ".join(v for v, _ in self.lets)] + ["  Eqn %s %s ->" % (v, e) for v, e in self.lets] + ["  P " + outlist]
            s.append("Definition %s_wpe %s (P : list R -> Prop) : Prop :=\n%s." % (n, self.binder(), "\n".join(lines)))
        # list wrapper
        lst = " ".join("a%d" % i for i in range(len(self.in_nnz)))
        call = " ".join((["INF"] if self.has_inf else []) +
                        ["(nth %d a%d 0)" % (k, i) for i in range(len(self.in_nnz)) for k in range(self.in_nnz[i])])
        s.append("Definition %s_v %s%s : list R :=\n  %s %s." % (
            n, "(INF : R) " if self.has_inf else "", ("(%s : list R)" % lst) if lst else "", n, call))
        # projections
        seen = set()
        for o, on in enumerate(self.out_names):
            if on in seen:
                continue
            seen.add(on)
            size = self.out_shape[o][0] * self.out_shape[o][1]
            off = self.out_offsets[o]
            s.append("Definition %s__%s (r : list R) : list R := [%s]." % (
                n, on, "; ".join("nth %d r 0" % (off + j) for j in range(size))))
        return "\n".join(s) + "\n"

    def describe(self):
        return {
            "name": self.name,
            "n_instr": self.n_instr,
            "inputs": [{"name": a, "shape": list(b), "nnz": c} for a, b, c in zip(self.in_names, self.in_shape, self.in_nnz)],
            "outputs": [{"name": a, "shape": list(b), "offset": o} for a, b, o in zip(self.out_names, self.out_shape, self.out_offsets)],
            "has_inf": self.has_inf,
            "opcodes": self.hist,
        }


HEADER = """(* GENERATED by /verif/extract/sx2coq.py from /repo's working tree -- do not edit, not committed *)
From Coq Require Import Reals List.
From Cyecca Require Import Base.Ops.
Import ListNotations.
Local Open Scope R_scope.

"""


def emit_file(units, stem="Units"):
    names = []
    for u in units:
        names += [u.name, u.name + "_v"] + [u.name + "__" + o for o in dict.fromkeys(u.out_names)]
    txt = HEADER + "\n".join(u.emit() for u in units)
    # one tactic per file that unfolds every function-form unit of the file (never the _wp forms)
    txt += "\nLtac %s_unfold :=\n  cbv beta iota zeta delta [%s nth].\n" % (sanitize(stem), " ".join(names))
    return txt
