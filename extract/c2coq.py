"""C09: generated C vs symbolic model (DESIGN.md section 5, C09).

  c2coq.py --out coq/Gen/C09.v --report .work/c09_report.json [--thorough]

For every shipped equation set and every generator entry point: generate the C file(s) into a scratch
directory, parse every straight-line body into a register program (fail closed on anything outside the
grammar), dump the same functions' instruction lists through CasADi's instruction API, and
  * compare them here (report), and
  * emit both as Coq data (coq/Gen/C09.v) with a lemma decided by vm_compute in the kernel.
Also enumerates generator option combinations (quick: default + every single flip; thorough: all 2^k) and
checks that generation succeeds and the export table is complete.
"""
import ast
import io
import itertools
import json
import os
import re
import shutil
import sys
import contextlib
import tempfile
from fractions import Fraction

import casadi as ca

ROOT = os.path.dirname(os.path.dirname(os.path.abspath(__file__)))
OPNAME = {getattr(ca, n): n[3:] for n in dir(ca) if n.startswith("OP_")}
OPNUM = {v: k for k, v in OPNAME.items()}

# C spelling -> CasADi opcode
BIN = {"+": "ADD", "-": "SUB", "*": "MUL", "/": "DIV", "<": "LT", "<=": "LE", "==": "EQ", "!=": "NE", "&&": "AND", "||": "OR"}
FN1 = {"casadi_sq": "SQ", "sqrt": "SQRT", "sin": "SIN", "cos": "COS", "tan": "TAN", "asin": "ASIN", "acos": "ACOS", "atan": "ATAN",
       "casadi_fabs": "FABS", "fabs": "FABS", "casadi_sign": "SIGN", "floor": "FLOOR", "ceil": "CEIL", "exp": "EXP", "log": "LOG",
       "sinh": "SINH", "cosh": "COSH", "tanh": "TANH"}
FN2 = {"atan2": "ATAN2", "pow": "POW", "casadi_fmin": "FMIN", "casadi_fmax": "FMAX", "fmin": "FMIN", "fmax": "FMAX",
       "fmod": "FMOD", "remainder": "REMAINDER", "copysign": "COPYSIGN", "casadi_if_else": None}
REG = r"(?:a(\d+)|w\[(\d+)\])"
NUM = r"[-+]?(?:\d+\.?\d*(?:[eE][-+]?\d+)?|casadi_inf|casadi_nan|INFINITY)"


class ParseError(Exception):
    pass


def reg(m, i):
    a, b = m.group(i), m.group(i + 1)
    return int(a if a is not None else b)


PATTERNS = [
    ("input", re.compile(r"^%s=arg\[(\d+)\]\? arg\[\3\]\[(\d+)\] : 0;$" % REG)),
    ("output", re.compile(r"^if \(res\[(\d+)\]!=0\) res\[\1\]\[(\d+)\]=%s;$" % REG)),
    ("neginf", re.compile(r"^%s=-casadi_inf;$" % REG)),
    ("const", re.compile(r"^%s=(%s);$" % (REG, NUM))),
    ("ifz", re.compile(r"^%s=\(%s\?%s:0\);$" % (REG, REG, REG))),
    ("neg", re.compile(r"^%s=\(- ?%s\);$" % (REG, REG))),
    ("not", re.compile(r"^%s=\(!%s\);$" % (REG, REG))),
    ("twice", re.compile(r"^%s=\(2\.\*%s\);$" % (REG, REG))),
    ("inv", re.compile(r"^%s=\(1\./%s\);$" % (REG, REG))),
    ("bin", re.compile(r"^%s=\(%s(\+|-|\*|/|<=|<|==|!=|&&|\|\|)%s\);$" % (REG, REG, REG))),
    ("fn2", re.compile(r"^%s=([A-Za-z_0-9]+)\(%s,%s\);$" % (REG, REG, REG))),
    ("fn1", re.compile(r"^%s=([A-Za-z_0-9]+)\(%s\);$" % (REG, REG))),
    ("copy", re.compile(r"^%s=%s;$" % (REG, REG))),
]


def parse_body(lines, fname):
    prog = []
    for ln in lines:
        s = ln.strip()
        if not s or s.startswith("casadi_real ") or s == "return 0;" or re.match(r"^a\d+(, a\d+)*;$", s):
            continue
        for kind, pat in PATTERNS:
            m = pat.match(s)
            if not m:
                continue
            if kind == "input":
                prog.append(("input", reg(m, 1), int(m.group(3)), int(m.group(4))))
            elif kind == "output":
                prog.append(("output", int(m.group(1)), int(m.group(2)), reg(m, 3)))
            elif kind == "neginf":
                prog.append(("const", reg(m, 1), float("-inf")))
            elif kind == "const":
                t = m.group(3)
                if "inf" in t.lower():
                    v = float("-inf") if t.startswith("-") else float("inf")
                elif "nan" in t.lower():
                    raise ParseError("%s: NaN constant" % fname)
                else:
                    v = float(t)
                prog.append(("const", reg(m, 1), v))
            elif kind == "ifz":
                prog.append(("op2", reg(m, 1), "IF_ELSE_ZERO", reg(m, 3), reg(m, 5)))
            elif kind == "neg":
                prog.append(("op1", reg(m, 1), "NEG", reg(m, 3)))
            elif kind == "not":
                prog.append(("op1", reg(m, 1), "NOT", reg(m, 3)))
            elif kind == "twice":
                prog.append(("op1", reg(m, 1), "TWICE", reg(m, 3)))
            elif kind == "inv":
                prog.append(("op1", reg(m, 1), "INV", reg(m, 3)))
            elif kind == "bin":
                prog.append(("op2", reg(m, 1), BIN[m.group(5)], reg(m, 3), reg(m, 6)))
            elif kind == "fn2":
                if FN2.get(m.group(3)) is None:
                    raise ParseError("%s: unknown binary function %s" % (fname, m.group(3)))
                prog.append(("op2", reg(m, 1), FN2[m.group(3)], reg(m, 4), reg(m, 6)))
            elif kind == "fn1":
                if m.group(3) not in FN1:
                    raise ParseError("%s: unknown unary function %s" % (fname, m.group(3)))
                prog.append(("op1", reg(m, 1), FN1[m.group(3)], reg(m, 4)))
            elif kind == "copy":
                prog.append(("op1", reg(m, 1), "ASSIGN", reg(m, 3)))
            break
        else:
            raise ParseError("%s: statement outside the grammar: %r" % (fname, s))
    return prog


def parse_c(path):
    """-> {export name: {"body": prog, "n_in":, "n_out":, "nnz_in": [...], "nnz_out": [...]}}, list of export names in order"""
    txt = open(path).read()
    # sparsity tables: casadi_sK[] = {nrow, ncol, colind..., row...}
    spars = {}
    for m in re.finditer(r"static const casadi_int (casadi_s\d+)\[\d+\] =\s*\{([^}]*)\};", txt):
        v = [int(x) for x in m.group(2).replace("\n", " ").split(",") if x.strip()]
        nrow, ncol = v[0], v[1]
        if len(v) == 3 and v[2] == 1:          # dense marker
            nnz = nrow * ncol
        else:
            nnz = v[2 + ncol]
        spars[m.group(1)] = (nrow, ncol, nnz)
    bodies = {}
    for m in re.finditer(r"static int (casadi_f\d+)\(const casadi_real\*\* arg, casadi_real\*\* res, casadi_int\* iw, casadi_real\* w, int mem\) \{\n(.*?)\n\}", txt, re.S):
        bodies[m.group(1)] = m.group(2).split("\n")
    out, order = {}, []
    for m in re.finditer(r"(?:CASADI_SYMBOL_EXPORT )?int (\w+)\(const casadi_real\*\* arg, casadi_real\*\* res, casadi_int\* iw, casadi_real\* w, int mem\)\{\n\s*return (casadi_f\d+)\(arg, res, iw, w, mem\);", txt):
        name, fk = m.group(1), m.group(2)
        order.append(name)
        n_in = int(re.search(r"casadi_int %s_n_in\(void\) \{ return (\d+);\}" % name, txt).group(1))
        n_out = int(re.search(r"casadi_int %s_n_out\(void\) \{ return (\d+);\}" % name, txt).group(1))

        def sp_list(kind, n):
            blk = re.search(r"const casadi_int\* %s_sparsity_%s\(casadi_int i\) \{\n\s*switch \(i\) \{(.*?)default" % (name, kind), txt, re.S)
            res = []
            for i in range(n):
                mm = re.search(r"case %d: return (casadi_s\d+);" % i, blk.group(1))
                res.append(spars[mm.group(1)][2])
            return res
        out[name] = {"body": parse_body(bodies[fk], name), "n_in": n_in, "n_out": n_out,
                     "nnz_in": sp_list("in", n_in), "nnz_out": sp_list("out", n_out)}
    return out, order


def sx_program(f):
    prog = []
    if f.class_name() != "SXFunction":
        raise ParseError("%s is not an SXFunction" % f.name())
    for k in range(f.n_instructions()):
        op = f.instruction_id(k)
        ii, oo = f.instruction_input(k), f.instruction_output(k)
        if op == ca.OP_CONST:
            prog.append(("const", oo[0], float(f.instruction_constant(k))))
        elif op == ca.OP_INPUT:
            prog.append(("input", oo[0], ii[0], ii[1]))
        elif op == ca.OP_OUTPUT:
            prog.append(("output", oo[0], oo[1], ii[0]))
        elif len(ii) == 1:
            prog.append(("op1", oo[0], OPNAME[op], ii[0]))
        else:
            nm = OPNAME[op]
            if nm == "CONSTPOW":
                nm = "POW"              # both print as pow()
            prog.append(("op2", oo[0], nm, ii[0], ii[1]))
    return {"body": prog, "n_in": f.n_in(), "n_out": f.n_out(), "nnz_in": [f.nnz_in(i) for i in range(f.n_in())],
            "nnz_out": [f.nnz_out(i) for i in range(f.n_out())]}


# ---------------------------------------------------------------- shipped sets and entry points
def main_export_list(module):
    """function names of `eqs.update(derive_X())` calls in the module's __main__ block (fail closed)"""
    src = open(module.__file__).read()
    tree = ast.parse(src)
    names = []
    for node in tree.body:
        if isinstance(node, ast.If) and "__main__" in ast.dump(node.test):
            for sub in ast.walk(node):
                if isinstance(sub, ast.Call) and isinstance(sub.func, ast.Attribute) and sub.func.attr == "update":
                    arg = sub.args[0]
                    if isinstance(arg, ast.Call) and isinstance(arg.func, ast.Name):
                        names.append(arg.func.id)
    if not names:
        raise ParseError("no export list found in %s" % module.__file__)
    return names


def shipped():
    """-> list of (set name, entry point callable(dest, **opts), {file stem: {fname: Function}}, option names)"""
    from cyecca import codegen
    from cyecca.estimate.attitude import algorithms
    from cyecca.models import rdd2, rdd2_loglinear, bezier, mr_ref_traj
    sets = []
    est = algorithms.eqs()
    sets.append(("estimator", lambda dest, **kw: algorithms.generate_code(algorithms.eqs(), dest, **kw),
                 {"casadi_" + k: v for k, v in est.items()}, ["main", "mex", "with_header", "with_mem"]))
    gen10 = ["verbose", "mex", "cpp", "main", "with_header", "with_mem", "with_export", "with_import", "include_math", "avoid_stack"]
    for nm, mod in (("rdd2", rdd2), ("rdd2_loglinear", rdd2_loglinear), ("bezier", bezier)):
        def build(mod=mod):
            e = {}
            for d in main_export_list(mod):
                e.update(getattr(mod, d)())
            return e
        eqs = build()
        sets.append((nm, (lambda dest, nm=nm, mod=mod, build=build, **kw: mod.generate_code(build(), filename=nm + ".c", dest_dir=dest, **kw)),
                     {nm: eqs}, gen10))
    # the generic generator (cyecca/codegen.py) on the shipped multi-set dictionary: one C file per equation set, every
    # function of every set (the estimator and the simulator share function names such as get_state / constants)
    sets.append(("generic", lambda dest, **kw: codegen.generate_code(algorithms.eqs(), dest, **kw),
                 {k: v for k, v in est.items()}, gen10))
    ref = {"mr_ref_traj": mr_ref_traj.derive_mr_ref_traj()}
    sets.append(("mr_ref_traj", lambda dest, **kw: codegen.generate_code({"mr_ref_traj": mr_ref_traj.derive_mr_ref_traj()}, dest, **kw), ref, gen10))
    return sets


def norm_const(v):
    if v != v:
        return ("nan",)
    if v in (float("inf"), float("-inf")):
        return ("inf", v < 0)
    fr = Fraction(v)
    return (fr.numerator, fr.denominator)


def same_prog(a, b):
    if len(a) != len(b):
        return False, "length %d vs %d" % (len(a), len(b))
    for k, (x, y) in enumerate(zip(a, b)):
        if x[0] == "const" and y[0] == "const":
            if x[1] != y[1] or norm_const(x[2]) != norm_const(y[2]):
                return False, "instruction %d: %r vs %r" % (k, x, y)
        elif x != y:
            return False, "instruction %d: %r vs %r" % (k, x, y)
    return True, ""


def coq_instr(t):
    if t[0] == "const":
        c = norm_const(t[2])
        if c[0] == "inf":
            return "IInf %d %s" % (t[1] + 1, "true" if c[1] else "false")
        return "IConst %d (%d) %d" % (t[1] + 1, c[0], c[1])
    if t[0] == "input":
        return "IInput %d %d %d" % (t[1] + 1, t[2], t[3])
    if t[0] == "output":
        return "IOutput %d %d %d" % (t[1], t[2], t[3] + 1)
    if t[0] == "op1":
        return "IOp1 %d %d %d" % (t[1] + 1, OPNUM[t[2]], t[3] + 1)
    return "IOp2 %d %d %d %d" % (t[1] + 1, OPNUM[t[2]], t[3] + 1, t[4] + 1)


def coq_func(name, d):
    nm = "[" + "; ".join(str(ord(c)) for c in name) + "]"
    return "{| f_name := %s%%N; f_nnz_in := [%s]%%N; f_nnz_out := [%s]%%N; f_body := [\n  %s ] |}" % (
        nm, "; ".join(map(str, d["nnz_in"])), "; ".join(map(str, d["nnz_out"])), ";\n  ".join(coq_instr(t) for t in d["body"]))


def main(argv):
    out_v = argv[argv.index("--out") + 1]
    rep_path = argv[argv.index("--report") + 1]
    thorough = "--thorough" in argv
    work = tempfile.mkdtemp(prefix="c09_", dir=os.path.join(ROOT, ".work") if os.path.isdir(os.path.join(ROOT, ".work")) else None)
    report = {"sets": {}, "mismatches": [], "errors": [], "option_runs": 0, "option_failures": [], "functions": 0, "instructions": 0, "cfiles": {}}
    coq = ["(* GENERATED by /verif/extract/c2coq.py: parsed C bodies and CasADi instruction lists of the shipped equation sets *)",
           "From Coq Require Import ZArith List.", "From Cyecca Require Import Model.RegProg.", "Import ListNotations.", "Local Open Scope positive_scope.", ""]
    sink = io.StringIO()
    try:
        with contextlib.redirect_stdout(sink):
            sets = shipped()
    except Exception as e:
        report["errors"].append("building the shipped sets failed: %s: %s" % (type(e).__name__, str(e)[:300]))
        sets = []
    c_funcs, sx_funcs = [], []
    for sname, entry, files, optnames in sets:
        dest = os.path.join(work, sname)
        os.makedirs(dest, exist_ok=True)
        srec = {"files": {}, "options": optnames}
        try:
            with contextlib.redirect_stdout(sink):
                entry(dest)
        except Exception as e:
            report["errors"].append("%s: generation with default options failed: %s: %s" % (sname, type(e).__name__, str(e)[:300]))
            report["sets"][sname] = srec
            continue
        for stem, eqs in files.items():
            cpath = os.path.join(dest, stem + ".c")
            try:
                parsed, order = parse_c(cpath)
            except Exception as e:
                report["errors"].append("%s/%s.c: %s: %s" % (sname, stem, type(e).__name__, str(e)[:300]))
                continue
            report["cfiles"]["%s/%s" % (sname, stem)] = cpath
            expected = [f.name() for f in eqs.values()]
            srec["files"][stem] = {"exports": order, "expected": expected}
            if sorted(order) != sorted(expected) or len(set(order)) != len(order):
                report["mismatches"].append({"set": sname, "file": stem, "kind": "function-set", "exports": order, "expected": expected})
            for key, f in eqs.items():
                if f.name() not in parsed:
                    continue
                try:
                    sx = sx_program(f)
                except Exception as e:
                    report["errors"].append("%s: %s" % (f.name(), str(e)[:200]))
                    continue
                c = parsed[f.name()]
                ok, why = same_prog(c["body"], sx["body"])
                sig_ok = (c["n_in"], c["n_out"], c["nnz_in"], c["nnz_out"]) == (sx["n_in"], sx["n_out"], sx["nnz_in"], sx["nnz_out"])
                report["functions"] += 1
                report["instructions"] += len(sx["body"])
                if not ok or not sig_ok:
                    report["mismatches"].append({"set": sname, "file": stem, "function": f.name(), "kind": "body" if not ok else "signature", "why": why})
                c_funcs.append(coq_func(f.name(), c))
                sx_funcs.append(coq_func(f.name(), sx))
        # option combinations: generation succeeds and exports are complete
        defaults = {}
        combos = []
        if thorough:
            for bits in itertools.product([False, True], repeat=len(optnames)):
                combos.append(dict(zip(optnames, bits)))
        else:
            for o in optnames:
                combos.append({o: True})
                combos.append({o: False})
        for kw in combos:
            d2 = os.path.join(work, sname + "_opt")
            shutil.rmtree(d2, ignore_errors=True)
            os.makedirs(d2)
            report["option_runs"] += 1
            try:
                with contextlib.redirect_stdout(sink), contextlib.redirect_stderr(sink):
                    entry(d2, **kw)
                for stem, eqs in files.items():
                    cands = [os.path.join(d2, stem + e) for e in (".c", ".cpp")]
                    txt = open([c for c in cands if os.path.exists(c)][0]).read()
                    missing = [f.name() for f in eqs.values() if not re.search(r"\b%s\(const casadi_real\*\* arg" % re.escape(f.name()), txt)]
                    if missing:
                        report["option_failures"].append({"set": sname, "options": kw, "what": "functions missing from the output: %s" % missing})
                    # an accepted option must be honoured: the memory-management layer (casadi/mem.h, <fn>_functions tables),
                    # the header file and the main() entry are present exactly when they were requested
                    for opt, probe in (("with_mem", lambda: "casadi/mem.h" in txt), ("main", lambda: re.search(r"\bint main\(", txt) is not None),
                                       ("mex", lambda: "mexFunction" in txt), ("with_header", lambda: os.path.exists(os.path.join(d2, stem + ".h")))):
                        if opt in kw and bool(probe()) != bool(kw[opt]):
                            report["option_failures"].append({"set": sname, "options": kw, "what": "option %s=%s accepted but not honoured in %s" % (opt, kw[opt], stem)})
            except Exception as e:
                report["option_failures"].append({"set": sname, "options": kw, "what": "%s: %s" % (type(e).__name__, str(e)[:200])})
        # history dependence: the default output must be byte-identical after other option combinations were used
        d3 = os.path.join(work, sname + "_again")
        os.makedirs(d3, exist_ok=True)
        try:
            with contextlib.redirect_stdout(sink), contextlib.redirect_stderr(sink):
                entry(d3)
            for fn in sorted(os.listdir(dest)):
                if fn.endswith(".so"):
                    continue
                a = open(os.path.join(dest, fn), "rb").read()
                b = open(os.path.join(d3, fn), "rb").read() if os.path.exists(os.path.join(d3, fn)) else None
                if a != b:
                    report["option_failures"].append({"set": sname, "options": "default, after the other combinations", "what": "default-option output %s differs from the first default run (generator options leak between calls)" % fn})
        except Exception as e:
            report["option_failures"].append({"set": sname, "options": "default, after the other combinations", "what": "%s: %s" % (type(e).__name__, str(e)[:200])})
        report["sets"][sname] = srec
    coq.append("Definition c_funcs : list func := [\n%s\n]." % ";\n".join(c_funcs))
    coq.append("Definition sx_funcs : list func := [\n%s\n]." % ";\n".join(sx_funcs))
    coq.append("Lemma c_equals_sx : funcs_eqb c_funcs sx_funcs = true.\nProof. vm_compute. reflexivity. Qed.")
    txt = "\n".join(coq) + "\n"
    old = open(out_v).read() if os.path.exists(out_v) else None
    if old != txt:
        with open(out_v, "w") as fh:
            fh.write(txt)
    report["workdir"] = work
    with open(rep_path, "w") as fh:
        json.dump(report, fh, indent=1, default=str)
    print(json.dumps({k: report[k] for k in ("functions", "instructions", "option_runs")} | {"mismatches": len(report["mismatches"]), "errors": len(report["errors"]), "option_failures": len(report["option_failures"])}))
    return 0


if __name__ == "__main__":
    sys.exit(main(sys.argv[1:]))
