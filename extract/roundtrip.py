"""Round-trip validation of the translator (DESIGN.md section 2.1).

Re-parses the *emitted Coq text* of coq/Gen/<stem>.v with an independent parser, evaluates
the function form and the wp form in IEEE double precision and compares with the
ca.Function the text was generated from, on random and branch-selecting inputs.
A mismatch is a machinery failure (BROKEN-CHECK), never a property violation.

usage: roundtrip.py [--n N] [--seed S] stem ...
prints one JSON object {"checked": n_units, "evals": n, "mismatches": [...]}
"""
import io
import json
import math
import os
import re
import sys
import contextlib
from fractions import Fraction

import numpy as np

sys.path.insert(0, os.path.dirname(os.path.abspath(__file__)))

TOK = re.compile(r"\s*(\d+|[A-Za-z_][A-Za-z0-9_']*|[()\[\];+\-*/^])")


def tokenize(s):
    pos, out = 0, []
    s = s.strip()
    while pos < len(s):
        m = TOK.match(s, pos)
        if not m:
            raise ValueError("cannot tokenize at %r" % s[pos:pos + 30])
        out.append(m.group(1))
        pos = m.end()
    return out


def fdiv(a, b):
    try:
        return a / b
    except ZeroDivisionError:
        if a == 0 or math.isnan(a):
            return math.nan
        return math.copysign(math.inf, a) * (math.copysign(1.0, b))


def fsqrt(a):
    return math.sqrt(a) if a >= 0 else math.nan


def guard(fn):
    def g(*a):
        try:
            return fn(*a)
        except (ValueError, OverflowError, ZeroDivisionError):
            return math.nan
    return g


def truthy(c):
    return c != 0


def c_remainder(x, y):
    return math.remainder(x, y)


FUNS = {
    "sqrt": (1, guard(fsqrt)), "sin": (1, guard(math.sin)), "cos": (1, guard(math.cos)), "tan": (1, guard(math.tan)),
    "asin": (1, guard(math.asin)), "acos": (1, guard(math.acos)), "atan": (1, guard(math.atan)),
    "Rabs": (1, abs), "op_not": (1, lambda a: 0.0 if truthy(a) else 1.0),
    "op_sign": (1, lambda a: (a > 0) - (a < 0) + 0.0 if not math.isnan(a) else math.nan),
    "op_floor": (1, guard(math.floor)), "op_ceil": (1, guard(math.ceil)),
    "op_exp": (1, guard(math.exp)), "op_log": (1, guard(math.log)),
    "op_lt": (2, lambda a, b: 1.0 if a < b else 0.0), "op_le": (2, lambda a, b: 1.0 if a <= b else 0.0),
    "op_eq": (2, lambda a, b: 1.0 if a == b else 0.0), "op_ne": (2, lambda a, b: 1.0 if a != b else 0.0),
    "op_and": (2, lambda a, b: 1.0 if truthy(a) and truthy(b) else 0.0),
    "op_or": (2, lambda a, b: 1.0 if truthy(a) or truthy(b) else 0.0),
    "op_ifz": (2, lambda c, x: x if truthy(c) else 0.0),
    "Rmin": (2, lambda a, b: min(a, b) if not (math.isnan(a) or math.isnan(b)) else math.nan),
    "Rmax": (2, lambda a, b: max(a, b) if not (math.isnan(a) or math.isnan(b)) else math.nan),
    "op_atan2": (2, guard(math.atan2)), "op_copysign": (2, math.copysign),
    "op_fmod": (2, guard(math.fmod)), "op_remainder": (2, guard(c_remainder)),
    "op_pow": (2, guard(lambda a, b: math.pow(a, b))),
}


class Parser:
    def __init__(self, toks, env):
        self.t, self.i, self.env = toks, 0, env

    def peek(self):
        return self.t[self.i] if self.i < len(self.t) else None

    def eat(self, x=None):
        tok = self.t[self.i]
        if x is not None and tok != x:
            raise ValueError("expected %s got %s" % (x, tok))
        self.i += 1
        return tok

    def atom(self):
        tok = self.peek()
        if tok == "(":
            return self.paren()
        self.eat()
        if tok.isdigit():
            return Fraction(int(tok))
        if tok in self.env:
            return self.env[tok]
        raise ValueError("unbound %s" % tok)

    def paren(self):
        self.eat("(")
        tok = self.peek()
        if tok == "-":
            self.eat()
            a = self.atom()
            if self.peek() == ")":
                self.eat(")")
                return -a
            a = -a                      # (-N / D): negative rational literal
            op = self.eat()
            b = self.atom()
            self.eat(")")
            if op == "/" and isinstance(a, Fraction) and isinstance(b, Fraction):
                return a / b
            raise ValueError("unexpected operator after unary minus: %s" % op)
        if tok == "/":
            self.eat()
            a = self.atom()
            self.eat(")")
            return fdiv(1.0, float(a))
        if tok in FUNS:
            self.eat()
            ar, fn = FUNS[tok]
            args = [float(self.atom()) for _ in range(ar)]
            self.eat(")")
            return fn(*args)
        a = self.atom()
        if self.peek() == ")":
            self.eat()
            return a
        op = self.eat()
        if op == "^":
            e = int(self.eat())
            self.eat(")")
            a = float(a)
            try:
                return a ** e
            except OverflowError:
                return math.inf
        b = self.atom()
        self.eat(")")
        if isinstance(a, Fraction) and isinstance(b, Fraction):
            # exact rational constant n / d  (or integer arithmetic never emitted otherwise)
            if op == "/":
                return a / b
        a, b = float(a), float(b)
        if op == "+":
            return a + b
        if op == "-":
            return a - b
        if op == "*":
            return a * b
        if op == "/":
            return fdiv(a, b)
        raise ValueError("bad operator %s" % op)


DEF = re.compile(r"Definition (\w+?)(_wpe|_wp)? (?:\(([^:()]*) : R\))?\s*(\(P : list R -> Prop\) : Prop|: list R) :=\n(.*?)\.\n", re.S)


def parse_file(txt):
    """-> {name: {"fn": (args, lets, outs), "wp": (...)}}"""
    res = {}
    for m in DEF.finditer(txt):
        name, wp, args, kind, body = m.groups()
        if name.endswith("_v") and "let" not in body and "nth" in body:
            continue
        if kind.startswith(": list R") and wp:
            continue
        args = args.split() if args else []
        lets, final, bound = [], None, None
        for line in body.split("\n"):
            line = line.strip()
            if line.startswith("let "):
                mm = re.match(r"let (\w+) := (.*) in$", line)
                lets.append((mm.group(1), mm.group(2)))
            elif line.startswith("forall "):
                mm = re.match(r"forall ([\w ]+) : R,$", line)
                bound = mm.group(1).split()
            elif line.startswith("Eqn "):
                mm = re.match(r"Eqn (\w+) (.*) ->$", line)
                if not bound or bound[0] != mm.group(1):
                    raise ValueError("wpe equation for %s does not follow the binder order" % mm.group(1))
                bound.pop(0)
                lets.append((mm.group(1), mm.group(2)))
            elif line:
                final = line
        if final is None:
            continue
        if bound:
            raise ValueError("wpe binders without equation: %s" % bound[:3])
        if wp:
            if not final.startswith("P ["):
                continue
            final = final[2:]
        if not final.startswith("["):
            continue
        outs = [s.strip() for s in final.strip("[]").split(";")] if final.strip("[]").strip() else []
        res.setdefault(name, {})[{"_wp": "wp", "_wpe": "wpe", None: "fn"}[wp]] = (args, lets, outs)
    return res


def evaluate(form, values):
    args, lets, outs = form
    env = dict(zip(args, values))
    for v, e in lets:
        env[v] = float(Parser(tokenize(e), env).atom())
    return [float(Parser(tokenize(o), env).atom()) for o in outs]


def same(a, b, rtol=1e-9):
    # the emitted text is a real-number model: at singular inputs (x/0, 0*inf, pow(-0.0, -1/2), ...) CasADi returns some
    # non-finite IEEE value and the Python re-evaluation of the text another one (NaN vs -inf for an input of -0.0);
    # both sides non-finite counts as agreement, a finite value against a non-finite one does not
    if not (math.isfinite(a) and math.isfinite(b)):
        return (not math.isfinite(a)) and (not math.isfinite(b))
    return abs(a - b) <= rtol * max(1.0, abs(a), abs(b))


def main(argv):
    n, seed, stems = 6, 0, []
    i = 0
    while i < len(argv):
        if argv[i] == "--n":
            n = int(argv[i + 1]); i += 2
        elif argv[i] == "--seed":
            seed = int(argv[i + 1]); i += 2
        else:
            stems.append(argv[i]); i += 1
    sink = io.StringIO()
    with contextlib.redirect_stdout(sink):
        import units
        import sx2coq
        files = units.all_files()
    gen = os.path.join(os.path.dirname(os.path.abspath(__file__)), "..", "coq", "Gen")
    rng = np.random.default_rng(seed)
    res = {"checked": 0, "evals": 0, "mismatches": [], "skipped": []}
    for stem in stems or list(files.keys()):
        with open(os.path.join(gen, stem + ".v")) as fh:
            parsed = parse_file(fh.read())
        for name, builder in files[stem]:
            cname = sx2coq.sanitize(name)
            try:
                with contextlib.redirect_stdout(sink):
                    f = builder()
            except Exception:
                res["skipped"].append(name)
                continue
            if cname not in parsed or "fn" not in parsed[cname] or "wp" not in parsed[cname]:
                res["mismatches"].append({"unit": name, "what": "definition missing from emitted text"})
                continue
            res["checked"] += 1
            has_inf = parsed[cname]["fn"][0][:1] == ["INF"]
            nnz = [f.nnz_in(k) for k in range(f.n_in())]
            for trial in range(n):
                scale = [1.0, 1.0, 1e-2, 1e-4, 3.0, 0.0][trial % 6]
                vals = [rng.normal(size=k) * scale for k in nnz]
                if trial % 6 == 1:
                    vals = [np.abs(v) for v in vals]
                import casadi as ca
                ins = []
                for k in range(f.n_in()):
                    sp = f.sparsity_in(k)
                    dm = ca.DM(sp)
                    if nnz[k]:
                        dm = ca.DM(sp, vals[k])
                    ins.append(dm)
                out = f.call(ins)
                ref = []
                for o in out:
                    ref += list(np.array(ca.DM(o).full()).flatten(order="F")) if o.numel() else []
                flat = [float(x) for v in vals for x in v]
                for kind in ("fn", "wp") + (("wpe",) if "wpe" in parsed[cname] else ()):
                    try:
                        got = evaluate(parsed[cname][kind], ([1e300 * 1e300] if has_inf else []) + flat)
                    except Exception as e:
                        res["mismatches"].append({"unit": name, "what": "evaluator: %r" % e, "form": kind})
                        break
                    res["evals"] += 1
                    if len(got) != len(ref) or not all(same(a, b) for a, b in zip(got, ref)):
                        res["mismatches"].append({"unit": name, "form": kind, "input": flat, "got": got, "ref": [float(x) for x in ref]})
                        break
    print(json.dumps(res))
    return 1 if res["mismatches"] else 0


if __name__ == "__main__":
    sys.exit(main(sys.argv[1:]))
