#!/bin/sh
# dev helper: regenerate coq project and make targets
cd /verif && ./check --coqproject && cd coq && exec timeout ${T:-300} make -k -j${J:-12} "$@"
