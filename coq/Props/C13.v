(* C13 -- control allocation, on the predicate-transformer form of the unit regenerated from
   rdd2.derive_control_allocation().  rdd2_control_allocation_wp args P  is literally the generated
   let-chain ending in  P [outputs];  outputs: omega[0:4], Fp_sum[4:8], F_moment[8:12], F_thrust[12:16], M_sat[16:19]. *)
From Coq Require Import Reals List Lra.
From Cyecca Require Import Base.Ops Spec.Mat Gen.Rdd2 Proofs.C13.
Import ListNotations.
Local Open Scope R_scope.

(* every allocated motor force lies in [0, F_max], whatever the demand and the constants *)
Theorem C13_alloc_range : forall F_max l Cm Ct T M0 M1 M2, 0 <= F_max ->
  rdd2_control_allocation_wp F_max l Cm Ct T M0 M1 M2 (fun r =>
    0 <= nth 4 r 0 <= F_max /\ 0 <= nth 5 r 0 <= F_max /\ 0 <= nth 6 r 0 <= F_max /\ 0 <= nth 7 r 0 <= F_max).
Proof. exact alloc_range. Qed.

(* every motor speed is a non-negative real with omega^2 Ct = F *)
Theorem C13_alloc_omega : forall F_max l Cm Ct T M0 M1 M2, 0 <= F_max -> 0 < Ct ->
  rdd2_control_allocation_wp F_max l Cm Ct T M0 M1 M2 (fun r =>
    (0 <= nth 0 r 0 /\ nth 0 r 0 * nth 0 r 0 * Ct = nth 4 r 0) /\
    (0 <= nth 1 r 0 /\ nth 1 r 0 * nth 1 r 0 * Ct = nth 5 r 0) /\
    (0 <= nth 2 r 0 /\ nth 2 r 0 * nth 2 r 0 * Ct = nth 6 r 0) /\
    (0 <= nth 3 r 0 /\ nth 3 r 0 * nth 3 r 0 * Ct = nth 7 r 0)).
Proof. exact alloc_omega. Qed.

(* a jointly achievable (range-limited) demand is reproduced exactly, closed boundary included *)
Theorem C13_alloc_exact_when_feasible : forall F_max l Cm Ct T M0 M1 M2, 0 <= F_max ->
  rdd2_control_allocation_wp F_max l Cm Ct T M0 M1 M2 (fun r =>
    0 <= nth 8 r 0 + nth 12 r 0 <= F_max -> 0 <= nth 9 r 0 + nth 13 r 0 <= F_max ->
    0 <= nth 10 r 0 + nth 14 r 0 <= F_max -> 0 <= nth 11 r 0 + nth 15 r 0 <= F_max ->
    [nth 4 r 0; nth 5 r 0; nth 6 r 0; nth 7 r 0] =
    [nth 8 r 0 + nth 12 r 0; nth 9 r 0 + nth 13 r 0; nth 10 r 0 + nth 14 r 0; nth 11 r 0 + nth 15 r 0]).
Proof. exact alloc_exact_when_feasible. Qed.

(* moment alone achievable: the moment part is kept, only the collective thrust is shifted, by the least amount needed *)
Theorem C13_alloc_moment_kept : forall F_max l Cm Ct T M0 M1 M2, 0 <= F_max ->
  rdd2_control_allocation_wp F_max l Cm Ct T M0 M1 M2 (fun r =>
    spread4 (nth 8 r 0) (nth 9 r 0) (nth 10 r 0) (nth 11 r 0) F_max ->
    (nth 12 r 0 = nth 13 r 0 /\ nth 13 r 0 = nth 14 r 0 /\ nth 14 r 0 = nth 15 r 0) /\
    exists c, nth 4 r 0 = nth 8 r 0 + nth 12 r 0 + c /\ nth 5 r 0 = nth 9 r 0 + nth 13 r 0 + c /\
              nth 6 r 0 = nth 10 r 0 + nth 14 r 0 + c /\ nth 7 r 0 = nth 11 r 0 + nth 15 r 0 + c /\
              least_shift c 0 F_max (nth 4 r 0) (nth 5 r 0) (nth 6 r 0) (nth 7 r 0)).
Proof. exact alloc_moment_kept. Qed.

Print Assumptions C13_alloc_range.
Print Assumptions C13_alloc_omega.
Print Assumptions C13_alloc_exact_when_feasible.
Print Assumptions C13_alloc_moment_kept.
