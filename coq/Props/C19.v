(* C19 -- SymPy -> CasADi conversion preserves meaning: theorems about the hand-written model Model/Conv.v of
   cyecca.symbolic.sympy_to_casadi (recursive descent with a threaded symbol table and a user function dictionary),
   tied to the code by harness/corr_conv.py.  evalS / evalC: value of a SymPy / CasADi tree at an environment, for any
   interpretation of the user functions and of the power function. *)
From Coq Require Import Reals List NArith ZArith Bool.
From Cyecca Require Import Model.Conv Proofs.C19.
Import ListNotations.

Theorem C19_conversion_preserves_value : forall env ufun powR fdict fuel s t c t',
  conv fdict fuel s t = Some (c, t') -> evalC env ufun powR c = evalS env ufun powR s.
Proof. exact conv_sound. Qed.
Theorem C19_unsupported_construct_raises : forall fdict fuel tag t, conv fdict fuel (SOther tag) t = None.
Proof. exact unsupported_raises. Qed.
Theorem C19_unknown_function_raises : forall fdict fuel h a t, (4 <= h)%N -> existsb (N.eqb h) fdict = false ->
  conv fdict fuel (SFun h a) t = None.
Proof. exact unknown_function_raises. Qed.
Theorem C19_symbol_table_consistent : forall fdict fuel s t c t', conv fdict fuel s t = Some (c, t') ->
  (exists ext, t' = t ++ ext) /\ (NoDup t -> NoDup t').
Proof. exact symtab_consistent. Qed.

(* non-vacuity: 2.5 * x + f(y)^(1/2) converts, keeps the float, binds x then y *)
Example C19_example :
  conv [10%N] 20 (SAdd [SMul [SFloat 5 (-1); SSym 0]; SPow (SFun 10 (SSym 1)) SHalf]) [] =
  Some (CAdd (CAdd (CConst (KInt 0)) (CMul (CMul (CConst (KInt 1)) (CConst (KFloat 5 (-1)))) (CSym 0))) (CSqrt (CFun 10 (CSym 1))), [0%N; 1%N]).
Proof. vm_compute. reflexivity. Qed.

Print Assumptions C19_conversion_preserves_value.
Print Assumptions C19_unsupported_construct_raises.
Print Assumptions C19_unknown_function_raises.
Print Assumptions C19_symbol_table_consistent.
