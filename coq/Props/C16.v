(* C16 -- property theorems (statements only; proofs live in Proofs/C16*.v).
   quad_f / quad_g_accel / quad_g_gyro are regenerated from quadrotor.derive_model() on every run.
   State layout x = (p[0:3], v_body[3:6], q[6:10], w[10:13], rotor speeds[13:17]); u = rotor commands;
   the parameter vector is fully symbolic, so every statement holds for all parameter sets. *)
From Coq Require Import Reals List Lra.
From Coquelicot Require Import Coquelicot.
From Cyecca Require Import Base.Ops Gen.Quadrotor Proofs.C16 Proofs.C16_equiv Proofs.C16_motor.
Import ListNotations.
Local Open Scope R_scope.

Section P.
Variables (tau_up tau_down d0 d1 d2 d3 l0 l1 l2 l3 th0 th1 th2 th3 CT CM Cl_p Cm_q Cn_r CD0 S rho g m Jx Jy Jz : R).
Variables (n0 n1 n2 n3 n4 n5 n6 n7 n8 n9 n10 n11 : R).
Notation f := (fun px py pz vx vy vz q0 q1 q2 q3 wx wy wz m0 m1 m2 m3 u0 u1 u2 u3 =>
  quad_f px py pz vx vy vz q0 q1 q2 q3 wx wy wz m0 m1 m2 m3 u0 u1 u2 u3
    tau_up tau_down d0 d1 d2 d3 l0 l1 l2 l3 th0 th1 th2 th3 CT CM Cl_p Cm_q Cn_r CD0 S rho g m Jx Jy Jz
    n0 n1 n2 n3 n4 n5 n6 n7 n8 n9 n10 n11).
Notation g_accel := (fun px py pz vx vy vz q0 q1 q2 q3 wx wy wz m0 m1 m2 m3 u0 u1 u2 u3 w0 w1 w2 dt =>
  quad_g_accel px py pz vx vy vz q0 q1 q2 q3 wx wy wz m0 m1 m2 m3 u0 u1 u2 u3
    tau_up tau_down d0 d1 d2 d3 l0 l1 l2 l3 th0 th1 th2 th3 CT CM Cl_p Cm_q Cn_r CD0 S rho g m Jx Jy Jz
    n0 n1 n2 n3 n4 n5 n6 n7 n8 n9 n10 n11 w0 w1 w2 dt).
Notation g_gyro := (fun px py pz vx vy vz q0 q1 q2 q3 wx wy wz m0 m1 m2 m3 u0 u1 u2 u3 w0 w1 w2 dt =>
  quad_g_gyro px py pz vx vy vz q0 q1 q2 q3 wx wy wz m0 m1 m2 m3 u0 u1 u2 u3
    tau_up tau_down d0 d1 d2 d3 l0 l1 l2 l3 th0 th1 th2 th3 CT CM Cl_p Cm_q Cn_r CD0 S rho g m Jx Jy Jz
    n0 n1 n2 n3 n4 n5 n6 n7 n8 n9 n10 n11 w0 w1 w2 dt).

Theorem C16_quat_norm_preserved : forall px py pz vx vy vz q0 q1 q2 q3 wx wy wz m0 m1 m2 m3 u0 u1 u2 u3,
  let r := f px py pz vx vy vz q0 q1 q2 q3 wx wy wz m0 m1 m2 m3 u0 u1 u2 u3 in
  q0 * nth 6 r 0 + q1 * nth 7 r 0 + q2 * nth 8 r 0 + q3 * nth 9 r 0 = 0.
Proof. exact (quat_norm_preserved tau_up tau_down d0 d1 d2 d3 l0 l1 l2 l3 th0 th1 th2 th3 CT CM Cl_p Cm_q Cn_r CD0 S rho g m Jx Jy Jz n0 n1 n2 n3 n4 n5 n6 n7 n8 n9 n10 n11). Qed.

Theorem C16_quat_kinematics : forall px py pz vx vy vz q0 q1 q2 q3 wx wy wz m0 m1 m2 m3 u0 u1 u2 u3,
  let r := f px py pz vx vy vz q0 q1 q2 q3 wx wy wz m0 m1 m2 m3 u0 u1 u2 u3 in
  [nth 6 r 0; nth 7 r 0; nth 8 r 0; nth 9 r 0] =
  [(- q1 * wx - q2 * wy - q3 * wz) / 2; (q0 * wx + q2 * wz - q3 * wy) / 2;
   (q0 * wy - q1 * wz + q3 * wx) / 2; (q0 * wz + q1 * wy - q2 * wx) / 2].
Proof. exact (quat_kinematics tau_up tau_down d0 d1 d2 d3 l0 l1 l2 l3 th0 th1 th2 th3 CT CM Cl_p Cm_q Cn_r CD0 S rho g m Jx Jy Jz n0 n1 n2 n3 n4 n5 n6 n7 n8 n9 n10 n11). Qed.

Theorem C16_position_kinematics : forall px py pz vx vy vz q0 q1 q2 q3 wx wy wz m0 m1 m2 m3 u0 u1 u2 u3,
  let r := f px py pz vx vy vz q0 q1 q2 q3 wx wy wz m0 m1 m2 m3 u0 u1 u2 u3 in
  [nth 0 r 0; nth 1 r 0; nth 2 r 0] =
  [(q0*q0+q1*q1-q2*q2-q3*q3) * vx + 2*(q1*q2-q0*q3) * vy + 2*(q1*q3+q0*q2) * vz;
   2*(q1*q2+q0*q3) * vx + (q0*q0-q1*q1+q2*q2-q3*q3) * vy + 2*(q2*q3-q0*q1) * vz;
   2*(q1*q3-q0*q2) * vx + 2*(q2*q3+q0*q1) * vy + (q0*q0-q1*q1-q2*q2+q3*q3) * vz].
Proof. exact (position_kinematics tau_up tau_down d0 d1 d2 d3 l0 l1 l2 l3 th0 th1 th2 th3 CT CM Cl_p Cm_q Cn_r CD0 S rho g m Jx Jy Jz n0 n1 n2 n3 n4 n5 n6 n7 n8 n9 n10 n11). Qed.

(* level hover, each rotor carrying a quarter of the weight, symmetric frame: equilibrium *)
Theorem C16_hover_equilibrium : forall px py pz w,
  0 <= pz -> m <> 0 -> Jx <> 0 -> Jy <> 0 -> Jz <> 0 -> tau_down <> 0 ->
  4 * (CT * (w * w)) = m * g ->
  l0 * cos th0 + l1 * cos th1 + l2 * cos th2 + l3 * cos th3 = 0 ->
  l0 * sin th0 + l1 * sin th1 + l2 * sin th2 + l3 * sin th3 = 0 ->
  d0 + d1 + d2 + d3 = 0 ->
  f px py pz 0 0 0 1 0 0 0 0 0 0 w w w w w w w w = [0;0;0;0;0;0;0;0;0;0;0;0;0;0;0;0;0].
Proof. exact (hover_equilibrium tau_up tau_down d0 d1 d2 d3 l0 l1 l2 l3 th0 th1 th2 th3 CT CM Cl_p Cm_q Cn_r CD0 S rho g m Jx Jy Jz n0 n1 n2 n3 n4 n5 n6 n7 n8 n9 n10 n11). Qed.

Theorem C16_free_fall_accel_zero : forall px py pz vx vy vz q0 q1 q2 q3 wx wy wz u0 u1 u2 u3 dt,
  0 <= pz -> CD0 = 0 ->
  g_accel px py pz vx vy vz q0 q1 q2 q3 wx wy wz 0 0 0 0 u0 u1 u2 u3 0 0 0 dt = [0; 0; 0].
Proof. exact (free_fall_accel_zero tau_up tau_down d0 d1 d2 d3 l0 l1 l2 l3 th0 th1 th2 th3 CT CM Cl_p Cm_q Cn_r CD0 S rho g m Jx Jy Jz n0 n1 n2 n3 n4 n5 n6 n7 n8 n9 n10 n11). Qed.

Theorem C16_gyro_reads_rate : forall px py pz vx vy vz q0 q1 q2 q3 wx wy wz m0 m1 m2 m3 u0 u1 u2 u3 dt,
  g_gyro px py pz vx vy vz q0 q1 q2 q3 wx wy wz m0 m1 m2 m3 u0 u1 u2 u3 0 0 0 dt = [wx; wy; wz].
Proof. exact (gyro_reads_rate tau_up tau_down d0 d1 d2 d3 l0 l1 l2 l3 th0 th1 th2 th3 CT CM Cl_p Cm_q Cn_r CD0 S rho g m Jx Jy Jz n0 n1 n2 n3 n4 n5 n6 n7 n8 n9 n10 n11). Qed.

(* Euler's equation with the wrench summed over rotors: arm x thrust, reaction torque opposite to spin, aero moment *)
Theorem C16_moment_is_sum_over_rotors : forall px py pz vx vy vz q0 q1 q2 q3 wx wy wz m0 m1 m2 m3 u0 u1 u2 u3,
  Jx <> 0 -> Jy <> 0 -> Jz <> 0 ->
  let r := f px py pz vx vy vz q0 q1 q2 q3 wx wy wz m0 m1 m2 m3 u0 u1 u2 u3 in
  let T0 := CT * (m0 * m0) in let T1 := CT * (m1 * m1) in
  let T2 := CT * (m2 * m2) in let T3 := CT * (m3 * m3) in
  [Jx * nth 10 r 0 + (wy * (Jz * wz) - wz * (Jy * wy));
   Jy * nth 11 r 0 + (wz * (Jx * wx) - wx * (Jz * wz));
   Jz * nth 12 r 0 + (wx * (Jy * wy) - wy * (Jx * wx))] =
  [l0 * sin th0 * T0 + l1 * sin th1 * T1 + l2 * sin th2 * T2 + l3 * sin th3 * T3
     + Cl_p * wx * S * (l0 + l1 + l2 + l3);
   - (l0 * cos th0 * T0 + l1 * cos th1 * T1 + l2 * cos th2 * T2 + l3 * cos th3 * T3)
     + Cm_q * wy * S * (l0 + l1 + l2 + l3);
   - CM * (d0 * T0 + d1 * T1 + d2 * T2 + d3 * T3) + Cn_r * wz * S * (l0 + l1 + l2 + l3)].
Proof. exact (moment_is_sum_over_rotors tau_up tau_down d0 d1 d2 d3 l0 l1 l2 l3 th0 th1 th2 th3 CT CM Cl_p Cm_q Cn_r CD0 S rho g m Jx Jy Jz n0 n1 n2 n3 n4 n5 n6 n7 n8 n9 n10 n11). Qed.

Theorem C16_zero_moment_symmetric : forall px py pz vx vy vz q0 q1 q2 q3 w u0 u1 u2 u3,
  Jx <> 0 -> Jy <> 0 -> Jz <> 0 ->
  l0 * cos th0 + l1 * cos th1 + l2 * cos th2 + l3 * cos th3 = 0 ->
  l0 * sin th0 + l1 * sin th1 + l2 * sin th2 + l3 * sin th3 = 0 ->
  d0 + d1 + d2 + d3 = 0 ->
  let r := f px py pz vx vy vz q0 q1 q2 q3 0 0 0 w w w w u0 u1 u2 u3 in
  [nth 10 r 0; nth 11 r 0; nth 12 r 0] = [0; 0; 0].
Proof. exact (zero_moment_symmetric tau_up tau_down d0 d1 d2 d3 l0 l1 l2 l3 th0 th1 th2 th3 CT CM Cl_p Cm_q Cn_r CD0 S rho g m Jx Jy Jz n0 n1 n2 n3 n4 n5 n6 n7 n8 n9 n10 n11). Qed.

(* Newton's equation above ground, no drag: thrust along body z + gravity expressed in body axes *)
Theorem C16_force_is_sum_over_rotors : forall px py pz vx vy vz q0 q1 q2 q3 wx wy wz m0 m1 m2 m3 u0 u1 u2 u3,
  0 <= pz -> CD0 = 0 -> m <> 0 ->
  let r := f px py pz vx vy vz q0 q1 q2 q3 wx wy wz m0 m1 m2 m3 u0 u1 u2 u3 in
  [m * (nth 3 r 0 + (wy * vz - wz * vy));
   m * (nth 4 r 0 + (wz * vx - wx * vz));
   m * (nth 5 r 0 + (wx * vy - wy * vx))] =
  [- m * g * (2 * (q1 * q3 - q0 * q2));
   - m * g * (2 * (q2 * q3 + q0 * q1));
   CT * (m0 * m0) + CT * (m1 * m1) + CT * (m2 * m2) + CT * (m3 * m3)
     - m * g * (q0 * q0 - q1 * q1 - q2 * q2 + q3 * q3)].
Proof. exact (force_is_sum_over_rotors tau_up tau_down d0 d1 d2 d3 l0 l1 l2 l3 th0 th1 th2 th3 CT CM Cl_p Cm_q Cn_r CD0 S rho g m Jx Jy Jz n0 n1 n2 n3 n4 n5 n6 n7 n8 n9 n10 n11). Qed.

Theorem C16_motor_spin_up : forall px py pz vx vy vz q0 q1 q2 q3 wx wy wz m0 m1 m2 m3 u0 u1 u2 u3,
  m0 < u0 -> m1 < u1 -> m2 < u2 -> m3 < u3 ->
  let r := f px py pz vx vy vz q0 q1 q2 q3 wx wy wz m0 m1 m2 m3 u0 u1 u2 u3 in
  [nth 13 r 0; nth 14 r 0; nth 15 r 0; nth 16 r 0] =
  [(u0 - m0) / tau_up; (u1 - m1) / tau_up; (u2 - m2) / tau_up; (u3 - m3) / tau_up].
Proof. exact (motor_spin_up tau_up tau_down d0 d1 d2 d3 l0 l1 l2 l3 th0 th1 th2 th3 CT CM Cl_p Cm_q Cn_r CD0 S rho g m Jx Jy Jz n0 n1 n2 n3 n4 n5 n6 n7 n8 n9 n10 n11). Qed.

Theorem C16_motor_spin_down : forall px py pz vx vy vz q0 q1 q2 q3 wx wy wz m0 m1 m2 m3 u0 u1 u2 u3,
  u0 <= m0 -> u1 <= m1 -> u2 <= m2 -> u3 <= m3 ->
  let r := f px py pz vx vy vz q0 q1 q2 q3 wx wy wz m0 m1 m2 m3 u0 u1 u2 u3 in
  [nth 13 r 0; nth 14 r 0; nth 15 r 0; nth 16 r 0] =
  [(u0 - m0) / tau_down; (u1 - m1) / tau_down; (u2 - m2) / tau_down; (u3 - m3) / tau_down].
Proof. exact (motor_spin_down tau_up tau_down d0 d1 d2 d3 l0 l1 l2 l3 th0 th1 th2 th3 CT CM Cl_p Cm_q Cn_r CD0 S rho g m Jx Jy Jz n0 n1 n2 n3 n4 n5 n6 n7 n8 n9 n10 n11). Qed.

Theorem C16_motor0_independent : forall px py pz vx vy vz q0 q1 q2 q3 wx wy wz m0 m1 m2 m3 u0 u1 u2 u3,
  let r := f px py pz vx vy vz q0 q1 q2 q3 wx wy wz m0 m1 m2 m3 u0 u1 u2 u3 in
  nth 13 r 0 = if Rlt_dec m0 u0 then (u0 - m0) / tau_up else (u0 - m0) / tau_down.
Proof. exact (motor0_independent tau_up tau_down d0 d1 d2 d3 l0 l1 l2 l3 th0 th1 th2 th3 CT CM Cl_p Cm_q Cn_r CD0 S rho g m Jx Jy Jz n0 n1 n2 n3 n4 n5 n6 n7 n8 n9 n10 n11). Qed.

(* Last clause of the property: for a constant command u0 the closed form
     motor_sol m0 u0 t = u0 + (m0 - u0) exp (- t / tau),   tau = tau_up if m0 < u0 else tau_down
   (the code's own comparison, taken once at t = 0) solves the generated motor equation for every t and every value
   of the rest of the state, starts at m0, never crosses the command (so the time constant never switches along
   the solution) and its distance to the command is non-increasing. *)
Theorem C16_motor_closed_form_solves : 0 < tau_up -> 0 < tau_down ->
  forall px py pz vx vy vz q0 q1 q2 q3 wx wy wz m0 m1 m2 m3 u0 u1 u2 u3 t,
  is_derive (motor_sol tau_up tau_down m0 u0) t
    (nth 13 (f px py pz vx vy vz q0 q1 q2 q3 wx wy wz (motor_sol tau_up tau_down m0 u0 t) m1 m2 m3 u0 u1 u2 u3) 0).
Proof. exact (motor_sol_solves tau_up tau_down d0 d1 d2 d3 l0 l1 l2 l3 th0 th1 th2 th3 CT CM Cl_p Cm_q Cn_r CD0 S rho g m Jx Jy Jz n0 n1 n2 n3 n4 n5 n6 n7 n8 n9 n10 n11). Qed.

Theorem C16_motor_closed_form_start : forall m0 u0, motor_sol tau_up tau_down m0 u0 0 = m0.
Proof. exact (motor_sol_0 tau_up tau_down). Qed.

Theorem C16_motor_never_crosses_command : forall m0 u0 t, motor_sol tau_up tau_down m0 u0 t < u0 <-> m0 < u0.
Proof. exact (motor_sol_side tau_up tau_down). Qed.

Theorem C16_motor_relaxes_monotonically : 0 < tau_up -> 0 < tau_down -> forall m0 u0 s t, s <= t ->
  Rabs (motor_sol tau_up tau_down m0 u0 t - u0) <= Rabs (motor_sol tau_up tau_down m0 u0 s - u0).
Proof. exact (motor_sol_monotone tau_up tau_down). Qed.

(* ... and it tends to the command *)
Theorem C16_motor_reaches_command : 0 < tau_up -> 0 < tau_down ->
  forall m0 u0, is_lim (motor_sol tau_up tau_down m0 u0) p_infty u0.
Proof. exact (motor_sol_lim tau_up tau_down). Qed.

Theorem C16_translation_invariant : forall a b px py pz vx vy vz q0 q1 q2 q3 wx wy wz m0 m1 m2 m3 u0 u1 u2 u3,
  f (px + a) (py + b) pz vx vy vz q0 q1 q2 q3 wx wy wz m0 m1 m2 m3 u0 u1 u2 u3 =
  f px py pz vx vy vz q0 q1 q2 q3 wx wy wz m0 m1 m2 m3 u0 u1 u2 u3.
Proof. exact (translation_invariant tau_up tau_down d0 d1 d2 d3 l0 l1 l2 l3 th0 th1 th2 th3 CT CM Cl_p Cm_q Cn_r CD0 S rho g m Jx Jy Jz n0 n1 n2 n3 n4 n5 n6 n7 n8 n9 n10 n11). Qed.

(* rotation of the world frame about the vertical by the unit quaternion (c,0,0,s) *)
Theorem C16_yaw_equivariant : forall c s px py pz vx vy vz q0 q1 q2 q3 wx wy wz m0 m1 m2 m3 u0 u1 u2 u3,
  c * c + s * s = 1 ->
  let r  := f px py pz vx vy vz q0 q1 q2 q3 wx wy wz m0 m1 m2 m3 u0 u1 u2 u3 in
  let r' := f ((c*c - s*s) * px - 2*c*s * py) (2*c*s * px + (c*c - s*s) * py) pz vx vy vz
              (c*q0 - s*q3) (c*q1 - s*q2) (c*q2 + s*q1) (c*q3 + s*q0)
              wx wy wz m0 m1 m2 m3 u0 u1 u2 u3 in
  r' = [ (c*c - s*s) * nth 0 r 0 - 2*c*s * nth 1 r 0;  2*c*s * nth 0 r 0 + (c*c - s*s) * nth 1 r 0; nth 2 r 0;
         nth 3 r 0; nth 4 r 0; nth 5 r 0;
         c * nth 6 r 0 - s * nth 9 r 0; c * nth 7 r 0 - s * nth 8 r 0; c * nth 8 r 0 + s * nth 7 r 0; c * nth 9 r 0 + s * nth 6 r 0;
         nth 10 r 0; nth 11 r 0; nth 12 r 0; nth 13 r 0; nth 14 r 0; nth 15 r 0; nth 16 r 0 ].
Proof. exact (yaw_equivariant tau_up tau_down d0 d1 d2 d3 l0 l1 l2 l3 th0 th1 th2 th3 CT CM Cl_p Cm_q Cn_r CD0 S rho g m Jx Jy Jz n0 n1 n2 n3 n4 n5 n6 n7 n8 n9 n10 n11). Qed.

End P.

(* non-vacuity: the hypotheses of the hover theorem are met by an exactly symmetric X frame *)
Example C16_hover_premises_inhabited :
  exists l th0 th1 th2 th3 d0 d1 d2 d3 : R,
    l * cos th0 + l * cos th1 + l * cos th2 + l * cos th3 = 0 /\
    l * sin th0 + l * sin th1 + l * sin th2 + l * sin th3 = 0 /\
    d0 + d1 + d2 + d3 = 0 /\ l > 0.
Proof.
  exists (1/4), (- (PI/4)), (PI - PI/4), (PI/4), (- (PI - PI/4)), 1, 1, (-1), (-1).
  rewrite !cos_neg, !sin_neg, !Rtrigo_facts.cos_pi_minus, !Rtrigo_facts.sin_pi_minus. repeat split; lra.
Qed.

Print Assumptions C16_quat_norm_preserved.
Print Assumptions C16_quat_kinematics.
Print Assumptions C16_position_kinematics.
Print Assumptions C16_hover_equilibrium.
Print Assumptions C16_free_fall_accel_zero.
Print Assumptions C16_gyro_reads_rate.
Print Assumptions C16_moment_is_sum_over_rotors.
Print Assumptions C16_zero_moment_symmetric.
Print Assumptions C16_force_is_sum_over_rotors.
Print Assumptions C16_motor_spin_up.
Print Assumptions C16_motor_spin_down.
Print Assumptions C16_motor0_independent.
Print Assumptions C16_motor_closed_form_solves.
Print Assumptions C16_motor_closed_form_start.
Print Assumptions C16_motor_never_crosses_command.
Print Assumptions C16_motor_relaxes_monotonically.
Print Assumptions C16_motor_reaches_command.
Print Assumptions C16_translation_invariant.
Print Assumptions C16_yaw_equivariant.
