(* C04 -- direct products built with `*`: DPa = SO3Mrp*R3 (the estimator's state group), DPb = (SO3Quat*R3)*SO2, DPc = SE2*(SO2*R2),
   DPd = SO3Dcm*R2, DPe = SO3Quat*SO3Mrp (the same non-abelian algebra twice), DPf = SE2*SE2.  Units regenerated from
   cyecca/lie/direct_product.py; each statement says the product's unit is the factor-wise composition of the factor units
   (parameter slices: group sizes on the group side, algebra sizes on the algebra side). *)
From Coq Require Import Reals List Lra.
From Cyecca Require Import Base.Ops Spec.Mat Gen.SO2 Gen.SE2 Gen.Rn Gen.so3 Gen.SO3Quat Gen.SO3Mrp Gen.SO3Dcm Gen.DP Proofs.DP.
Import ListNotations.
Local Open Scope R_scope.

Theorem C04_DPa_ad_blockdiag : forall x0_0 x0_1 x0_2 x1_0 x1_1 x1_2, DPa_alg_ad x0_0 x0_1 x0_2 x1_0 x1_1 x1_2 = (mblockdiag 3 3 (so3_ad x0_0 x0_1 x0_2) (r3_ad x1_0 x1_1 x1_2)).
Proof. exact DPa_ad_blockdiag. Qed.
Theorem C04_DPa_hat_blockdiag : forall x0_0 x0_1 x0_2 x1_0 x1_1 x1_2, DPa_alg_hat x0_0 x0_1 x0_2 x1_0 x1_1 x1_2 = (mblockdiag 3 4 (so3_hat x0_0 x0_1 x0_2) (r3_hat x1_0 x1_1 x1_2)).
Proof. exact DPa_hat_blockdiag. Qed.
Theorem C04_DPb_ad_blockdiag : forall x0_0 x0_1 x0_2 x1_0 x1_1 x1_2 x2_0, DPb_alg_ad x0_0 x0_1 x0_2 x1_0 x1_1 x1_2 x2_0 = (mblockdiag 6 1 (mblockdiag 3 3 (so3_ad x0_0 x0_1 x0_2) (r3_ad x1_0 x1_1 x1_2)) (so2_ad x2_0)).
Proof. exact DPb_ad_blockdiag. Qed.
Theorem C04_DPb_hat_blockdiag : forall x0_0 x0_1 x0_2 x1_0 x1_1 x1_2 x2_0, DPb_alg_hat x0_0 x0_1 x0_2 x1_0 x1_1 x1_2 x2_0 = (mblockdiag 7 2 (mblockdiag 3 4 (so3_hat x0_0 x0_1 x0_2) (r3_hat x1_0 x1_1 x1_2)) (so2_hat x2_0)).
Proof. exact DPb_hat_blockdiag. Qed.
Theorem C04_DPc_ad_blockdiag : forall x0_0 x0_1 x0_2 x1_0 x2_0 x2_1, DPc_alg_ad x0_0 x0_1 x0_2 x1_0 x2_0 x2_1 = (mblockdiag 4 2 (mblockdiag 3 1 (se2_ad x0_0 x0_1 x0_2) (so2_ad x1_0)) (r2_ad x2_0 x2_1)).
Proof. exact DPc_ad_blockdiag. Qed.
Theorem C04_DPc_hat_blockdiag : forall x0_0 x0_1 x0_2 x1_0 x2_0 x2_1, DPc_alg_hat x0_0 x0_1 x0_2 x1_0 x2_0 x2_1 = (mblockdiag 5 3 (mblockdiag 3 2 (se2_hat x0_0 x0_1 x0_2) (so2_hat x1_0)) (r2_hat x2_0 x2_1)).
Proof. exact DPc_hat_blockdiag. Qed.
Theorem C04_DPd_ad_blockdiag : forall x0_0 x0_1 x0_2 x1_0 x1_1, DPd_alg_ad x0_0 x0_1 x0_2 x1_0 x1_1 = (mblockdiag 3 2 (so3_ad x0_0 x0_1 x0_2) (r2_ad x1_0 x1_1)).
Proof. exact DPd_ad_blockdiag. Qed.
Theorem C04_DPd_hat_blockdiag : forall x0_0 x0_1 x0_2 x1_0 x1_1, DPd_alg_hat x0_0 x0_1 x0_2 x1_0 x1_1 = (mblockdiag 3 3 (so3_hat x0_0 x0_1 x0_2) (r2_hat x1_0 x1_1)).
Proof. exact DPd_hat_blockdiag. Qed.
Theorem C04_DPe_ad_blockdiag : forall x0_0 x0_1 x0_2 x1_0 x1_1 x1_2, DPe_alg_ad x0_0 x0_1 x0_2 x1_0 x1_1 x1_2 = (mblockdiag 3 3 (so3_ad x0_0 x0_1 x0_2) (so3_ad x1_0 x1_1 x1_2)).
Proof. exact DPe_ad_blockdiag. Qed.
Theorem C04_DPe_hat_blockdiag : forall x0_0 x0_1 x0_2 x1_0 x1_1 x1_2, DPe_alg_hat x0_0 x0_1 x0_2 x1_0 x1_1 x1_2 = (mblockdiag 3 3 (so3_hat x0_0 x0_1 x0_2) (so3_hat x1_0 x1_1 x1_2)).
Proof. exact DPe_hat_blockdiag. Qed.
Theorem C04_DPf_ad_blockdiag : forall x0_0 x0_1 x0_2 x1_0 x1_1 x1_2, DPf_alg_ad x0_0 x0_1 x0_2 x1_0 x1_1 x1_2 = (mblockdiag 3 3 (se2_ad x0_0 x0_1 x0_2) (se2_ad x1_0 x1_1 x1_2)).
Proof. exact DPf_ad_blockdiag. Qed.
Theorem C04_DPf_hat_blockdiag : forall x0_0 x0_1 x0_2 x1_0 x1_1 x1_2, DPf_alg_hat x0_0 x0_1 x0_2 x1_0 x1_1 x1_2 = (mblockdiag 3 3 (se2_hat x0_0 x0_1 x0_2) (se2_hat x1_0 x1_1 x1_2)).
Proof. exact DPf_hat_blockdiag. Qed.

Print Assumptions C04_DPa_ad_blockdiag.
Print Assumptions C04_DPa_hat_blockdiag.
Print Assumptions C04_DPb_ad_blockdiag.
Print Assumptions C04_DPb_hat_blockdiag.
Print Assumptions C04_DPc_ad_blockdiag.
Print Assumptions C04_DPc_hat_blockdiag.
Print Assumptions C04_DPd_ad_blockdiag.
Print Assumptions C04_DPd_hat_blockdiag.
Print Assumptions C04_DPe_ad_blockdiag.
Print Assumptions C04_DPe_hat_blockdiag.
Print Assumptions C04_DPf_ad_blockdiag.
Print Assumptions C04_DPf_hat_blockdiag.
