(* C09 -- generated C = symbolic model (translation validation, decided in the kernel).
   Gen/C09.v (regenerated every run by extract/c2coq.py) holds, for every function of every shipped equation
   set, the register program parsed from the generated C body (c_funcs) and the instruction list CasADi's VM
   executes (sx_funcs), with names and non-zero counts of every argument and result. *)
From Coq Require Import ZArith List.
From Cyecca Require Import Model.RegProg Gen.C09.
Import ListNotations.

(* same function names, in the same order, and the same outputs from the same inputs under EVERY interpretation
   of the primitive operations (any carrier: reals, IEEE doubles with NaN/Inf, intervals, ...) *)
Theorem C09_generated_c_equals_model :
  map f_name c_funcs = map f_name sx_funcs /\
  forall (T : Type) (S : sem T) (inp : N -> N -> T),
    map (fun f => run_func T S f inp) c_funcs = map (fun f => run_func T S f inp) sx_funcs.
Proof. exact (same_programs_same_results c_funcs sx_funcs c_equals_sx). Qed.

Theorem C09_signatures_equal :
  map f_nnz_in c_funcs = map f_nnz_in sx_funcs /\ map f_nnz_out c_funcs = map f_nnz_out sx_funcs.
Proof. rewrite (funcs_eqb_eq _ _ c_equals_sx). split; reflexivity. Qed.

Print Assumptions C09_generated_c_equals_model.
Print Assumptions C09_signatures_equal.
