(* C14 -- attitude set-points: the conversion helpers every set-point producer ends with *)
From Coq Require Import Reals List Lra.
From Cyecca Require Import Base.Ops Spec.Mat Spec.Rot Gen.Ref Gen.SO3Quat Gen.SO3Euler Proofs.C01_SO3Quat Proofs.C14_ref.
Import ListNotations.
Local Open Scope R_scope.

(* Euler -> quaternion helper: a unit quaternion whose matrix is Rz(yaw) Ry(pitch) Rx(roll), for all angles *)
Theorem C14_eulerB321_to_quat_proper : forall y p r,
  SO3Quat_to_Matrix_v (eulerB321_to_quat y p r) = SO3Euler_to_Matrix_v [y; p; r] /\ norm2 (eulerB321_to_quat y p r) = 1.
Proof. exact eulerB321_to_quat_proper. Qed.
(* matrix -> quaternion step shared by position_control, the SE_2(3) outer loop and f_ref: for EVERY proper rotation
   matrix (any heading, any tilt: all four Shepperd branches) the result is a unit quaternion with that matrix *)
Theorem C14_dcm_to_quat_proper : forall R, proper_rotation R ->
  SO3Quat_to_Matrix_v (dcm_to_quat_v R) = R /\ norm2 (dcm_to_quat_v R) = 1.
Proof. exact dcm_to_quat_proper. Qed.
Theorem C14_dcm_to_quat_is_from_Matrix : forall R, length R = 9%nat -> dcm_to_quat_v R = SO3Quat_from_Matrix_v R.
Proof. exact dcm_to_quat_is_from_Matrix. Qed.

Print Assumptions C14_eulerB321_to_quat_proper.
Print Assumptions C14_dcm_to_quat_proper.
Print Assumptions C14_dcm_to_quat_is_from_Matrix.
