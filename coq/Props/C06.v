(* C06 -- small-angle handling, on the units regenerated from cyecca.symbolic.SERIES / SQUARED_SERIES (table order):
   (a) no jump at the Taylor/closed-form switch: for x within 1e-11 below and y within 1e-11 above the switch point
       (eps = the double 1e-3; lo = eps - 1e-11, hi = eps + 1e-11) the two branches differ by at most 1e-9
       (this includes the variation of the function over the band); entries 9 and 10 (1/x^2, (2 - x cos x)/(2x^2)) are
       unbounded at 0 and not covered;
   (b) the value at exactly zero is the mathematical limit to 1e-15 (over R; "finite in double precision" is explored);
   (c) outside the cell the consumed coefficients are exactly their closed forms, for either sign of a plain argument. *)
From Coq Require Import Reals List Lra.
From Cyecca Require Import Base.Ops Gen.Series Proofs.SeriesFacts Proofs.SeriesJump.
Import ListNotations.
Local Open Scope R_scope.

(* (a) one conjunct per table entry; a single theorem so that the assumptions of the Interval-based proofs are
   collected once *)
Theorem C06_no_jump_at_switch :
  (forall x y, lo <= x < eps -> eps <= y <= hi -> Rabs (hd 0 (series_0 x) - hd 0 (series_0 y)) <= 1 / 1000000000) /\
  (forall x y, lo <= x < eps -> eps <= y <= hi -> Rabs (hd 0 (series_1 x) - hd 0 (series_1 y)) <= 1 / 1000000000) /\
  (forall x y, lo <= x < eps -> eps <= y <= hi -> Rabs (hd 0 (series_2 x) - hd 0 (series_2 y)) <= 1 / 1000000000) /\
  (forall x y, lo <= x < eps -> eps <= y <= hi -> Rabs (hd 0 (series_3 x) - hd 0 (series_3 y)) <= 1 / 1000000000) /\
  (forall x y, lo <= x < eps -> eps <= y <= hi -> Rabs (hd 0 (series_4 x) - hd 0 (series_4 y)) <= 1 / 1000000000) /\
  (forall x y, lo <= x < eps -> eps <= y <= hi -> Rabs (hd 0 (series_5 x) - hd 0 (series_5 y)) <= 1 / 1000000000) /\
  (forall x y, lo <= x < eps -> eps <= y <= hi -> Rabs (hd 0 (series_6 x) - hd 0 (series_6 y)) <= 1 / 1000000000) /\
  (forall x y, lo <= x < eps -> eps <= y <= hi -> Rabs (hd 0 (series_7 x) - hd 0 (series_7 y)) <= 1 / 1000000000) /\
  (forall x y, lo <= x < eps -> eps <= y <= hi -> Rabs (hd 0 (series_8 x) - hd 0 (series_8 y)) <= 1 / 1000000000) /\
  (forall x y, lo <= x < eps -> eps <= y <= hi -> Rabs (hd 0 (series_11 x) - hd 0 (series_11 y)) <= 1 / 1000000000) /\
  (forall x y, lo <= x < eps -> eps <= y <= hi -> Rabs (hd 0 (series_12 x) - hd 0 (series_12 y)) <= 1 / 1000000000) /\
  (forall x y, lo <= x < eps -> eps <= y <= hi -> Rabs (hd 0 (series_13 x) - hd 0 (series_13 y)) <= 1 / 1000000000) /\
  (forall x y, lo <= x < eps -> eps <= y <= hi -> Rabs (hd 0 (series_14 x) - hd 0 (series_14 y)) <= 1 / 1000000000) /\
  (forall x y, lo <= x < eps -> eps <= y <= hi -> Rabs (hd 0 (series_15 x) - hd 0 (series_15 y)) <= 1 / 1000000000) /\
  (forall x y, lo <= x < eps -> eps <= y <= hi -> Rabs (hd 0 (series_16 x) - hd 0 (series_16 y)) <= 1 / 1000000000) /\
  (forall x y, lo <= x < eps -> eps <= y <= hi -> Rabs (hd 0 (series_17 x) - hd 0 (series_17 y)) <= 1 / 1000000000) /\
  (forall x y, lo <= x < eps -> eps <= y <= hi -> Rabs (hd 0 (sq_series_0 x) - hd 0 (sq_series_0 y)) <= 1 / 1000000000) /\
  (forall x y, lo <= x < eps -> eps <= y <= hi -> Rabs (hd 0 (sq_series_1 x) - hd 0 (sq_series_1 y)) <= 1 / 1000000000) /\
  (forall x y, lo <= x < eps -> eps <= y <= hi -> Rabs (hd 0 (sq_series_2 x) - hd 0 (sq_series_2 y)) <= 1 / 1000000000) /\
  (forall x y, lo <= x < eps -> eps <= y <= hi -> Rabs (hd 0 (sq_series_3 x) - hd 0 (sq_series_3 y)) <= 1 / 1000000000) /\
  (forall x y, lo <= x < eps -> eps <= y <= hi -> Rabs (hd 0 (sq_series_4 x) - hd 0 (sq_series_4 y)) <= 1 / 1000000000) /\
  (forall x y, lo <= x < eps -> eps <= y <= hi -> Rabs (hd 0 (sq_series_5 x) - hd 0 (sq_series_5 y)) <= 1 / 1000000000) /\
  (forall x y, lo <= x < eps -> eps <= y <= hi -> Rabs (hd 0 (sq_series_6 x) - hd 0 (sq_series_6 y)) <= 1 / 1000000000) /\
  (forall x y, lo <= x < eps -> eps <= y <= hi -> Rabs (hd 0 (sq_series_7 x) - hd 0 (sq_series_7 y)) <= 1 / 1000000000) /\
  (forall x y, lo <= x < eps -> eps <= y <= hi -> Rabs (hd 0 (sq_series_8 x) - hd 0 (sq_series_8 y)) <= 1 / 1000000000) /\
  (forall x y, lo <= x < eps -> eps <= y <= hi -> Rabs (hd 0 (sq_series_11 x) - hd 0 (sq_series_11 y)) <= 1 / 1000000000) /\
  (forall x y, lo <= x < eps -> eps <= y <= hi -> Rabs (hd 0 (sq_series_12 x) - hd 0 (sq_series_12 y)) <= 1 / 1000000000) /\
  (forall x y, lo <= x < eps -> eps <= y <= hi -> Rabs (hd 0 (sq_series_13 x) - hd 0 (sq_series_13 y)) <= 1 / 1000000000) /\
  (forall x y, lo <= x < eps -> eps <= y <= hi -> Rabs (hd 0 (sq_series_14 x) - hd 0 (sq_series_14 y)) <= 1 / 1000000000) /\
  (forall x y, lo <= x < eps -> eps <= y <= hi -> Rabs (hd 0 (sq_series_15 x) - hd 0 (sq_series_15 y)) <= 1 / 1000000000) /\
  (forall x y, lo <= x < eps -> eps <= y <= hi -> Rabs (hd 0 (sq_series_16 x) - hd 0 (sq_series_16 y)) <= 1 / 1000000000) /\
  (forall x y, lo <= x < eps -> eps <= y <= hi -> Rabs (hd 0 (sq_series_17 x) - hd 0 (sq_series_17 y)) <= 1 / 1000000000).
Proof. repeat split.
  exact jump_series_0.
  exact jump_series_1.
  exact jump_series_2.
  exact jump_series_3.
  exact jump_series_4.
  exact jump_series_5.
  exact jump_series_6.
  exact jump_series_7.
  exact jump_series_8.
  exact jump_series_11.
  exact jump_series_12.
  exact jump_series_13.
  exact jump_series_14.
  exact jump_series_15.
  exact jump_series_16.
  exact jump_series_17.
  exact jump_sq_series_0.
  exact jump_sq_series_1.
  exact jump_sq_series_2.
  exact jump_sq_series_3.
  exact jump_sq_series_4.
  exact jump_sq_series_5.
  exact jump_sq_series_6.
  exact jump_sq_series_7.
  exact jump_sq_series_8.
  exact jump_sq_series_11.
  exact jump_sq_series_12.
  exact jump_sq_series_13.
  exact jump_sq_series_14.
  exact jump_sq_series_15.
  exact jump_sq_series_16.
  exact jump_sq_series_17.
Qed.

(* (b) *)
Theorem C06_value_at_zero :
  (Rabs (hd 0 (series_0 0) - 1) <= 1 / 1000000000000000) /\
  (Rabs (hd 0 (series_1 0) - 1) <= 1 / 1000000000000000) /\
  (Rabs (hd 0 (series_2 0) - 1) <= 1 / 1000000000000000) /\
  (Rabs (hd 0 (series_3 0) - 0) <= 1 / 1000000000000000) /\
  (Rabs (hd 0 (series_4 0) - 1/2) <= 1 / 1000000000000000) /\
  (Rabs (hd 0 (series_5 0) - 1/6) <= 1 / 1000000000000000) /\
  (Rabs (hd 0 (series_6 0) - 1/12) <= 1 / 1000000000000000) /\
  (Rabs (hd 0 (series_7 0) - 0) <= 1 / 1000000000000000) /\
  (Rabs (hd 0 (series_8 0) - 1/24) <= 1 / 1000000000000000) /\
  (Rabs (hd 0 (series_11 0) - 1/12) <= 1 / 1000000000000000) /\
  (Rabs (hd 0 (series_12 0) - 1/24) <= 1 / 1000000000000000) /\
  (Rabs (hd 0 (series_13 0) - 1/120) <= 1 / 1000000000000000) /\
  (Rabs (hd 0 (series_14 0) - 1/720) <= 1 / 1000000000000000) /\
  (Rabs (hd 0 (series_15 0) - 1/24) <= 1 / 1000000000000000) /\
  (Rabs (hd 0 (series_16 0) - 1/4) <= 1 / 1000000000000000) /\
  (Rabs (hd 0 (series_17 0) - 4) <= 1 / 1000000000000000) /\
  (Rabs (hd 0 (sq_series_0 0) - 1) <= 1 / 1000000000000000) /\
  (Rabs (hd 0 (sq_series_1 0) - 1) <= 1 / 1000000000000000) /\
  (Rabs (hd 0 (sq_series_2 0) - 1) <= 1 / 1000000000000000) /\
  (Rabs (hd 0 (sq_series_3 0) - 0) <= 1 / 1000000000000000) /\
  (Rabs (hd 0 (sq_series_4 0) - 1/2) <= 1 / 1000000000000000) /\
  (Rabs (hd 0 (sq_series_5 0) - 1/6) <= 1 / 1000000000000000) /\
  (Rabs (hd 0 (sq_series_6 0) - 1/12) <= 1 / 1000000000000000) /\
  (Rabs (hd 0 (sq_series_7 0) - 0) <= 1 / 1000000000000000) /\
  (Rabs (hd 0 (sq_series_8 0) - 1/24) <= 1 / 1000000000000000) /\
  (Rabs (hd 0 (sq_series_11 0) - 1/12) <= 1 / 1000000000000000) /\
  (Rabs (hd 0 (sq_series_12 0) - 1/24) <= 1 / 1000000000000000) /\
  (Rabs (hd 0 (sq_series_13 0) - 1/120) <= 1 / 1000000000000000) /\
  (Rabs (hd 0 (sq_series_14 0) - 1/720) <= 1 / 1000000000000000) /\
  (Rabs (hd 0 (sq_series_15 0) - 1/24) <= 1 / 1000000000000000) /\
  (Rabs (hd 0 (sq_series_16 0) - 1/4) <= 1 / 1000000000000000) /\
  (Rabs (hd 0 (sq_series_17 0) - 4) <= 1 / 1000000000000000).
Proof. repeat split.
  exact zero_series_0.
  exact zero_series_1.
  exact zero_series_2.
  exact zero_series_3.
  exact zero_series_4.
  exact zero_series_5.
  exact zero_series_6.
  exact zero_series_7.
  exact zero_series_8.
  exact zero_series_11.
  exact zero_series_12.
  exact zero_series_13.
  exact zero_series_14.
  exact zero_series_15.
  exact zero_series_16.
  exact zero_series_17.
  exact zero_sq_series_0.
  exact zero_sq_series_1.
  exact zero_sq_series_2.
  exact zero_sq_series_3.
  exact zero_sq_series_4.
  exact zero_sq_series_5.
  exact zero_sq_series_6.
  exact zero_sq_series_7.
  exact zero_sq_series_8.
  exact zero_sq_series_11.
  exact zero_sq_series_12.
  exact zero_sq_series_13.
  exact zero_sq_series_14.
  exact zero_sq_series_15.
  exact zero_sq_series_16.
  exact zero_sq_series_17.
Qed.

(* (c) *)
Theorem C06_sq_cos_large : forall u, eps <= Rabs u -> sq_series_0 u = [cos (sqrt u)].
Proof. exact sq_cos_large. Qed.
Theorem C06_sq_sinc_large : forall u, eps <= u -> sq_series_1 u = [sin (sqrt u) / sqrt u].
Proof. exact sq_sinc_large. Qed.
Theorem C06_sq_cosm_large : forall u, eps <= u -> sq_series_4 u = [(1 - cos (sqrt u)) / u].
Proof. exact sq_cosm_large. Qed.
Theorem C06_sq_sinm_large : forall u, eps <= u -> sq_series_5 u = [(sqrt u - sin (sqrt u)) / (sqrt u * sqrt u * sqrt u)].
Proof. exact sq_sinm_large. Qed.
Theorem C06_sq_c3_large : forall u, eps <= u -> sq_series_8 u = [(u / 2 + cos (sqrt u) - 1) / (u * u)].
Proof. exact sq_c3_large. Qed.
Theorem C06_sinc_large : forall x, eps <= Rabs x -> series_1 x = [sin x / x].
Proof. exact sinc_large. Qed.
Theorem C06_xsin_large : forall x, eps <= Rabs x -> series_2 x = [x / sin x].
Proof. exact xsin_large. Qed.
Theorem C06_cosm1_large : forall x, eps <= Rabs x -> series_3 x = [(1 - cos x) / x].
Proof. exact cosm1_large. Qed.

Print Assumptions C06_no_jump_at_switch.
Print Assumptions C06_value_at_zero.
Print Assumptions C06_sq_cos_large.
Print Assumptions C06_sq_sinc_large.
Print Assumptions C06_sq_cosm_large.
Print Assumptions C06_sq_sinm_large.
Print Assumptions C06_sq_c3_large.
Print Assumptions C06_sinc_large.
Print Assumptions C06_xsin_large.
Print Assumptions C06_cosm1_large.
