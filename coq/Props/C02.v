(* C02 -- the group exponential.  Units regenerated from cyecca/lie/*.py; series coefficients are the units regenerated
   from cyecca.symbolic (Gen/Series.v, table order: sq_series_0 cos, _1 sin(x)/x, _4 (1-cos x)/x^2, _16 tan(x/4)/x in the
   SQUARED table; series_1 sin(x)/x, series_3 (1-cos x)/x in the plain one).  eps is the double 1e-3;
   nsq v := v.v;  rod a b v := I + a [v]x + b [v]x^2;  qcl a n := (cos(a/2), sin(a/2) n);
   rodt th v t := rod (sin(t th)/th) ((1-cos(t th))/th^2) v. *)
From Coq Require Import Reals List Lra.
From Coquelicot Require Import Coquelicot.
From Cyecca Require Import Base.Ops Spec.Mat Gen.Series Gen.so3 Gen.SO2 Gen.SE2 Gen.SO3Quat Gen.SO3Mrp Gen.SO3Dcm Gen.SE3Quat Gen.SE3Mrp
  Proofs.SeriesFacts Proofs.C02 Proofs.C02_ode Proofs.C02_se3.
Import ListNotations.
Local Open Scope R_scope.

(* quaternion exp, every input: (cos-series(theta^2/4), sinc-series(theta^2/4)/2 * v) with the regenerated series units *)
Theorem C02_quat_exp_struct : forall v0 v1 v2,
  SO3Quat_exp v0 v1 v2 =
  let u := nsq v0 v1 v2 / 4 in
  let c := hd 0 (sq_series_0 u) in let s := hd 0 (sq_series_1 u) / 2 in
  [c; s * v0; s * v1; s * v2].
Proof. exact quat_exp_struct. Qed.

(* exp(0) is exactly the identity quaternion *)
Theorem C02_quat_exp_zero : 
  SO3Quat_exp 0 0 0 = SO3Quat_identity.
Proof. exact quat_exp_zero. Qed.

(* exp(-x) is exactly the inverse of exp(x), for every x *)
Theorem C02_quat_exp_neg : forall v0 v1 v2,
  SO3Quat_exp (- v0) (- v1) (- v2) = SO3Quat_inverse_v (SO3Quat_exp v0 v1 v2).
Proof. exact quat_exp_neg. Qed.

(* outside the small-angle cell: exactly (cos(theta/2), sin(theta/2) v/theta) *)
Theorem C02_quat_exp_large : forall v0 v1 v2,
  4 * eps <= nsq v0 v1 v2 ->
  let th := sqrt (nsq v0 v1 v2) in
  SO3Quat_exp v0 v1 v2 = [cos (th / 2); sin (th / 2) / th * v0; sin (th / 2) / th * v1; sin (th / 2) / th * v2].
Proof. exact quat_exp_large. Qed.

(* ... whose rotation matrix is Rodrigues' formula I + sin(th)/th [v]x + (1-cos th)/th^2 [v]x^2 *)
Theorem C02_quat_exp_is_rodrigues : forall v0 v1 v2,
  4 * eps <= nsq v0 v1 v2 ->
  let th := sqrt (nsq v0 v1 v2) in
  SO3Quat_to_Matrix_v (SO3Quat_exp v0 v1 v2) = rod (sin th / th) ((1 - cos th) / (th * th)) [v0; v1; v2].
Proof. exact quat_exp_is_rodrigues. Qed.

(* rotations about one unit axis compose by adding angles (one-parameter subgroup), with the regenerated quaternion product *)
Theorem C02_qcl_compose : forall a b n0 n1 n2,
  n0 * n0 + n1 * n1 + n2 * n2 = 1 ->
  SO3Quat_product_v (qcl a n0 n1 n2) (qcl b n0 n1 n2) = qcl (a + b) n0 n1 n2.
Proof. exact qcl_compose. Qed.

(* the large-cell exponential is that closed form with axis v/theta *)
Theorem C02_quat_exp_large_qcl : forall v0 v1 v2,
  4 * eps <= nsq v0 v1 v2 ->
  let th := sqrt (nsq v0 v1 v2) in
  SO3Quat_exp v0 v1 v2 = qcl th (v0 / th) (v1 / th) (v2 / th) /\
  (v0 / th) * (v0 / th) + (v1 / th) * (v1 / th) + (v2 / th) * (v2 / th) = 1.
Proof. exact quat_exp_large_qcl. Qed.

(* DCM exp, every input: Rodrigues' formula with the series coefficients sin(x)/x and (1-cos x)/x^2 of theta^2 *)
Theorem C02_dcm_exp_struct : forall v0 v1 v2,
  SO3Dcm_exp v0 v1 v2 = rod (hd 0 (sq_series_1 (nsq v0 v1 v2))) (hd 0 (sq_series_4 (nsq v0 v1 v2))) [v0; v1; v2].
Proof. exact dcm_exp_struct. Qed.

(* outside the small-angle cell: exactly Rodrigues' formula *)
Theorem C02_dcm_exp_large : forall v0 v1 v2,
  eps <= nsq v0 v1 v2 ->
  let th := sqrt (nsq v0 v1 v2) in
  SO3Dcm_exp v0 v1 v2 = rod (sin th / th) ((1 - cos th) / (th * th)) [v0; v1; v2].
Proof. exact dcm_exp_large. Qed.

(* exp(0) = I *)
Theorem C02_dcm_exp_zero : 
  SO3Dcm_exp 0 0 0 = mid 3.
Proof. exact dcm_exp_zero. Qed.

(* exp(-x) = exp(x)^T for every x *)
Theorem C02_dcm_exp_neg : forall v0 v1 v2,
  SO3Dcm_exp (- v0) (- v1) (- v2) = mtrans 3 3 (SO3Dcm_exp v0 v1 v2).
Proof. exact dcm_exp_neg. Qed.

(* SE(2) exp, every input *)
Theorem C02_se2_exp_struct : forall x y th,
  SE2_exp x y th = let a := hd 0 (series_1 th) in let b := hd 0 (series_3 th) in [a * x - b * y; b * x + a * y; th].
Proof. exact se2_exp_struct. Qed.

(* closed form outside the cell, for either sign of theta *)
Theorem C02_se2_exp_large : forall x y th,
  eps <= Rabs th ->
  SE2_exp x y th = [sin th / th * x - (1 - cos th) / th * y; (1 - cos th) / th * x + sin th / th * y; th].
Proof. exact se2_exp_large. Qed.

(* pure translation at theta = 0 *)
Theorem C02_se2_exp_zero_rotation : forall x y,
  SE2_exp x y 0 = [x; y; 0].
Proof. exact se2_exp_zero_rotation. Qed.

(* MRP exp: tan(theta/4)/theta series times v, then the shadow switch *)
Theorem C02_mrp_exp_struct : forall v0 v1 v2,
  SO3Mrp_exp v0 v1 v2 = let a := hd 0 (sq_series_16 (nsq v0 v1 v2)) in SO3Mrp_shadow_if_necessary (a * v0) (a * v1) (a * v2).
Proof. exact mrp_exp_struct. Qed.

(* Rodrigues' formula: R(0) = I *)
Theorem C02_rodt_0 : forall th v0 v1 v2,
  th <> 0 -> rodt th v0 v1 v2 0 = mid 3.
Proof. exact rodt_0. Qed.

(* and R'(t) = [v]x R(t) entrywise: R(t) = expm(t [v]x) by uniqueness of linear ODE solutions (classical, cited) *)
Theorem C02_rodt_ode : forall th v0 v1 v2 t k,
  th <> 0 -> th * th = v0 * v0 + v1 * v1 + v2 * v2 -> (k < 9)%nat ->
  is_derive (fun s => nth k (rodt th v0 v1 v2 s) 0) t (nth k (mmul 3 3 3 (hat3 [v0; v1; v2]) (rodt th v0 v1 v2 t)) 0).
Proof. exact rodt_ode. Qed.

(* SE(3) exp = (J_l(omega) u, exp(omega)) with the regenerated so(3) left Jacobian, every input *)
Theorem C02_se3quat_exp_struct : forall u0 u1 u2 w0 w1 w2,
  SE3Quat_exp u0 u1 u2 w0 w1 w2 = mvec 3 3 (so3_left_jacobian w0 w1 w2) [u0; u1; u2] ++ SO3Quat_exp w0 w1 w2.
Proof. exact se3quat_exp_struct. Qed.

(* same for the MRP representation *)
Theorem C02_se3mrp_exp_struct : forall u0 u1 u2 w0 w1 w2,
  SE3Mrp_exp u0 u1 u2 w0 w1 w2 = mvec 3 3 (so3_left_jacobian w0 w1 w2) [u0; u1; u2] ++ SO3Mrp_exp w0 w1 w2.
Proof. exact se3mrp_exp_struct. Qed.

Print Assumptions C02_quat_exp_struct.
Print Assumptions C02_quat_exp_zero.
Print Assumptions C02_quat_exp_neg.
Print Assumptions C02_quat_exp_large.
Print Assumptions C02_quat_exp_is_rodrigues.
Print Assumptions C02_qcl_compose.
Print Assumptions C02_quat_exp_large_qcl.
Print Assumptions C02_dcm_exp_struct.
Print Assumptions C02_dcm_exp_large.
Print Assumptions C02_dcm_exp_zero.
Print Assumptions C02_dcm_exp_neg.
Print Assumptions C02_se2_exp_struct.
Print Assumptions C02_se2_exp_large.
Print Assumptions C02_se2_exp_zero_rotation.
Print Assumptions C02_mrp_exp_struct.
Print Assumptions C02_rodt_0.
Print Assumptions C02_rodt_ode.
Print Assumptions C02_se3quat_exp_struct.
Print Assumptions C02_se3mrp_exp_struct.
