(* C04 -- Ad, ad and brackets on the model regenerated from cyecca/lie.
   ad_is_bracket m ad br        := forall x y (length m), (ad x) . y = br x y
   bracket_is_commutator m r .. := hat (br x y) = hat x * hat y - hat y * hat x   (r x r matrices)
   Ad_conj m r Ad toM hat valid := forall X y, valid X -> hat (Ad X . y) * toM X = toM X * hat y
   (intertwining form of Ad_X y = vee (X y^ X^-1); toM X is invertible by C01). *)
From Coq Require Import Reals List Lra.
From Cyecca Require Import Base.Ops Spec.Mat Spec.Rot
  Gen.SO2 Gen.SE2 Gen.Rn Gen.so3 Gen.se3 Gen.se23 Gen.SO3Quat Gen.SO3Mrp Gen.SO3Dcm Gen.SE3Quat Gen.SE3Mrp Gen.SE23Quat Gen.SE23Mrp
  Proofs.C01_SO3Quat Proofs.C01_SO3Mrp Proofs.C01_SO3Dcm Proofs.C01_SE3 Proofs.C04 Proofs.C04_Ad Proofs.C04_Adhom.
Import ListNotations.
Local Open Scope R_scope.

Theorem C04_so2_ad_bracket : ad_is_bracket 1 so2_ad_v so2_bracket_v.  Proof. exact so2_ad_bracket. Qed.
Theorem C04_so2_commutator : bracket_is_commutator 1 2 so2_hat_v so2_bracket_v.  Proof. exact so2_comm. Qed.
Theorem C04_se2_ad_bracket : ad_is_bracket 3 se2_ad_v se2_bracket_v.  Proof. exact se2_ad_bracket. Qed.
Theorem C04_se2_commutator : bracket_is_commutator 3 3 se2_hat_v se2_bracket_v.  Proof. exact se2_comm. Qed.
Theorem C04_se2_antisym : bracket_antisym 3 se2_bracket_v.  Proof. exact se2_antisym. Qed.
Theorem C04_se2_jacobi : jacobi 3 se2_bracket_v.  Proof. exact se2_jacobi. Qed.
Theorem C04_r2_ad_bracket : ad_is_bracket 2 r2_ad_v r2_bracket_v.  Proof. exact r2_ad_bracket. Qed.
Theorem C04_r2_commutator : bracket_is_commutator 2 3 r2_hat_v r2_bracket_v.  Proof. exact r2_comm. Qed.
Theorem C04_r2_ad_square : ad_square 2 r2_ad_v.  Proof. exact r2_sq. Qed.
Theorem C04_r3_ad_bracket : ad_is_bracket 3 r3_ad_v r3_bracket_v.  Proof. exact r3_ad_bracket. Qed.
Theorem C04_r3_commutator : bracket_is_commutator 3 4 r3_hat_v r3_bracket_v.  Proof. exact r3_comm. Qed.
Theorem C04_r3_ad_square : ad_square 3 r3_ad_v.  Proof. exact r3_sq. Qed.
Theorem C04_so3_ad_bracket : ad_is_bracket 3 so3_ad_v so3_bracket_v.  Proof. exact so3_ad_bracket. Qed.
Theorem C04_so3_commutator : bracket_is_commutator 3 3 so3_hat_v so3_bracket_v.  Proof. exact so3_comm. Qed.
Theorem C04_so3_antisym : bracket_antisym 3 so3_bracket_v.  Proof. exact so3_antisym. Qed.
Theorem C04_so3_jacobi : jacobi 3 so3_bracket_v.  Proof. exact so3_jacobi. Qed.
Theorem C04_se3_ad_bracket : ad_is_bracket 6 se3_ad_v se3_bracket_v.  Proof. exact se3_ad_bracket. Qed.
Theorem C04_se3_commutator : bracket_is_commutator 6 4 se3_hat_v se3_bracket_v.  Proof. exact se3_comm. Qed.
Theorem C04_se3_antisym : bracket_antisym 6 se3_bracket_v.  Proof. exact se3_antisym. Qed.
Theorem C04_se3_jacobi : jacobi 6 se3_bracket_v.  Proof. exact se3_jacobi. Qed.
Theorem C04_se3_ad_square : ad_square 6 se3_ad_v.  Proof. exact se3_sq. Qed.
Theorem C04_se23_ad_bracket : ad_is_bracket 9 se23_ad_v se23_bracket_v.  Proof. exact se23_ad_bracket. Qed.
Theorem C04_se23_commutator : bracket_is_commutator 9 5 se23_hat_v se23_bracket_v.  Proof. exact se23_comm. Qed.
Theorem C04_se23_antisym : bracket_antisym 9 se23_bracket_v.  Proof. exact se23_antisym. Qed.
Theorem C04_se23_jacobi : jacobi 9 se23_bracket_v.  Proof. exact se23_jacobi. Qed.
Theorem C04_se23_ad_square : ad_square 9 se23_ad_v.  Proof. exact se23_sq. Qed.

Theorem C04_SO2_Ad_conj : Ad_conj 1 2 SO2_Ad_v SO2_to_Matrix_v so2_hat_v (fun X => length X = 1%nat).  Proof. exact SO2_Ad_conj. Qed.
Theorem C04_SE2_Ad_conj : Ad_conj 3 3 SE2_Ad_v SE2_to_Matrix_v se2_hat_v (fun X => length X = 3%nat).  Proof. exact SE2_Ad_conj. Qed.
Theorem C04_R2_Ad_conj : Ad_conj 2 3 R2_Ad_v R2_to_Matrix_v r2_hat_v (fun X => length X = 2%nat).  Proof. exact R2_Ad_conj. Qed.
Theorem C04_R3_Ad_conj : Ad_conj 3 4 R3_Ad_v R3_to_Matrix_v r3_hat_v (fun X => length X = 3%nat).  Proof. exact R3_Ad_conj. Qed.
Theorem C04_R2_Ad_square : Ad_square 2 R2_Ad_v (fun X => length X = 2%nat).  Proof. exact R2_Ad_sq. Qed.
Theorem C04_R3_Ad_square : Ad_square 3 R3_Ad_v (fun X => length X = 3%nat).  Proof. exact R3_Ad_sq. Qed.
Theorem C04_SO3Quat_Ad_conj : Ad_conj 3 3 SO3Quat_Ad_v SO3Quat_to_Matrix_v so3_hat_v unitq.  Proof. exact SO3Quat_Ad_conj. Qed.
Theorem C04_SO3Mrp_Ad_conj : Ad_conj 3 3 SO3Mrp_Ad_v SO3Mrp_to_Matrix_v so3_hat_v len3.  Proof. exact SO3Mrp_Ad_conj. Qed.
Theorem C04_SE3Quat_Ad_conj : Ad_conj 6 4 SE3Quat_Ad_v SE3Quat_to_Matrix_v se3_hat_v unit7.  Proof. exact SE3Quat_Ad_conj. Qed.
Theorem C04_SE3Mrp_Ad_conj : Ad_conj 6 4 SE3Mrp_Ad_v SE3Mrp_to_Matrix_v se3_hat_v (fun X => length X = 6%nat).  Proof. exact SE3Mrp_Ad_conj. Qed.
Theorem C04_SE23Quat_Ad_conj : Ad_conj 9 5 SE23Quat_Ad_v SE23Quat_to_Matrix_v se23_hat_v unit10.  Proof. exact SE23Quat_Ad_conj. Qed.
Theorem C04_SE23Mrp_Ad_conj : Ad_conj 9 5 SE23Mrp_Ad_v SE23Mrp_to_Matrix_v se23_hat_v (fun X => length X = 9%nat).  Proof. exact SE23Mrp_Ad_conj. Qed.

Theorem C04_SO3Quat_Ad_hom : forall a b, len4 a -> len4 b ->
  SO3Quat_Ad_v (SO3Quat_product_v a b) = mmul 3 3 3 (SO3Quat_Ad_v a) (SO3Quat_Ad_v b).  Proof. exact SO3Quat_Ad_hom. Qed.
Theorem C04_SO3Quat_Ad_inv : forall a, unitq a ->
  mmul 3 3 3 (SO3Quat_Ad_v (SO3Quat_inverse_v a)) (SO3Quat_Ad_v a) = mid 3.  Proof. exact SO3Quat_Ad_inv. Qed.
Theorem C04_SE2_Ad_hom : forall a b, length a = 3%nat -> length b = 3%nat ->
  SE2_Ad_v (SE2_product_v a b) = mmul 3 3 3 (SE2_Ad_v a) (SE2_Ad_v b).  Proof. exact SE2_Ad_hom. Qed.
Theorem C04_SO3Dcm_Ad_hom : forall a b, len9 a -> len9 b ->
  SO3Dcm_Ad_v (SO3Dcm_product_v a b) = mmul 3 3 3 (SO3Dcm_Ad_v a) (SO3Dcm_Ad_v b).  Proof. exact SO3Dcm_Ad_hom. Qed.
Theorem C04_SE3Quat_Ad_hom : forall a b, unit7 a -> unit7 b ->
  SE3Quat_Ad_v (SE3Quat_product_v a b) = mmul 6 6 6 (SE3Quat_Ad_v a) (SE3Quat_Ad_v b).  Proof. exact SE3Quat_Ad_hom. Qed.
Print Assumptions C04_so2_ad_bracket.
Print Assumptions C04_so2_commutator.
Print Assumptions C04_se2_ad_bracket.
Print Assumptions C04_se2_commutator.
Print Assumptions C04_se2_antisym.
Print Assumptions C04_se2_jacobi.
Print Assumptions C04_r2_ad_bracket.
Print Assumptions C04_r2_commutator.
Print Assumptions C04_r2_ad_square.
Print Assumptions C04_r3_ad_bracket.
Print Assumptions C04_r3_commutator.
Print Assumptions C04_r3_ad_square.
Print Assumptions C04_so3_ad_bracket.
Print Assumptions C04_so3_commutator.
Print Assumptions C04_so3_antisym.
Print Assumptions C04_so3_jacobi.
Print Assumptions C04_se3_ad_bracket.
Print Assumptions C04_se3_commutator.
Print Assumptions C04_se3_antisym.
Print Assumptions C04_se3_jacobi.
Print Assumptions C04_se3_ad_square.
Print Assumptions C04_se23_ad_bracket.
Print Assumptions C04_se23_commutator.
Print Assumptions C04_se23_antisym.
Print Assumptions C04_se23_jacobi.
Print Assumptions C04_se23_ad_square.
Print Assumptions C04_SO2_Ad_conj.
Print Assumptions C04_SE2_Ad_conj.
Print Assumptions C04_R2_Ad_conj.
Print Assumptions C04_R3_Ad_conj.
Print Assumptions C04_R2_Ad_square.
Print Assumptions C04_R3_Ad_square.
Print Assumptions C04_SO3Quat_Ad_conj.
Print Assumptions C04_SO3Mrp_Ad_conj.
Print Assumptions C04_SE3Quat_Ad_conj.
Print Assumptions C04_SE3Mrp_Ad_conj.
Print Assumptions C04_SE23Quat_Ad_conj.
Print Assumptions C04_SE23Mrp_Ad_conj.
Print Assumptions C04_SO3Quat_Ad_hom.
Print Assumptions C04_SO3Quat_Ad_inv.
Print Assumptions C04_SE2_Ad_hom.
Print Assumptions C04_SO3Dcm_Ad_hom.
Print Assumptions C04_SE3Quat_Ad_hom.
