(* C04 -- Euler groups of other sequences and of space-fixed type, built through the public constructor
   SO3EulerLieGroup(euler_type, sequence): to_Matrix is the composition of the elementary rotations in the declared
   order (space-fixed: later rotations on the left; body-fixed: on the right) and Ad is that rotation matrix.
   Rx, Ry, Rz: elementary rotation matrices (column major). *)
From Coq Require Import Reals List Lra.
From Cyecca Require Import Base.Ops Spec.Mat Gen.SO3Euler Proofs.C04_euler.
Import ListNotations.
Local Open Scope R_scope.

Theorem C04_euler_Sxyz_matrix : forall e0 e1 e2, SO3EulerSxyz_to_Matrix e0 e1 e2 = mmul 3 3 3 (Rz e2) (mmul 3 3 3 (Ry e1) (Rx e0)).
Proof. exact euler_Sxyz_matrix. Qed.
Theorem C04_euler_Sxyz_Ad : forall e0 e1 e2, SO3EulerSxyz_Ad e0 e1 e2 = SO3EulerSxyz_to_Matrix e0 e1 e2.
Proof. exact euler_Sxyz_Ad. Qed.
Theorem C04_euler_Szxz_matrix : forall e0 e1 e2, SO3EulerSzxz_to_Matrix e0 e1 e2 = mmul 3 3 3 (Rz e2) (mmul 3 3 3 (Rx e1) (Rz e0)).
Proof. exact euler_Szxz_matrix. Qed.
Theorem C04_euler_Szxz_Ad : forall e0 e1 e2, SO3EulerSzxz_Ad e0 e1 e2 = SO3EulerSzxz_to_Matrix e0 e1 e2.
Proof. exact euler_Szxz_Ad. Qed.
Theorem C04_euler_Bxyz_matrix : forall e0 e1 e2, SO3EulerBxyz_to_Matrix e0 e1 e2 = mmul 3 3 3 (Rx e0) (mmul 3 3 3 (Ry e1) (Rz e2)).
Proof. exact euler_Bxyz_matrix. Qed.
Theorem C04_euler_Bxyz_Ad : forall e0 e1 e2, SO3EulerBxyz_Ad e0 e1 e2 = SO3EulerBxyz_to_Matrix e0 e1 e2.
Proof. exact euler_Bxyz_Ad. Qed.

Print Assumptions C04_euler_Sxyz_matrix.
Print Assumptions C04_euler_Sxyz_Ad.
Print Assumptions C04_euler_Szxz_matrix.
Print Assumptions C04_euler_Szxz_Ad.
Print Assumptions C04_euler_Bxyz_matrix.
Print Assumptions C04_euler_Bxyz_Ad.
