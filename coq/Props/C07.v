(* C07 -- SO(3) representation conversions on the model regenerated from cyecca/lie/group_so3.py *)
From Coq Require Import Reals List Lra.
From Cyecca Require Import Base.Ops Spec.Mat Spec.Rot Gen.SO3Quat Gen.SO3Mrp Gen.SO3Dcm Gen.SO3Euler
  Proofs.C01_SO3Quat Proofs.C01_SO3Mrp Proofs.C01_SO3Dcm Proofs.Shepperd Proofs.Conv Proofs.C07.
Import ListNotations.
Local Open Scope R_scope.

(* -> DCM *)
Theorem C07_dcm_from_quat : forall q, len4 q -> SO3Dcm_to_Matrix_v (SO3Dcm_from_Quat_v q) = SO3Quat_to_Matrix_v q.
Proof. exact dcm_from_quat. Qed.
Theorem C07_dcm_from_quat_valid : forall q, unitq q -> proper_rotation (SO3Dcm_from_Quat_v q).
Proof. exact dcm_from_quat_proper. Qed.
Theorem C07_dcm_from_mrp : forall r, len3 r -> SO3Dcm_to_Matrix_v (SO3Dcm_from_Mrp_v r) = SO3Mrp_to_Matrix_v r.
Proof. exact dcm_from_mrp. Qed.
Theorem C07_dcm_from_mrp_valid : forall r, len3 r -> proper_rotation (SO3Dcm_from_Mrp_v r).
Proof. exact dcm_from_mrp_proper. Qed.
Theorem C07_dcm_from_euler : forall e, length e = 3%nat -> SO3Dcm_to_Matrix_v (SO3Dcm_from_Euler_v e) = SO3Euler_to_Matrix_v e.
Proof. exact dcm_from_euler. Qed.
(* -> quaternion: unit norm, same rotation; all four Shepperd branches *)
Theorem C07_quat_from_matrix : forall M, proper_rotation M ->
  SO3Quat_to_Matrix_v (SO3Quat_from_Matrix_v M) = M /\ norm2 (SO3Quat_from_Matrix_v M) = 1
  /\ length (SO3Quat_from_Matrix_v M) = 4%nat /\ -1 < nth 0 (SO3Quat_from_Matrix_v M) 0.
Proof. exact from_Matrix_right_inverse. Qed.
Theorem C07_shepperd_branches_exhaustive : forall r00 r11 r22, br1 r00 r11 r22 \/ br2 r00 r11 r22 \/ br3 r00 r11 r22 \/ br4 r00 r11 r22.
Proof. exact branches_exhaustive. Qed.
Theorem C07_quat_from_dcm : forall R, length R = 9%nat -> SO3Quat_from_Dcm_v R = SO3Quat_from_Matrix_v R.
Proof. exact quat_from_dcm. Qed.
Theorem C07_quat_from_mrp : forall r, len3 r ->
  SO3Quat_to_Matrix_v (SO3Quat_from_Mrp_v r) = SO3Mrp_to_Matrix_v r /\ unitq (SO3Quat_from_Mrp_v r).
Proof. intros r H. split; [symmetry; apply mrp_matrix_via_quat, H | apply quat_of_mrp_unit, H]. Qed.
Theorem C07_quat_from_euler : forall e, length e = 3%nat ->
  SO3Quat_to_Matrix_v (SO3Quat_from_Euler_v e) = SO3Euler_to_Matrix_v e /\ norm2 (SO3Quat_from_Euler_v e) = 1.
Proof. exact quat_from_euler. Qed.
(* -> MRP: same rotation, returned on the non-shadow branch (norm at most 1) *)
Theorem C07_mrp_from_quat : forall q, unitq q -> 1 + nth 0 q 0 <> 0 ->
  SO3Mrp_to_Matrix_v (SO3Mrp_from_Quat_v q) = SO3Quat_to_Matrix_v q /\ norm2 (SO3Mrp_from_Quat_v q) <= 1.
Proof. exact mrp_from_quat_matrix. Qed.
Theorem C07_mrp_from_matrix : forall M, proper_rotation M ->
  SO3Mrp_to_Matrix_v (SO3Mrp_from_Matrix_v M) = M /\ norm2 (SO3Mrp_from_Matrix_v M) <= 1.
Proof. exact mrp_from_Matrix_right_inverse. Qed.
Theorem C07_mrp_from_dcm : forall R, length R = 9%nat -> SO3Mrp_from_Dcm_v R = SO3Mrp_from_Matrix_v R.
Proof. exact mrp_from_dcm. Qed.
Theorem C07_mrp_from_euler : forall e, length e = 3%nat ->
  SO3Mrp_to_Matrix_v (SO3Mrp_from_Euler_v e) = SO3Euler_to_Matrix_v e /\ norm2 (SO3Mrp_from_Euler_v e) <= 1.
Proof. exact mrp_from_euler. Qed.
(* shadow switch: never changes the rotation, lands in the unit ball, identity inside it *)
Theorem C07_shadow_same_rotation : forall r, len3 r ->
  SO3Mrp_to_Matrix_v (SO3Mrp_shadow_if_necessary_v r) = SO3Mrp_to_Matrix_v r.
Proof. exact shadow_same_rotation. Qed.
Theorem C07_shadow_in_ball : forall r, len3 r -> norm2 (SO3Mrp_shadow_if_necessary_v r) <= 1.
Proof. exact shadow_in_ball. Qed.
Theorem C07_shadow_inside_identity : forall r, len3 r -> norm2 r <= 1 -> SO3Mrp_shadow_if_necessary_v r = r.
Proof. exact shadow_inside. Qed.
(* validity of matrices *)
Theorem C07_quat_matrix_valid : forall q, unitq q -> proper_rotation (SO3Quat_to_Matrix_v q).
Proof. exact quat_matrix_proper. Qed.
Theorem C07_mrp_matrix_valid : forall r, len3 r -> proper_rotation (SO3Mrp_to_Matrix_v r).
Proof. exact mrp_matrix_proper. Qed.
Theorem C07_euler_matrix_valid : forall e, length e = 3%nat -> proper_rotation (SO3Euler_to_Matrix_v e).
Proof. exact euler_matrix_proper. Qed.
Theorem C07_proper_rotation_is_rotation : forall M, proper_rotation M -> is_rotation M.
Proof. exact proper_rotation_is_rotation. Qed.
Print Assumptions C07_dcm_from_quat.
Print Assumptions C07_dcm_from_quat_valid.
Print Assumptions C07_dcm_from_mrp.
Print Assumptions C07_dcm_from_mrp_valid.
Print Assumptions C07_dcm_from_euler.
Print Assumptions C07_quat_from_matrix.
Print Assumptions C07_shepperd_branches_exhaustive.
Print Assumptions C07_quat_from_dcm.
Print Assumptions C07_quat_from_mrp.
Print Assumptions C07_quat_from_euler.
Print Assumptions C07_mrp_from_quat.
Print Assumptions C07_mrp_from_matrix.
Print Assumptions C07_mrp_from_dcm.
Print Assumptions C07_mrp_from_euler.
Print Assumptions C07_shadow_same_rotation.
Print Assumptions C07_shadow_in_ball.
Print Assumptions C07_shadow_inside_identity.
Print Assumptions C07_quat_matrix_valid.
Print Assumptions C07_mrp_matrix_valid.
Print Assumptions C07_euler_matrix_valid.
Print Assumptions C07_proper_rotation_is_rotation.
