(* C17 -- interface theorems for the closed-loop property: the allocator (regenerated from rdd2.derive_control_allocation)
   and the plant (regenerated from quadrotor.derive_model) agree on axes, signs and scale.  Convergence of the cascades
   is explored by simulation of the real functions, not proved. *)
From Coq Require Import Reals List Lra.
From Cyecca Require Import Base.Ops Gen.Rdd2 Gen.Quadrotor Proofs.C17.
Import ListNotations.
Local Open Scope R_scope.

(* allocation outputs: omega[0:4], Fp_sum[4:8], F_moment[8:12], F_thrust[12:16], M_sat[16:19] *)
Theorem C17_alloc_mixer_inverse : forall F_max l Cm Ct T M0 M1 M2, l <> 0 -> Cm <> 0 ->
  rdd2_control_allocation_wp F_max l Cm Ct T M0 M1 M2 (fun r =>
    l * (- nth 8 r 0 + nth 9 r 0 + nth 10 r 0 - nth 11 r 0) = nth 16 r 0 /\
    l * (- nth 8 r 0 + nth 9 r 0 - nth 10 r 0 + nth 11 r 0) = nth 17 r 0 /\
    Cm * (- nth 8 r 0 - nth 9 r 0 + nth 10 r 0 + nth 11 r 0) = nth 18 r 0 /\
    nth 8 r 0 + nth 9 r 0 + nth 10 r 0 + nth 11 r 0 = 0 /\
    nth 12 r 0 = nth 13 r 0 /\ nth 13 r 0 = nth 14 r 0 /\ nth 14 r 0 = nth 15 r 0).
Proof. exact alloc_mixer_inverse. Qed.

Theorem C17_alloc_thrust_part : forall F_max l Cm Ct T M0 M1 M2, 0 <= F_max ->
  rdd2_control_allocation_wp F_max l Cm Ct T M0 M1 M2 (fun r =>
    0 <= 4 * nth 12 r 0 <= 4 * F_max /\ (0 <= T <= 4 * F_max -> 4 * nth 12 r 0 = T)).
Proof. exact alloc_thrust_part. Qed.

(* X geometry: arms at -a, pi-a, a, a-pi (s = sin a, c = cos a), spin directions +,+,-,-, equal arm length l.
   Rotor thrusts satisfying the allocator's mixer relations for (Mx, My, Mz) produce, on the plant at zero body rate,
   J wdot = (s Mx, c My, Mz). *)
Theorem C17_interface_alloc_plant : forall tau_up tau_down l th0 th1 th2 th3 CT CM Cl_p Cm_q Cn_r CD0 S rho g m Jx Jy Jz
    n0 n1 n2 n3 n4 n5 n6 n7 n8 n9 n10 n11 s c px py pz vx vy vz q0 q1 q2 q3 m0 m1 m2 m3 u0 u1 u2 u3 Mx My Mz,
  Jx <> 0 -> Jy <> 0 -> Jz <> 0 ->
  sin th0 = - s -> sin th1 = s -> sin th2 = s -> sin th3 = - s ->
  cos th0 = c -> cos th1 = - c -> cos th2 = c -> cos th3 = - c ->
  let T0 := CT * (m0 * m0) in let T1 := CT * (m1 * m1) in let T2 := CT * (m2 * m2) in let T3 := CT * (m3 * m3) in
  l * (- T0 + T1 + T2 - T3) = Mx -> l * (- T0 + T1 - T2 + T3) = My -> CM * (- T0 - T1 + T2 + T3) = Mz ->
  let r := quad_f px py pz vx vy vz q0 q1 q2 q3 0 0 0 m0 m1 m2 m3 u0 u1 u2 u3
             tau_up tau_down 1 1 (-1) (-1) l l l l th0 th1 th2 th3 CT CM Cl_p Cm_q Cn_r CD0 S rho g m Jx Jy Jz
             n0 n1 n2 n3 n4 n5 n6 n7 n8 n9 n10 n11 in
  [Jx * nth 10 r 0; Jy * nth 11 r 0; Jz * nth 12 r 0] = [s * Mx; c * My; Mz].
Proof. exact interface_alloc_plant. Qed.

(* the moment the allocator works with is the demand clamped component-wise to [-M_max, M_max], M_max = l (4 F_max)/2;
   clampR b m := Rmax (-b) (Rmin m b) *)
Theorem C17_alloc_msat_is_clamp : forall F_max l Cm Ct T M0 M1 M2, 0 <= F_max -> 0 <= l ->
  rdd2_control_allocation_wp F_max l Cm Ct T M0 M1 M2 (fun r =>
    let b := l * (4 * F_max) / 2 in
    [nth 16 r 0; nth 17 r 0; nth 18 r 0] = [clampR b M0; clampR b M1; clampR b M2]).
Proof. exact alloc_msat_is_clamp. Qed.

Print Assumptions C17_alloc_mixer_inverse.
Print Assumptions C17_alloc_msat_is_clamp.
Print Assumptions C17_alloc_thrust_part.
Print Assumptions C17_interface_alloc_plant.
