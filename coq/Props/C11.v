(* C11 -- step contracts of the MRP attitude estimator, on the equational predicate-transformer forms regenerated from
   cyecca/estimate/attitude/algorithms/mrp.py:  f_wpe args P  is  forall v, Eqn v e -> ... -> P [outputs]  (Eqn a b := a = b),
   one binder per instruction.  Output layouts:
     correct_accel: x[0:6], W[6:42] (dense 6x6, column major), beta[42], r[43:45], r_std[45:47], error_code[47]
     correct_mag:   x[0:6], W[6:42], beta[42], r[43], r_std[44], error_code[45]
     predict:       x1[0:6], W1[6:42];   initialize: x0[0:6], error_code[6] *)
From Coq Require Import Reals List Lra.
From Cyecca Require Import Base.Ops Spec.Mat Gen.Mrp Gen.SO3Mrp Gen.SO3Quat Proofs.C11.
Import ListNotations.
Local Open Scope R_scope.

(* constants used below (Proofs/C11.v): tenth, fifth, milli, g_nominal are the doubles 0.1, 0.2, 1e-3, 9.8 as exact rationals;
   mag_n w0 w6 := sqrt (w0^2 + w6^2)  (norm of the roll/pitch standard deviations W[0,0], W[1,1]);
   mag_h c := Rmax (sin (acos c)) milli *)

(* a rejected accelerometer correction returns state and covariance factor exactly as given *)
Theorem C11_accel_reject_unchanged : forall x0 x1 x2 x3 x4 x5 w0 w1 w2 w3 w4 w5 w6 w7 w8 w9 w10 w11 w12 w13 w14 w15 w16 w17 w18 w19 w20 y0 y1 y2 g o0 o1 o2 sa sao bc,
  mrp_correct_accel_wpe x0 x1 x2 x3 x4 x5 w0 w1 w2 w3 w4 w5 w6 w7 w8 w9 w10 w11 w12 w13 w14 w15 w16 w17 w18 w19 w20 y0 y1 y2 g o0 o1 o2 sa sao bc
   (fun r => nth 47 r 0 <> 0 ->
      firstn 42 r = [x0; x1; x2; x3; x4; x5] ++
        dense_lower 6 [w0; w1; w2; w3; w4; w5; w6; w7; w8; w9; w10; w11; w12; w13; w14; w15; w16; w17; w18; w19; w20]).
Proof. exact accel_reject_unchanged. Qed.

(* likewise for the magnetometer *)
Theorem C11_mag_reject_unchanged : forall x0 x1 x2 x3 x4 x5 w0 w1 w2 w3 w4 w5 w6 w7 w8 w9 w10 w11 w12 w13 w14 w15 w16 w17 w18 w19 w20 y0 y1 y2 decl sm bc,
  mrp_correct_mag_wpe x0 x1 x2 x3 x4 x5 w0 w1 w2 w3 w4 w5 w6 w7 w8 w9 w10 w11 w12 w13 w14 w15 w16 w17 w18 w19 w20 y0 y1 y2 decl sm bc
   (fun r => nth 45 r 0 <> 0 ->
      firstn 42 r = [x0; x1; x2; x3; x4; x5] ++
        dense_lower 6 [w0; w1; w2; w3; w4; w5; w6; w7; w8; w9; w10; w11; w12; w13; w14; w15; w16; w17; w18; w19; w20]).
Proof. exact mag_reject_unchanged. Qed.

(* the accelerometer correction is accepted exactly when | |y| - g | <= 1; the code is 0 or 1 *)
Theorem C11_accel_gate : forall x0 x1 x2 x3 x4 x5 w0 w1 w2 w3 w4 w5 w6 w7 w8 w9 w10 w11 w12 w13 w14 w15 w16 w17 w18 w19 w20 y0 y1 y2 g o0 o1 o2 sa sao bc,
  mrp_correct_accel_wpe x0 x1 x2 x3 x4 x5 w0 w1 w2 w3 w4 w5 w6 w7 w8 w9 w10 w11 w12 w13 w14 w15 w16 w17 w18 w19 w20 y0 y1 y2 g o0 o1 o2 sa sao bc
   (fun r => (nth 47 r 0 = 0 <-> Rabs (sqrt (y0 * y0 + y1 * y1 + y2 * y2) - g) <= 1) /\ (nth 47 r 0 = 0 \/ nth 47 r 0 = 1)).
Proof. exact accel_gate. Qed.

(* magnetometer gating: code 1 iff the (floored) sine of the predicted field's angle to vertical is below half the
   projection uncertainty std_mag + 0.2 |(W00, W11)|; else code 2 iff |(W00, W11)| > 0.1; else 0 *)
Theorem C11_mag_gate : forall x0 x1 x2 x3 x4 x5 w0 w1 w2 w3 w4 w5 w6 w7 w8 w9 w10 w11 w12 w13 w14 w15 w16 w17 w18 w19 w20 y0 y1 y2 decl sm bc,
  mrp_correct_mag_wpe x0 x1 x2 x3 x4 x5 w0 w1 w2 w3 w4 w5 w6 w7 w8 w9 w10 w11 w12 w13 w14 w15 w16 w17 w18 w19 w20 y0 y1 y2 decl sm bc
   (fun r => exists c,
      (nth 45 r 0 = 1 <-> mag_h c < (sm + fifth * mag_n w0 w6) / 2) /\
      (nth 45 r 0 = 2 <-> ~ mag_h c < (sm + fifth * mag_n w0 w6) / 2 /\ tenth < mag_n w0 w6) /\
      (nth 45 r 0 = 0 <-> ~ mag_h c < (sm + fifth * mag_n w0 w6) / 2 /\ ~ tenth < mag_n w0 w6)).
Proof. exact mag_gate. Qed.

(* prediction returns an MRP of norm at most 1, for every input *)
Theorem C11_predict_in_ball : forall t x0 x1 x2 x3 x4 x5 w0 w1 w2 w3 w4 w5 w6 w7 w8 w9 w10 w11 w12 w13 w14 w15 w16 w17 w18 w19 w20 o0 o1 o2 sg srw dt,
  mrp_predict_wpe t x0 x1 x2 x3 x4 x5 w0 w1 w2 w3 w4 w5 w6 w7 w8 w9 w10 w11 w12 w13 w14 w15 w16 w17 w18 w19 w20 o0 o1 o2 sg srw dt
    (fun r => nth 0 r 0 * nth 0 r 0 + nth 1 r 0 * nth 1 r 0 + nth 2 r 0 * nth 2 r 0 <= 1).
Proof. exact predict_in_ball. Qed.

(* prediction leaves the bias untouched and returns a lower-triangular factor *)
Theorem C11_predict_bias_constant : forall t x0 x1 x2 x3 x4 x5 w0 w1 w2 w3 w4 w5 w6 w7 w8 w9 w10 w11 w12 w13 w14 w15 w16 w17 w18 w19 w20 o0 o1 o2 sg srw dt,
  mrp_predict_wpe t x0 x1 x2 x3 x4 x5 w0 w1 w2 w3 w4 w5 w6 w7 w8 w9 w10 w11 w12 w13 w14 w15 w16 w17 w18 w19 w20 o0 o1 o2 sg srw dt
    (fun r => [nth 3 r 0; nth 4 r 0; nth 5 r 0] = [x3; x4; x5] /\ is_lower 6 (firstn 36 (skipn 6 r))).
Proof. exact predict_bias_constant. Qed.

(* initialisation: error codes, and a non-zero code returns the zero state *)
Theorem C11_init_codes : forall g0 g1 g2 b0 b1 b2 decl,
  mrp_initialize_wpe g0 g1 g2 b0 b1 b2 decl (fun r =>
    (nth 6 r 0 = 0 \/ nth 6 r 0 = 1 \/ nth 6 r 0 = 2 \/ nth 6 r 0 = 3) /\
    (nth 6 r 0 = 1 <-> 1 < Rabs (sqrt (g0 * g0 + g1 * g1 + g2 * g2) - g_nominal)) /\
    (nth 6 r 0 = 2 -> sqrt (b0 * b0 + b1 * b1 + b2 * b2) <= 0) /\
    (nth 6 r 0 <> 0 -> firstn 6 r = [0; 0; 0; 0; 0; 0])).
Proof. exact init_codes. Qed.

(* the initial MRP has norm at most 1 *)
Theorem C11_init_in_ball : forall g0 g1 g2 b0 b1 b2 decl,
  mrp_initialize_wpe g0 g1 g2 b0 b1 b2 decl (fun r =>
    nth 0 r 0 * nth 0 r 0 + nth 1 r 0 * nth 1 r 0 + nth 2 r 0 * nth 2 r 0 <= 1).
Proof. exact init_in_ball. Qed.

(* the accelerometer measurement predicted by the current estimate (C_nb^T (0,0,-g)) has zero innovation and leaves
   the whole state where it is, whatever the covariance, gravity and noise parameters *)
Theorem C11_accel_fixed_point : forall x0 x1 x2 x3 x4 x5 w0 w1 w2 w3 w4 w5 w6 w7 w8 w9 w10 w11 w12 w13 w14 w15 w16 w17 w18 w19 w20 y0 y1 y2 g o0 o1 o2 sa sao bc,
  [y0; y1; y2] = mvec 3 3 (mtrans 3 3 (SO3Mrp_to_Matrix x0 x1 x2)) [0; 0; - g] ->
  mrp_correct_accel_wpe x0 x1 x2 x3 x4 x5 w0 w1 w2 w3 w4 w5 w6 w7 w8 w9 w10 w11 w12 w13 w14 w15 w16 w17 w18 w19 w20 y0 y1 y2 g o0 o1 o2 sa sao bc
   (fun r => nth 43 r 0 = 0 /\ nth 44 r 0 = 0 /\ firstn 6 r = [x0; x1; x2; x3; x4; x5]).
Proof. exact accel_fixed_point. Qed.

(* get_state returns the SO3Quat.from_Mrp quaternion of the MRP part and copies the rest *)
Theorem C11_get_state_ok : forall x0 x1 x2 x3 x4 x5,
  mrp_get_state x0 x1 x2 x3 x4 x5 = SO3Quat_from_Mrp x0 x1 x2 ++ [x0; x1; x2; x3; x4; x5].
Proof. exact get_state_ok. Qed.

Print Assumptions C11_accel_reject_unchanged.
Print Assumptions C11_mag_reject_unchanged.
Print Assumptions C11_accel_gate.
Print Assumptions C11_mag_gate.
Print Assumptions C11_predict_in_ball.
Print Assumptions C11_predict_bias_constant.
Print Assumptions C11_init_codes.
Print Assumptions C11_init_in_ball.
Print Assumptions C11_accel_fixed_point.
Print Assumptions C11_get_state_ok.
