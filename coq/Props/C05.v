(* C05 -- Jacobians.  Units regenerated from cyecca/lie/group_so3.py, group_se3.py; series coefficients from Gen/Series.v
   (sq_series_4 (1-cos x)/x^2, _5 (x-sin x)/x^3, _11 1/x^2 + sin x/(2x(cos x-1)) of the SQUARED table).
   rod a b v := I + a [v]x + b [v]x^2;  nsq v := v.v;  eps = the double 1e-3;  rodt: Rodrigues' formula in t (C02);
   tjl th v t := t I + (1-cos(t th))/th^2 [v]x + (t th - sin(t th))/th^3 [v]x^2;  blk M i j: 3x3 block of a 6x6 matrix. *)
From Coq Require Import Reals List Lra.
From Coquelicot Require Import Coquelicot.
From Cyecca Require Import Base.Ops Spec.Mat Gen.Series Gen.so3 Gen.se3 Gen.SO3Quat Gen.SO3Mrp
  Proofs.SeriesFacts Proofs.C02 Proofs.C02_ode Proofs.C05 Proofs.C05_ode Proofs.C05_se3.
Import ListNotations.
Local Open Scope R_scope.

(* so(3) Jacobians, every input: I + a [v]x + b [v]x^2 with the series coefficients (1-cos x)/x^2, (x-sin x)/x^3 of theta^2 *)
Theorem C05_so3_jl_struct : forall v0 v1 v2,
  so3_left_jacobian v0 v1 v2 = rod (hd 0 (sq_series_4 (nsq v0 v1 v2))) (hd 0 (sq_series_5 (nsq v0 v1 v2))) [v0; v1; v2].
Proof. exact so3_jl_struct. Qed.

Theorem C05_so3_jr_struct : forall v0 v1 v2,
  so3_right_jacobian v0 v1 v2 = rod (- hd 0 (sq_series_4 (nsq v0 v1 v2))) (hd 0 (sq_series_5 (nsq v0 v1 v2))) [v0; v1; v2].
Proof. exact so3_jr_struct. Qed.

(* inverse Jacobians: I -+ [v]x/2 + c [v]x^2 with the series coefficient 1/x^2 + sin x/(2x(cos x - 1)) *)
Theorem C05_so3_jli_struct : forall v0 v1 v2,
  so3_left_jacobian_inv v0 v1 v2 = rod (- (1 / 2)) (hd 0 (sq_series_11 (nsq v0 v1 v2))) [v0; v1; v2].
Proof. exact so3_jli_struct. Qed.

Theorem C05_so3_jri_struct : forall v0 v1 v2,
  so3_right_jacobian_inv v0 v1 v2 = rod (1 / 2) (hd 0 (sq_series_11 (nsq v0 v1 v2))) [v0; v1; v2].
Proof. exact so3_jri_struct. Qed.

(* J_l(x) = J_r(-x) = J_r(x)^T exactly, for every x *)
Theorem C05_so3_jl_is_jr_neg : forall v0 v1 v2,
  so3_left_jacobian v0 v1 v2 = so3_right_jacobian (- v0) (- v1) (- v2).
Proof. exact so3_jl_is_jr_neg. Qed.

Theorem C05_so3_jl_is_jr_trans : forall v0 v1 v2,
  so3_left_jacobian v0 v1 v2 = mtrans 3 3 (so3_right_jacobian v0 v1 v2).
Proof. exact so3_jl_is_jr_trans. Qed.

Theorem C05_so3_jli_is_jri_neg : forall v0 v1 v2,
  so3_left_jacobian_inv v0 v1 v2 = so3_right_jacobian_inv (- v0) (- v1) (- v2).
Proof. exact so3_jli_is_jri_neg. Qed.

(* closed form outside the small-angle cell *)
Theorem C05_so3_jl_large : forall v0 v1 v2,
  eps <= nsq v0 v1 v2 ->
  let th := sqrt (nsq v0 v1 v2) in
  so3_left_jacobian v0 v1 v2 = rod ((1 - cos th) / (th * th)) ((th - sin th) / (th * th * th)) [v0; v1; v2].
Proof. exact so3_jl_large. Qed.

(* J_l = Ad_exp(x) J_r with Ad the rotation matrix of the regenerated quaternion exponential (outside the cell) *)
Theorem C05_so3_jl_is_Ad_jr : forall v0 v1 v2,
  4 * eps <= nsq v0 v1 v2 ->
  so3_left_jacobian v0 v1 v2 = mmul 3 3 3 (SO3Quat_to_Matrix_v (SO3Quat_exp v0 v1 v2)) (so3_right_jacobian v0 v1 v2).
Proof. exact so3_jl_is_Ad_jr. Qed.

(* the published inverse is the matrix inverse (outside the cell, theta not a multiple of 2 pi) *)
Theorem C05_so3_jli_jl_large : forall v0 v1 v2,
  eps <= nsq v0 v1 v2 -> cos (sqrt (nsq v0 v1 v2)) - 1 <> 0 ->
  mmul 3 3 3 (so3_left_jacobian_inv v0 v1 v2) (so3_left_jacobian v0 v1 v2) = mid 3.
Proof. exact so3_jli_jl_large. Qed.

(* quaternion kinematic Jacobians: along qdot = J_r w the rotation matrix moves by M [w]x, along J_l w by [w]x M (exact polynomial identity in the step e) *)
Theorem C05_quat_right_kinematics : forall q0 q1 q2 q3 w0 w1 w2 e,
  let p := mmul 4 3 1 (SO3Quat_right_jacobian q0 q1 q2 q3) [w0; w1; w2] in
  let M := SO3Quat_to_Matrix_v in
  M (madd [q0; q1; q2; q3] (mscale e p)) =
  madd (M [q0; q1; q2; q3]) (madd (mscale e (mmul 3 3 3 (M [q0; q1; q2; q3]) (hat3 [w0; w1; w2]))) (mscale (e * e) (M p))).
Proof. exact quat_right_kinematics. Qed.

Theorem C05_quat_left_kinematics : forall q0 q1 q2 q3 w0 w1 w2 e,
  let p := mmul 4 3 1 (SO3Quat_left_jacobian q0 q1 q2 q3) [w0; w1; w2] in
  let M := SO3Quat_to_Matrix_v in
  M (madd [q0; q1; q2; q3] (mscale e p)) =
  madd (M [q0; q1; q2; q3]) (madd (mscale e (mmul 3 3 3 (hat3 [w0; w1; w2]) (M [q0; q1; q2; q3]))) (mscale (e * e) (M p))).
Proof. exact quat_left_kinematics. Qed.

(* and q . qdot = 0: a unit quaternion keeps unit norm *)
Theorem C05_quat_kinematics_norm : forall q0 q1 q2 q3 w0 w1 w2,
  dot [q0; q1; q2; q3] (mmul 4 3 1 (SO3Quat_right_jacobian q0 q1 q2 q3) [w0; w1; w2]) = 0 /\
  dot [q0; q1; q2; q3] (mmul 4 3 1 (SO3Quat_left_jacobian q0 q1 q2 q3) [w0; w1; w2]) = 0.
Proof. exact quat_kinematics_norm. Qed.

(* MRP kinematic Jacobian: B(r)/4 with B = (1-|r|^2) I + 2 [r]x + 2 r r^T at the given r (inside or outside the unit ball) *)
Theorem C05_mrp_right_jacobian_struct : forall r0 r1 r2,
  SO3Mrp_right_jacobian r0 r1 r2 =
  let n := r0 * r0 + r1 * r1 + r2 * r2 in
  mscale (1 / 4) (madd (mscale (1 - n) (mid 3)) (madd (mscale 2 (hat3 [r0; r1; r2]))
                    (mscale 2 (mmul 3 1 3 [r0; r1; r2] [r0; r1; r2])))).
Proof. exact mrp_right_jacobian_struct. Qed.

(* ideal layer: t J_l(t x) in closed form ... *)
Theorem C05_tjl_is_scaled_jl : forall th v0 v1 v2 t,
  th <> 0 -> t <> 0 ->
  tjl th v0 v1 v2 t =
  mscale t (rod ((1 - cos (t * th)) / ((t * th) * (t * th))) ((t * th - sin (t * th)) / ((t * th) * (t * th) * (t * th))) [t * v0; t * v1; t * v2]).
Proof. exact tjl_is_scaled_jl. Qed.

(* ... has derivative R(t) (Rodrigues, = expm(t [x]x) by C02): J_l(x) = int_0^1 exp(s [x]x) ds, the defining integral of the left Jacobian of exp *)
Theorem C05_tjl_derivative : forall th v0 v1 v2 t k,
  th <> 0 -> (k < 9)%nat ->
  is_derive (fun s => nth k (tjl th v0 v1 v2 s) 0) t (nth k (rodt th v0 v1 v2 t) 0).
Proof. exact tjl_derivative. Qed.

Theorem C05_tjl_0 : forall th v0 v1 v2,
  th <> 0 -> tjl th v0 v1 v2 0 = mzero 3 3.
Proof. exact tjl_0. Qed.

(* se(3) Jacobians are [[J, Q], [0, J]] with J the so(3) Jacobian and Q the Barfoot block, every input *)
Theorem C05_se3_jl_blocks : forall u0 u1 u2 w0 w1 w2,
  let J := se3_left_jacobian u0 u1 u2 w0 w1 w2 in
  blk J 0 0 = so3_left_jacobian w0 w1 w2 /\ blk J 1 1 = so3_left_jacobian w0 w1 w2 /\
  blk J 1 0 = mzero 3 3 /\ blk J 0 1 = se3_left_Q u0 u1 u2 w0 w1 w2.
Proof. exact se3_jl_blocks. Qed.

Theorem C05_se3_jr_blocks : forall u0 u1 u2 w0 w1 w2,
  let J := se3_right_jacobian u0 u1 u2 w0 w1 w2 in
  blk J 0 0 = so3_right_jacobian w0 w1 w2 /\ blk J 1 1 = so3_right_jacobian w0 w1 w2 /\
  blk J 1 0 = mzero 3 3 /\ blk J 0 1 = se3_right_Q u0 u1 u2 w0 w1 w2.
Proof. exact se3_jr_blocks. Qed.

Print Assumptions C05_so3_jl_struct.
Print Assumptions C05_so3_jr_struct.
Print Assumptions C05_so3_jli_struct.
Print Assumptions C05_so3_jri_struct.
Print Assumptions C05_so3_jl_is_jr_neg.
Print Assumptions C05_so3_jl_is_jr_trans.
Print Assumptions C05_so3_jli_is_jri_neg.
Print Assumptions C05_so3_jl_large.
Print Assumptions C05_so3_jl_is_Ad_jr.
Print Assumptions C05_so3_jli_jl_large.
Print Assumptions C05_quat_right_kinematics.
Print Assumptions C05_quat_left_kinematics.
Print Assumptions C05_quat_kinematics_norm.
Print Assumptions C05_mrp_right_jacobian_struct.
Print Assumptions C05_tjl_is_scaled_jl.
Print Assumptions C05_tjl_derivative.
Print Assumptions C05_tjl_0.
Print Assumptions C05_se3_jl_blocks.
Print Assumptions C05_se3_jr_blocks.
