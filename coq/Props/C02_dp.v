(* C02 -- direct products built with `*`: DPa = SO3Mrp*R3 (the estimator's state group), DPb = (SO3Quat*R3)*SO2, DPc = SE2*(SO2*R2),
   DPd = SO3Dcm*R2, DPe = SO3Quat*SO3Mrp (the same non-abelian algebra twice), DPf = SE2*SE2.  Units regenerated from
   cyecca/lie/direct_product.py; each statement says the product's unit is the factor-wise composition of the factor units
   (parameter slices: group sizes on the group side, algebra sizes on the algebra side). *)
From Coq Require Import Reals List Lra.
From Cyecca Require Import Base.Ops Spec.Mat Gen.SO2 Gen.SE2 Gen.Rn Gen.so3 Gen.SO3Quat Gen.SO3Mrp Gen.SO3Dcm Gen.DP Proofs.DP.
Import ListNotations.
Local Open Scope R_scope.

Theorem C02_DPa_exp_factorwise : forall x0_0 x0_1 x0_2 x1_0 x1_1 x1_2, DPa_exp x0_0 x0_1 x0_2 x1_0 x1_1 x1_2 = SO3Mrp_exp x0_0 x0_1 x0_2 ++ R3_exp x1_0 x1_1 x1_2.
Proof. exact DPa_exp_factorwise. Qed.
Theorem C02_DPb_exp_factorwise : forall x0_0 x0_1 x0_2 x1_0 x1_1 x1_2 x2_0, DPb_exp x0_0 x0_1 x0_2 x1_0 x1_1 x1_2 x2_0 = SO3Quat_exp x0_0 x0_1 x0_2 ++ R3_exp x1_0 x1_1 x1_2 ++ SO2_exp x2_0.
Proof. exact DPb_exp_factorwise. Qed.
Theorem C02_DPc_exp_factorwise : forall x0_0 x0_1 x0_2 x1_0 x2_0 x2_1, DPc_exp x0_0 x0_1 x0_2 x1_0 x2_0 x2_1 = SE2_exp x0_0 x0_1 x0_2 ++ SO2_exp x1_0 ++ R2_exp x2_0 x2_1.
Proof. exact DPc_exp_factorwise. Qed.
Theorem C02_DPd_exp_factorwise : forall x0_0 x0_1 x0_2 x1_0 x1_1, DPd_exp x0_0 x0_1 x0_2 x1_0 x1_1 = SO3Dcm_exp x0_0 x0_1 x0_2 ++ R2_exp x1_0 x1_1.
Proof. exact DPd_exp_factorwise. Qed.
Theorem C02_DPe_exp_factorwise : forall x0_0 x0_1 x0_2 x1_0 x1_1 x1_2, DPe_exp x0_0 x0_1 x0_2 x1_0 x1_1 x1_2 = SO3Quat_exp x0_0 x0_1 x0_2 ++ SO3Mrp_exp x1_0 x1_1 x1_2.
Proof. exact DPe_exp_factorwise. Qed.
Theorem C02_DPf_exp_factorwise : forall x0_0 x0_1 x0_2 x1_0 x1_1 x1_2, DPf_exp x0_0 x0_1 x0_2 x1_0 x1_1 x1_2 = SE2_exp x0_0 x0_1 x0_2 ++ SE2_exp x1_0 x1_1 x1_2.
Proof. exact DPf_exp_factorwise. Qed.

Print Assumptions C02_DPa_exp_factorwise.
Print Assumptions C02_DPb_exp_factorwise.
Print Assumptions C02_DPc_exp_factorwise.
Print Assumptions C02_DPd_exp_factorwise.
Print Assumptions C02_DPe_exp_factorwise.
Print Assumptions C02_DPf_exp_factorwise.
