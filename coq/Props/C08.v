(* C08 -- strapdown INS propagation.  Unit regenerated from rdd2.derive_strapdown_ins_propagation()
   (arguments: p, v, q of x0; a_b; omega_b; g; dt;  outputs p1[0:3], v1[3:6], q1[6:10]).
   usq dt w := |w dt|^2 in the form the unit computes it;  rodt th w t: Rodrigues' formula;  tjl th w t := t I + (1-cos(t th))/th^2 [w]x
   + (t th - sin(t th))/th^3 [w]x^2;  ttjl th w t := t^2/2 I + (t th - sin(t th))/th^3 [w]x + ((t th)^2/2 + cos(t th) - 1)/th^4 [w]x^2;
   qcl a n := (cos(a/2), sin(a/2) n);  eps = the double 1e-3.
   The closed-form flow is  p(t) = p0 + v0 t - g t^2/2 e3 + R0 ttjl(t) a,  v(t) = v0 - g t e3 + R0 tjl(t) a,  R(t) = R0 rodt(t). *)
From Coq Require Import Reals List Lra.
From Coquelicot Require Import Coquelicot.
From Cyecca Require Import Base.Ops Spec.Mat Gen.Series Gen.SO3Quat Gen.Rdd2 Proofs.SeriesFacts Proofs.C02 Proofs.C02_ode Proofs.C05_ode Proofs.C08 Proofs.C08_ode.
Import ListNotations.
Local Open Scope R_scope.

(* structure of the regenerated step, for EVERY state, input, gravity and dt (all cells): gravity enters as -g dt e3 and -g dt^2/2 e3,
   the specific force through R(q0) times (dt a + C1 dt^2 w x a + C2 dt^3 w x (w x a)) and (dt^2/2 a + C2 dt^3 w x a + C3 dt^4 w x (w x a))
   with the series coefficients (1-cos x)/x^2, (x-sin x)/x^3, (x^2/2+cos x-1)/x^4 of |w dt|^2, the attitude as q0 (x) exp(w dt) *)
Theorem C08_strapdown_struct : forall p0 p1 p2 v0 v1 v2 q0 q1 q2 q3 a0 a1 a2 w0 w1 w2 g dt,
  rdd2_strapdown_ins_propagate p0 p1 p2 v0 v1 v2 q0 q1 q2 q3 a0 a1 a2 w0 w1 w2 g dt =
  let u := usq dt w0 w1 w2 in
  let C1 := hd 0 (sq_series_4 u) in let C2 := hd 0 (sq_series_5 u) in let C3 := hd 0 (sq_series_8 u) in
  let R := SO3Quat_to_Matrix q0 q1 q2 q3 in
  let a := [a0; a1; a2] in let w := [w0; w1; w2] in
  let wa := cross3 w a in let wwa := cross3 w wa in
  let dv := madd (mscale dt a) (madd (mscale (C1 * dt * dt) wa) (mscale (C2 * dt * dt * dt) wwa)) in
  let dp := madd (mscale (dt * dt / 2) a) (madd (mscale (C2 * dt * dt * dt) wa) (mscale (C3 * dt * dt * dt * dt) wwa)) in
  madd [p0 + v0 * dt; p1 + v1 * dt; p2 + v2 * dt - g * dt * dt / 2] (mvec 3 3 R dp) ++
  madd [v0; v1; v2 - g * dt] (mvec 3 3 R dv) ++
  SO3Quat_product_v [q0; q1; q2; q3] (SO3Quat_exp (dt * w0) (dt * w1) (dt * w2)).
Proof. exact strapdown_struct. Qed.

(* dt = 0 is exactly the identity *)
Theorem C08_strapdown_dt0 : forall p0 p1 p2 v0 v1 v2 q0 q1 q2 q3 a0 a1 a2 w0 w1 w2 g,
  rdd2_strapdown_ins_propagate p0 p1 p2 v0 v1 v2 q0 q1 q2 q3 a0 a1 a2 w0 w1 w2 g 0 = [p0; p1; p2; v0; v1; v2; q0; q1; q2; q3].
Proof. exact strapdown_dt0. Qed.

(* the attitude quaternion keeps its norm exactly (outside the small-angle cell of the quaternion exponential) *)
Theorem C08_strapdown_unit_norm : forall p0 p1 p2 v0 v1 v2 q0 q1 q2 q3 a0 a1 a2 w0 w1 w2 g dt,
  4 * eps <= usq dt w0 w1 w2 ->
  let r := rdd2_strapdown_ins_propagate p0 p1 p2 v0 v1 v2 q0 q1 q2 q3 a0 a1 a2 w0 w1 w2 g dt in
  norm2 [nth 6 r 0; nth 7 r 0; nth 8 r 0; nth 9 r 0] = norm2 [q0; q1; q2; q3].
Proof. exact strapdown_unit_norm. Qed.

(* outside the small-angle cell the step is exactly the closed-form flow at t = dt ... *)
Theorem C08_strapdown_is_flow : forall p0 p1 p2 v0 v1 v2 q0 q1 q2 q3 a0 a1 a2 w0 w1 w2 g dt th,
  0 < dt -> 0 < th -> th * th = w0 * w0 + w1 * w1 + w2 * w2 -> 4 * eps <= (th * dt) * (th * dt) ->
  rdd2_strapdown_ins_propagate p0 p1 p2 v0 v1 v2 q0 q1 q2 q3 a0 a1 a2 w0 w1 w2 g dt =
  let R := SO3Quat_to_Matrix q0 q1 q2 q3 in
  madd [p0 + v0 * dt; p1 + v1 * dt; p2 + v2 * dt - g * dt * dt / 2] (mvec 3 3 R (mvec 3 3 (ttjl th w0 w1 w2 dt) [a0; a1; a2])) ++
  madd [v0; v1; v2 - g * dt] (mvec 3 3 R (mvec 3 3 (tjl th w0 w1 w2 dt) [a0; a1; a2])) ++
  SO3Quat_product_v [q0; q1; q2; q3] (qcl (th * dt) (w0 / th) (w1 / th) (w2 / th)).
Proof. exact strapdown_is_flow. Qed.

(* ... and the closed-form flow solves the IMU kinematics: p' = v (d/dt ttjl = tjl), *)
Theorem C08_ttjl_derivative : forall th w0 w1 w2 t k,
  th <> 0 -> (k < 9)%nat ->
  is_derive (fun s => nth k (ttjl th w0 w1 w2 s) 0) t (nth k (tjl th w0 w1 w2 t) 0).
Proof. exact ttjl_derivative. Qed.

Theorem C08_ttjl_0 : forall th w0 w1 w2,
  th <> 0 -> ttjl th w0 w1 w2 0 = mzero 3 3.
Proof. exact ttjl_0. Qed.

(* R' = R [w]x (Rodrigues' formula), with p(0) = p0, v(0) = v0, R(0) = R0 *)
Theorem C08_rodt_ode_right : forall th w0 w1 w2 t k,
  th <> 0 -> th * th = w0 * w0 + w1 * w1 + w2 * w2 -> (k < 9)%nat ->
  is_derive (fun s => nth k (rodt th w0 w1 w2 s) 0) t (nth k (mmul 3 3 3 (rodt th w0 w1 w2 t) (hat3 [w0; w1; w2])) 0).
Proof. exact rodt_ode_right. Qed.

(* v' = R a - g e3 (d/dt tjl = rodt), *)
Theorem C08_tjl_derivative : forall th v0 v1 v2 t k,
  th <> 0 -> (k < 9)%nat ->
  is_derive (fun s => nth k (tjl th v0 v1 v2 s) 0) t (nth k (rodt th v0 v1 v2 t) 0).
Proof. exact tjl_derivative. Qed.

Theorem C08_tjl_0 : forall th v0 v1 v2,
  th <> 0 -> tjl th v0 v1 v2 0 = mzero 3 3.
Proof. exact tjl_0. Qed.

Theorem C08_rodt_0 : forall th v0 v1 v2,
  th <> 0 -> rodt th v0 v1 v2 0 = mid 3.
Proof. exact rodt_0. Qed.

Print Assumptions C08_strapdown_struct.
Print Assumptions C08_strapdown_dt0.
Print Assumptions C08_strapdown_unit_norm.
Print Assumptions C08_strapdown_is_flow.
Print Assumptions C08_ttjl_derivative.
Print Assumptions C08_ttjl_0.
Print Assumptions C08_rodt_ode_right.
Print Assumptions C08_tjl_derivative.
Print Assumptions C08_tjl_0.
Print Assumptions C08_rodt_0.
