(* C01 -- direct products built with `*`: DPa = SO3Mrp*R3 (the estimator's state group), DPb = (SO3Quat*R3)*SO2, DPc = SE2*(SO2*R2),
   DPd = SO3Dcm*R2, DPe = SO3Quat*SO3Mrp (the same non-abelian algebra twice), DPf = SE2*SE2.  Units regenerated from
   cyecca/lie/direct_product.py; each statement says the product's unit is the factor-wise composition of the factor units
   (parameter slices: group sizes on the group side, algebra sizes on the algebra side). *)
From Coq Require Import Reals List Lra.
From Cyecca Require Import Base.Ops Spec.Mat Gen.SO2 Gen.SE2 Gen.Rn Gen.so3 Gen.SO3Quat Gen.SO3Mrp Gen.SO3Dcm Gen.DP Proofs.DP.
Import ListNotations.
Local Open Scope R_scope.

Theorem C01_DPa_product_factorwise : forall a0_0 a0_1 a0_2 a1_0 a1_1 a1_2 b0_0 b0_1 b0_2 b1_0 b1_1 b1_2, DPa_product a0_0 a0_1 a0_2 a1_0 a1_1 a1_2 b0_0 b0_1 b0_2 b1_0 b1_1 b1_2 = SO3Mrp_product a0_0 a0_1 a0_2 b0_0 b0_1 b0_2 ++ R3_product a1_0 a1_1 a1_2 b1_0 b1_1 b1_2.
Proof. exact DPa_product_factorwise. Qed.
Theorem C01_DPa_inverse_factorwise : forall a0_0 a0_1 a0_2 a1_0 a1_1 a1_2, DPa_inverse a0_0 a0_1 a0_2 a1_0 a1_1 a1_2 = SO3Mrp_inverse a0_0 a0_1 a0_2 ++ R3_inverse a1_0 a1_1 a1_2.
Proof. exact DPa_inverse_factorwise. Qed.
Theorem C01_DPa_identity_factorwise : DPa_identity = SO3Mrp_identity ++ R3_identity.
Proof. exact DPa_identity_factorwise. Qed.
Theorem C01_DPa_to_Matrix_blockdiag : forall a0_0 a0_1 a0_2 a1_0 a1_1 a1_2, DPa_to_Matrix a0_0 a0_1 a0_2 a1_0 a1_1 a1_2 = (mblockdiag 3 4 (SO3Mrp_to_Matrix a0_0 a0_1 a0_2) (R3_to_Matrix a1_0 a1_1 a1_2)).
Proof. exact DPa_to_Matrix_blockdiag. Qed.
Theorem C01_DPb_product_factorwise : forall a0_0 a0_1 a0_2 a0_3 a1_0 a1_1 a1_2 a2_0 b0_0 b0_1 b0_2 b0_3 b1_0 b1_1 b1_2 b2_0, DPb_product a0_0 a0_1 a0_2 a0_3 a1_0 a1_1 a1_2 a2_0 b0_0 b0_1 b0_2 b0_3 b1_0 b1_1 b1_2 b2_0 = SO3Quat_product a0_0 a0_1 a0_2 a0_3 b0_0 b0_1 b0_2 b0_3 ++ R3_product a1_0 a1_1 a1_2 b1_0 b1_1 b1_2 ++ SO2_product a2_0 b2_0.
Proof. exact DPb_product_factorwise. Qed.
Theorem C01_DPb_inverse_factorwise : forall a0_0 a0_1 a0_2 a0_3 a1_0 a1_1 a1_2 a2_0, DPb_inverse a0_0 a0_1 a0_2 a0_3 a1_0 a1_1 a1_2 a2_0 = SO3Quat_inverse a0_0 a0_1 a0_2 a0_3 ++ R3_inverse a1_0 a1_1 a1_2 ++ SO2_inverse a2_0.
Proof. exact DPb_inverse_factorwise. Qed.
Theorem C01_DPb_identity_factorwise : DPb_identity = SO3Quat_identity ++ R3_identity ++ SO2_identity.
Proof. exact DPb_identity_factorwise. Qed.
Theorem C01_DPb_to_Matrix_blockdiag : forall a0_0 a0_1 a0_2 a0_3 a1_0 a1_1 a1_2 a2_0, DPb_to_Matrix a0_0 a0_1 a0_2 a0_3 a1_0 a1_1 a1_2 a2_0 = (mblockdiag 7 2 (mblockdiag 3 4 (SO3Quat_to_Matrix a0_0 a0_1 a0_2 a0_3) (R3_to_Matrix a1_0 a1_1 a1_2)) (SO2_to_Matrix a2_0)).
Proof. exact DPb_to_Matrix_blockdiag. Qed.
Theorem C01_DPc_product_factorwise : forall a0_0 a0_1 a0_2 a1_0 a2_0 a2_1 b0_0 b0_1 b0_2 b1_0 b2_0 b2_1, DPc_product a0_0 a0_1 a0_2 a1_0 a2_0 a2_1 b0_0 b0_1 b0_2 b1_0 b2_0 b2_1 = SE2_product a0_0 a0_1 a0_2 b0_0 b0_1 b0_2 ++ SO2_product a1_0 b1_0 ++ R2_product a2_0 a2_1 b2_0 b2_1.
Proof. exact DPc_product_factorwise. Qed.
Theorem C01_DPc_inverse_factorwise : forall a0_0 a0_1 a0_2 a1_0 a2_0 a2_1, DPc_inverse a0_0 a0_1 a0_2 a1_0 a2_0 a2_1 = SE2_inverse a0_0 a0_1 a0_2 ++ SO2_inverse a1_0 ++ R2_inverse a2_0 a2_1.
Proof. exact DPc_inverse_factorwise. Qed.
Theorem C01_DPc_identity_factorwise : DPc_identity = SE2_identity ++ SO2_identity ++ R2_identity.
Proof. exact DPc_identity_factorwise. Qed.
Theorem C01_DPc_to_Matrix_blockdiag : forall a0_0 a0_1 a0_2 a1_0 a2_0 a2_1, DPc_to_Matrix a0_0 a0_1 a0_2 a1_0 a2_0 a2_1 = (mblockdiag 5 3 (mblockdiag 3 2 (SE2_to_Matrix a0_0 a0_1 a0_2) (SO2_to_Matrix a1_0)) (R2_to_Matrix a2_0 a2_1)).
Proof. exact DPc_to_Matrix_blockdiag. Qed.
Theorem C01_DPd_product_factorwise : forall a0_0 a0_1 a0_2 a0_3 a0_4 a0_5 a0_6 a0_7 a0_8 a1_0 a1_1 b0_0 b0_1 b0_2 b0_3 b0_4 b0_5 b0_6 b0_7 b0_8 b1_0 b1_1, DPd_product a0_0 a0_1 a0_2 a0_3 a0_4 a0_5 a0_6 a0_7 a0_8 a1_0 a1_1 b0_0 b0_1 b0_2 b0_3 b0_4 b0_5 b0_6 b0_7 b0_8 b1_0 b1_1 = SO3Dcm_product a0_0 a0_1 a0_2 a0_3 a0_4 a0_5 a0_6 a0_7 a0_8 b0_0 b0_1 b0_2 b0_3 b0_4 b0_5 b0_6 b0_7 b0_8 ++ R2_product a1_0 a1_1 b1_0 b1_1.
Proof. exact DPd_product_factorwise. Qed.
Theorem C01_DPd_inverse_factorwise : forall a0_0 a0_1 a0_2 a0_3 a0_4 a0_5 a0_6 a0_7 a0_8 a1_0 a1_1, DPd_inverse a0_0 a0_1 a0_2 a0_3 a0_4 a0_5 a0_6 a0_7 a0_8 a1_0 a1_1 = SO3Dcm_inverse a0_0 a0_1 a0_2 a0_3 a0_4 a0_5 a0_6 a0_7 a0_8 ++ R2_inverse a1_0 a1_1.
Proof. exact DPd_inverse_factorwise. Qed.
Theorem C01_DPd_identity_factorwise : DPd_identity = SO3Dcm_identity ++ R2_identity.
Proof. exact DPd_identity_factorwise. Qed.
Theorem C01_DPd_to_Matrix_blockdiag : forall a0_0 a0_1 a0_2 a0_3 a0_4 a0_5 a0_6 a0_7 a0_8 a1_0 a1_1, DPd_to_Matrix a0_0 a0_1 a0_2 a0_3 a0_4 a0_5 a0_6 a0_7 a0_8 a1_0 a1_1 = (mblockdiag 3 3 (SO3Dcm_to_Matrix a0_0 a0_1 a0_2 a0_3 a0_4 a0_5 a0_6 a0_7 a0_8) (R2_to_Matrix a1_0 a1_1)).
Proof. exact DPd_to_Matrix_blockdiag. Qed.
Theorem C01_DPe_product_factorwise : forall a0_0 a0_1 a0_2 a0_3 a1_0 a1_1 a1_2 b0_0 b0_1 b0_2 b0_3 b1_0 b1_1 b1_2, DPe_product a0_0 a0_1 a0_2 a0_3 a1_0 a1_1 a1_2 b0_0 b0_1 b0_2 b0_3 b1_0 b1_1 b1_2 = SO3Quat_product a0_0 a0_1 a0_2 a0_3 b0_0 b0_1 b0_2 b0_3 ++ SO3Mrp_product a1_0 a1_1 a1_2 b1_0 b1_1 b1_2.
Proof. exact DPe_product_factorwise. Qed.
Theorem C01_DPe_inverse_factorwise : forall a0_0 a0_1 a0_2 a0_3 a1_0 a1_1 a1_2, DPe_inverse a0_0 a0_1 a0_2 a0_3 a1_0 a1_1 a1_2 = SO3Quat_inverse a0_0 a0_1 a0_2 a0_3 ++ SO3Mrp_inverse a1_0 a1_1 a1_2.
Proof. exact DPe_inverse_factorwise. Qed.
Theorem C01_DPe_identity_factorwise : DPe_identity = SO3Quat_identity ++ SO3Mrp_identity.
Proof. exact DPe_identity_factorwise. Qed.
Theorem C01_DPe_to_Matrix_blockdiag : forall a0_0 a0_1 a0_2 a0_3 a1_0 a1_1 a1_2, DPe_to_Matrix a0_0 a0_1 a0_2 a0_3 a1_0 a1_1 a1_2 = (mblockdiag 3 3 (SO3Quat_to_Matrix a0_0 a0_1 a0_2 a0_3) (SO3Mrp_to_Matrix a1_0 a1_1 a1_2)).
Proof. exact DPe_to_Matrix_blockdiag. Qed.
Theorem C01_DPf_product_factorwise : forall a0_0 a0_1 a0_2 a1_0 a1_1 a1_2 b0_0 b0_1 b0_2 b1_0 b1_1 b1_2, DPf_product a0_0 a0_1 a0_2 a1_0 a1_1 a1_2 b0_0 b0_1 b0_2 b1_0 b1_1 b1_2 = SE2_product a0_0 a0_1 a0_2 b0_0 b0_1 b0_2 ++ SE2_product a1_0 a1_1 a1_2 b1_0 b1_1 b1_2.
Proof. exact DPf_product_factorwise. Qed.
Theorem C01_DPf_inverse_factorwise : forall a0_0 a0_1 a0_2 a1_0 a1_1 a1_2, DPf_inverse a0_0 a0_1 a0_2 a1_0 a1_1 a1_2 = SE2_inverse a0_0 a0_1 a0_2 ++ SE2_inverse a1_0 a1_1 a1_2.
Proof. exact DPf_inverse_factorwise. Qed.
Theorem C01_DPf_identity_factorwise : DPf_identity = SE2_identity ++ SE2_identity.
Proof. exact DPf_identity_factorwise. Qed.
Theorem C01_DPf_to_Matrix_blockdiag : forall a0_0 a0_1 a0_2 a1_0 a1_1 a1_2, DPf_to_Matrix a0_0 a0_1 a0_2 a1_0 a1_1 a1_2 = (mblockdiag 3 3 (SE2_to_Matrix a0_0 a0_1 a0_2) (SE2_to_Matrix a1_0 a1_1 a1_2)).
Proof. exact DPf_to_Matrix_blockdiag. Qed.

Print Assumptions C01_DPa_product_factorwise.
Print Assumptions C01_DPa_inverse_factorwise.
Print Assumptions C01_DPa_identity_factorwise.
Print Assumptions C01_DPa_to_Matrix_blockdiag.
Print Assumptions C01_DPb_product_factorwise.
Print Assumptions C01_DPb_inverse_factorwise.
Print Assumptions C01_DPb_identity_factorwise.
Print Assumptions C01_DPb_to_Matrix_blockdiag.
Print Assumptions C01_DPc_product_factorwise.
Print Assumptions C01_DPc_inverse_factorwise.
Print Assumptions C01_DPc_identity_factorwise.
Print Assumptions C01_DPc_to_Matrix_blockdiag.
Print Assumptions C01_DPd_product_factorwise.
Print Assumptions C01_DPd_inverse_factorwise.
Print Assumptions C01_DPd_identity_factorwise.
Print Assumptions C01_DPd_to_Matrix_blockdiag.
Print Assumptions C01_DPe_product_factorwise.
Print Assumptions C01_DPe_inverse_factorwise.
Print Assumptions C01_DPe_identity_factorwise.
Print Assumptions C01_DPe_to_Matrix_blockdiag.
Print Assumptions C01_DPf_product_factorwise.
Print Assumptions C01_DPf_inverse_factorwise.
Print Assumptions C01_DPf_identity_factorwise.
Print Assumptions C01_DPf_to_Matrix_blockdiag.
