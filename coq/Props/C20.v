(* C20 -- simulation bus, logger and estimator-node gating: theorems about the hand-written executable models
   Model/Bus.v, Model/Node.v, Model/Sched.v (tied to cyecca/sim/uros.py, simpy and estimator.py by the
   correspondence harness harness/corr_bus.py, which runs both on the same seeded histories). *)
From Coq Require Import List NArith ZArith Bool.
From Cyecca Require Import Model.Bus Model.Node Model.Sched Proofs.C20_bus Proofs.C20_node Proofs.C20_logger.
Import ListNotations.

(* every message published on a topic goes to exactly the subscribers of that topic, in registration order ... *)
Theorem C20_publish_delivers : forall b t y m, lookup t (pubs b) = Some y ->
  step b (Publish t y m) = (b, OOk (map (fun s => (s, m)) (subscribers b t))).
Proof. exact publish_ok. Qed.
Theorem C20_subscribers_are_exactly_the_registered : forall b t s, In s (subscribers b t) <-> In (s, t) (subs b).
Proof. exact subscribers_spec. Qed.
(* ... once each, after any history of operations ... *)
Theorem C20_exactly_once : forall ops t, NoDup (subscribers (state_after ops) t).
Proof. exact exactly_once. Qed.
(* ... and later registrations never disturb the order of earlier subscribers *)
Theorem C20_registration_order_stable : forall b o t, exists extra, subscribers (fst (step b o)) t = subscribers b t ++ extra.
Proof. exact subscribers_append. Qed.
(* a message of the wrong type is rejected: error, no delivery, state unchanged *)
Theorem C20_wrong_type_rejected : forall b t y y0 m, lookup t (pubs b) = Some y0 -> y <> y0 -> step b (Publish t y m) = (b, OErr).
Proof. exact wrong_type_rejected. Qed.
Theorem C20_locked_rejects_registration : forall b, locked b = true ->
  (forall t y, step b (NewPub t y) = (b, OErr)) /\ (forall t, step b (NewSub t) = (b, OErr)) /\
  (forall ns vs, step b (NewParamNode ns vs) = (b, OErr)) /\ step b Lock = (b, OErr).
Proof. exact locked_rejects. Qed.
(* parameter values set on the core are seen, after the broadcast, by every node that follows the parameter topic *)
Theorem C20_params_visible_after_broadcast : forall b n v b' d node names,
  step b (SetParam n v) = (b', OOk d) ->
  In (node, names) (pnodes b) -> In node (subscribers b 0%N) -> In n names ->
  read b' node n = Some v /\ d = map (fun s => (s, 0%N)) (subscribers b 0%N).
Proof. exact params_visible. Qed.

(* estimator node *)
Theorem C20_predict_dt_positive : forall c s ms t dt, In (APredict t dt) (snd (nrun c s ms)) -> (0 < dt)%Z.
Proof. exact predict_dt_positive. Qed.
Theorem C20_accel_rate_limited : forall c s ms, spaced (acc_num c) (acc_den c) (t_acc s) (accel_times (snd (nrun c s ms))).
Proof. exact accel_rate_limited. Qed.
Theorem C20_mag_rate_limited : forall c s ms, spaced (mag_num c) (mag_den c) (t_mag s) (mag_times (snd (nrun c s ms))).
Proof. exact mag_rate_limited. Qed.
Theorem C20_init_gate : forall c ms s, inited s = false ->
  forall pre a post, snd (nrun c s ms) = pre ++ a :: post -> is_work a = true -> In (AInit true) pre.
Proof. exact init_gate. Qed.

(* logger: row time stamps never decrease, for every set of periodic processes (publishers, the logger, processes that
   set logger/dt while the simulation runs) and every horizon *)
Theorem C20_logger_rows_time_nondecreasing : forall ps tf fuel, (forall p, In p ps -> proc_ok p) ->
  times_nondecreasing 0 (map fst (simulate ps tf fuel)).
Proof. exact logger_rows_time_nondecreasing. Qed.

(* logger: one row per logging period.  For every process table with one logger, every horizon and every sequence of
   logger/dt updates made while the simulation runs: the first row is stamped 0 and every later row is stamped exactly
   one wait after the previous one (chain), where the wait scheduled after a row ... *)
Theorem C20_logger_one_row_per_period : forall ps tf fuel lp p0,
  nth_error ps lp = Some p0 -> kind p0 = PLog ->
  (forall pid p, nth_error ps pid = Some p -> kind p = PLog -> pid = lp) ->
  let s := final ps tf fuel in
  length (map fst (rows s)) = length (waits s) /\ chain (map fst (rows s)) (waits s) /\
  (forall t, hd_error (map fst (rows s)) = Some t -> t = 0%Z).
Proof. exact logger_one_row_per_period. Qed.
(* ... is a configured logging period: the one set before the run or a value some process set logger/dt to (the model's
   logger reads the value in force when it goes to sleep; Model/Sched.v fire, tied to uros.Logger.run by the correspondence) *)
Theorem C20_logger_waits_are_configured : forall ps tf fuel d0,
  (forall pid p, nth_error ps pid = Some p -> kind p = PLog -> period p = d0) ->
  Forall (cfg ps d0) (waits (final ps tf fuel)).
Proof. exact logger_waits_are_configured. Qed.
(* without parameter updates the i-th row is stamped exactly i logging periods after 0 *)
Theorem C20_logger_rows_at_multiples : forall ps tf fuel lp p0,
  nth_error ps lp = Some p0 -> kind p0 = PLog ->
  (forall pid p, nth_error ps pid = Some p -> kind p = PLog -> pid = lp) ->
  (forall p v, In p ps -> kind p <> PSet v) ->
  forall i t, nth_error (map fst (simulate ps tf fuel)) i = Some t -> t = (Z.of_nat i * period p0)%Z.
Proof. exact logger_rows_at_multiples. Qed.
(* non-vacuity: a publisher, a process that sets logger/dt to 2 at times 0, 7, 14, ... after a first period of 5 is
   never used (the update at time 0 precedes the logger's first sleep), and one that sets it to 3 every 10 *)
Example C20_logger_example :
  map fst (simulate [{| kind := PPub 1; period := 3 |}; {| kind := PSet 3; period := 10 |}; {| kind := PLog; period := 5 |}] 20 1000%nat)
  = [0; 3; 6; 9; 12; 15; 18]%Z /\
  map fst (simulate [{| kind := PLog; period := 5 |}; {| kind := PSet 2; period := 7 |}] 20 1000%nat) = [0; 5; 7; 9; 11; 13; 15; 17; 19]%Z.
Proof. vm_compute. split; reflexivity. Qed.

(* non-vacuity: a concrete history with two subscribers, a logger and a parameter update *)
Example C20_history_example :
  snd (run init [NewPub 1 1; NewSub 1; NewParamNode [7] [3%Z]; NewSub 1; Lock; InitParams; SetParam 7 9%Z; Publish 1 1 42; ReadCache 1 7]%N)
  = [OOk []; OId 0; OId 1; OId 2; OOk []; OOk []; OOk [(1, 0); (3, 0)]; OOk [(0, 42); (2, 42); (4, 42)]; OVal (Some 9%Z)]%N.
Proof. vm_compute. reflexivity. Qed.
Print Assumptions C20_publish_delivers.
Print Assumptions C20_subscribers_are_exactly_the_registered.
Print Assumptions C20_exactly_once.
Print Assumptions C20_registration_order_stable.
Print Assumptions C20_wrong_type_rejected.
Print Assumptions C20_locked_rejects_registration.
Print Assumptions C20_params_visible_after_broadcast.
Print Assumptions C20_predict_dt_positive.
Print Assumptions C20_accel_rate_limited.
Print Assumptions C20_mag_rate_limited.
Print Assumptions C20_init_gate.
Print Assumptions C20_logger_rows_time_nondecreasing.
Print Assumptions C20_logger_one_row_per_period.
Print Assumptions C20_logger_waits_are_configured.
Print Assumptions C20_logger_rows_at_multiples.
