(* C12 -- component theorems for the closed-loop attitude estimation property: the simulator's sensor models
   (noise sample 0) on the model regenerated from algorithms/sim.py.  Convergence itself is explored, not proved. *)
From Coq Require Import Reals List Lra.
From Cyecca Require Import Base.Ops Spec.Mat Gen.Sim Gen.SO3Mrp Proofs.C12.
Import ListNotations.
Local Open Scope R_scope.

Theorem C12_gyro_model : forall r0 r1 r2 b0 b1 b2 w0 w1 w2 sd,
  sim_measure_gyro r0 r1 r2 b0 b1 b2 w0 w1 w2 sd 0 0 0 = [w0 + b0; w1 + b1; w2 + b2].
Proof. exact gyro_model. Qed.
(* the accelerometer reading rotates with the true attitude and has the configured magnitude *)
Theorem C12_accel_model : forall r0 r1 r2 b0 b1 b2 g sd,
  mvec 3 3 (SO3Mrp_to_Matrix_v [r0; r1; r2]) (sim_measure_accel r0 r1 r2 b0 b1 b2 g sd 0 0 0) = [0; 0; - g].
Proof. exact accel_model. Qed.
Theorem C12_accel_magnitude : forall r0 r1 r2 b0 b1 b2 g sd,
  norm2 (sim_measure_accel r0 r1 r2 b0 b1 b2 g sd 0 0 0) = g * g.
Proof. exact accel_magnitude. Qed.
(* the magnetometer reading rotates with the true attitude (so its magnitude is attitude-independent) *)
Theorem C12_mag_rotates_with_attitude : forall r0 r1 r2 b0 b1 b2 str decl incl sd,
  mvec 3 3 (SO3Mrp_to_Matrix_v [r0; r1; r2]) (sim_measure_mag r0 r1 r2 b0 b1 b2 str decl incl sd 0 0 0) =
  sim_measure_mag 0 0 0 b0 b1 b2 str decl incl sd 0 0 0.
Proof. exact mag_rotates_with_attitude. Qed.

Print Assumptions C12_gyro_model.
Print Assumptions C12_accel_model.
Print Assumptions C12_accel_magnitude.
Print Assumptions C12_mag_rotates_with_attitude.
