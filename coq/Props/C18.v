(* C18 -- Bezier curves on the model regenerated from cyecca/models/bezier.py.
   bez_eval_n_m : Bezier(P, T).eval(t) for an m x (n+1) control matrix; bez_deriv_n_m_ok : control points of .deriv(k);
   bernstein P b : sum_i C(n,i) b^i (1-b)^(n-i) P_i  (Proofs/C18_inst.v). *)
From Coq Require Import Reals List Lra.
From Coquelicot Require Import Coquelicot.
From Cyecca Require Import Base.Ops Spec.Mat Gen.Bezier Proofs.C18_inst Proofs.C18_solve Proofs.C18_rows.
Import ListNotations.
Local Open Scope R_scope.

Theorem C18_eval1_bernstein : forall p0 p1 T t, T <> 0 -> bez_eval_1_1 p0 p1 T t = [bernstein [p0; p1] (t / T)].
Proof. exact eval1_bernstein. Qed.

Theorem C18_eval1_endpoints : forall p0 p1 T, T <> 0 -> bez_eval_1_1 p0 p1 T 0 = [p0] /\ bez_eval_1_1 p0 p1 T T = [p1].
Proof. exact eval1_endpoints. Qed.

Theorem C18_eval1_derivative : forall p0 p1 T t, T <> 0 -> is_derive (fun t => nth 0 (bez_eval_1_1 p0 p1 T t) 0) t (nth 0 (bez_deriv_1_1_o1 p0 p1 T) 0).
Proof. exact eval1_derivative. Qed.

Theorem C18_eval2_bernstein : forall p0 p1 p2 T t, T <> 0 -> bez_eval_2_1 p0 p1 p2 T t = [bernstein [p0; p1; p2] (t / T)].
Proof. exact eval2_bernstein. Qed.

Theorem C18_eval2_endpoints : forall p0 p1 p2 T, T <> 0 -> bez_eval_2_1 p0 p1 p2 T 0 = [p0] /\ bez_eval_2_1 p0 p1 p2 T T = [p2].
Proof. exact eval2_endpoints. Qed.

Theorem C18_eval2_derivative : forall p0 p1 p2 T t, T <> 0 -> is_derive (fun t => nth 0 (bez_eval_2_1 p0 p1 p2 T t) 0) t (nth 0 (bez_eval_1_1_v (bez_deriv_2_1_o1 p0 p1 p2 T) [T] [t]) 0).
Proof. exact eval2_derivative. Qed.

Theorem C18_deriv2_order2_iterates : forall p0 p1 p2 T, T <> 0 -> bez_deriv_2_1_o2 p0 p1 p2 T = bez_deriv_1_1_o1_v (bez_deriv_2_1_o1 p0 p1 p2 T) [T].
Proof. exact deriv2_order2_iterates. Qed.

Theorem C18_deriv2_chain2 : forall p0 p1 p2 T, T <> 0 -> bez_deriv_2_1_chain2 p0 p1 p2 T = bez_deriv_2_1_o2 p0 p1 p2 T.
Proof. exact deriv2_chain2. Qed.

Theorem C18_eval3_bernstein : forall p0 p1 p2 p3 T t, T <> 0 -> bez_eval_3_1 p0 p1 p2 p3 T t = [bernstein [p0; p1; p2; p3] (t / T)].
Proof. exact eval3_bernstein. Qed.

Theorem C18_eval3_endpoints : forall p0 p1 p2 p3 T, T <> 0 -> bez_eval_3_1 p0 p1 p2 p3 T 0 = [p0] /\ bez_eval_3_1 p0 p1 p2 p3 T T = [p3].
Proof. exact eval3_endpoints. Qed.

Theorem C18_eval3_derivative : forall p0 p1 p2 p3 T t, T <> 0 -> is_derive (fun t => nth 0 (bez_eval_3_1 p0 p1 p2 p3 T t) 0) t (nth 0 (bez_eval_2_1_v (bez_deriv_3_1_o1 p0 p1 p2 p3 T) [T] [t]) 0).
Proof. exact eval3_derivative. Qed.

Theorem C18_deriv3_order2_iterates : forall p0 p1 p2 p3 T, T <> 0 -> bez_deriv_3_1_o2 p0 p1 p2 p3 T = bez_deriv_2_1_o1_v (bez_deriv_3_1_o1 p0 p1 p2 p3 T) [T].
Proof. exact deriv3_order2_iterates. Qed.

Theorem C18_deriv3_order3_iterates : forall p0 p1 p2 p3 T, T <> 0 -> bez_deriv_3_1_o3 p0 p1 p2 p3 T = bez_deriv_1_1_o1_v (bez_deriv_3_1_o2 p0 p1 p2 p3 T) [T].
Proof. exact deriv3_order3_iterates. Qed.

Theorem C18_deriv3_chain2 : forall p0 p1 p2 p3 T, T <> 0 -> bez_deriv_3_1_chain2 p0 p1 p2 p3 T = bez_deriv_3_1_o2 p0 p1 p2 p3 T.
Proof. exact deriv3_chain2. Qed.

Theorem C18_eval4_bernstein : forall p0 p1 p2 p3 p4 T t, T <> 0 -> bez_eval_4_1 p0 p1 p2 p3 p4 T t = [bernstein [p0; p1; p2; p3; p4] (t / T)].
Proof. exact eval4_bernstein. Qed.

Theorem C18_eval4_endpoints : forall p0 p1 p2 p3 p4 T, T <> 0 -> bez_eval_4_1 p0 p1 p2 p3 p4 T 0 = [p0] /\ bez_eval_4_1 p0 p1 p2 p3 p4 T T = [p4].
Proof. exact eval4_endpoints. Qed.

Theorem C18_eval4_derivative : forall p0 p1 p2 p3 p4 T t, T <> 0 -> is_derive (fun t => nth 0 (bez_eval_4_1 p0 p1 p2 p3 p4 T t) 0) t (nth 0 (bez_eval_3_1_v (bez_deriv_4_1_o1 p0 p1 p2 p3 p4 T) [T] [t]) 0).
Proof. exact eval4_derivative. Qed.

Theorem C18_deriv4_order2_iterates : forall p0 p1 p2 p3 p4 T, T <> 0 -> bez_deriv_4_1_o2 p0 p1 p2 p3 p4 T = bez_deriv_3_1_o1_v (bez_deriv_4_1_o1 p0 p1 p2 p3 p4 T) [T].
Proof. exact deriv4_order2_iterates. Qed.

Theorem C18_deriv4_order3_iterates : forall p0 p1 p2 p3 p4 T, T <> 0 -> bez_deriv_4_1_o3 p0 p1 p2 p3 p4 T = bez_deriv_2_1_o1_v (bez_deriv_4_1_o2 p0 p1 p2 p3 p4 T) [T].
Proof. exact deriv4_order3_iterates. Qed.

Theorem C18_deriv4_order4_iterates : forall p0 p1 p2 p3 p4 T, T <> 0 -> bez_deriv_4_1_o4 p0 p1 p2 p3 p4 T = bez_deriv_1_1_o1_v (bez_deriv_4_1_o3 p0 p1 p2 p3 p4 T) [T].
Proof. exact deriv4_order4_iterates. Qed.

Theorem C18_deriv4_chain2 : forall p0 p1 p2 p3 p4 T, T <> 0 -> bez_deriv_4_1_chain2 p0 p1 p2 p3 p4 T = bez_deriv_4_1_o2 p0 p1 p2 p3 p4 T.
Proof. exact deriv4_chain2. Qed.

Theorem C18_eval5_bernstein : forall p0 p1 p2 p3 p4 p5 T t, T <> 0 -> bez_eval_5_1 p0 p1 p2 p3 p4 p5 T t = [bernstein [p0; p1; p2; p3; p4; p5] (t / T)].
Proof. exact eval5_bernstein. Qed.

Theorem C18_eval5_endpoints : forall p0 p1 p2 p3 p4 p5 T, T <> 0 -> bez_eval_5_1 p0 p1 p2 p3 p4 p5 T 0 = [p0] /\ bez_eval_5_1 p0 p1 p2 p3 p4 p5 T T = [p5].
Proof. exact eval5_endpoints. Qed.

Theorem C18_eval5_derivative : forall p0 p1 p2 p3 p4 p5 T t, T <> 0 -> is_derive (fun t => nth 0 (bez_eval_5_1 p0 p1 p2 p3 p4 p5 T t) 0) t (nth 0 (bez_eval_4_1_v (bez_deriv_5_1_o1 p0 p1 p2 p3 p4 p5 T) [T] [t]) 0).
Proof. exact eval5_derivative. Qed.

Theorem C18_deriv5_order2_iterates : forall p0 p1 p2 p3 p4 p5 T, T <> 0 -> bez_deriv_5_1_o2 p0 p1 p2 p3 p4 p5 T = bez_deriv_4_1_o1_v (bez_deriv_5_1_o1 p0 p1 p2 p3 p4 p5 T) [T].
Proof. exact deriv5_order2_iterates. Qed.

Theorem C18_deriv5_order3_iterates : forall p0 p1 p2 p3 p4 p5 T, T <> 0 -> bez_deriv_5_1_o3 p0 p1 p2 p3 p4 p5 T = bez_deriv_3_1_o1_v (bez_deriv_5_1_o2 p0 p1 p2 p3 p4 p5 T) [T].
Proof. exact deriv5_order3_iterates. Qed.

Theorem C18_deriv5_order4_iterates : forall p0 p1 p2 p3 p4 p5 T, T <> 0 -> bez_deriv_5_1_o4 p0 p1 p2 p3 p4 p5 T = bez_deriv_2_1_o1_v (bez_deriv_5_1_o3 p0 p1 p2 p3 p4 p5 T) [T].
Proof. exact deriv5_order4_iterates. Qed.

Theorem C18_deriv5_chain2 : forall p0 p1 p2 p3 p4 p5 T, T <> 0 -> bez_deriv_5_1_chain2 p0 p1 p2 p3 p4 p5 T = bez_deriv_5_1_o2 p0 p1 p2 p3 p4 p5 T.
Proof. exact deriv5_chain2. Qed.

Theorem C18_eval6_bernstein : forall p0 p1 p2 p3 p4 p5 p6 T t, T <> 0 -> bez_eval_6_1 p0 p1 p2 p3 p4 p5 p6 T t = [bernstein [p0; p1; p2; p3; p4; p5; p6] (t / T)].
Proof. exact eval6_bernstein. Qed.

Theorem C18_eval6_endpoints : forall p0 p1 p2 p3 p4 p5 p6 T, T <> 0 -> bez_eval_6_1 p0 p1 p2 p3 p4 p5 p6 T 0 = [p0] /\ bez_eval_6_1 p0 p1 p2 p3 p4 p5 p6 T T = [p6].
Proof. exact eval6_endpoints. Qed.

Theorem C18_eval6_derivative : forall p0 p1 p2 p3 p4 p5 p6 T t, T <> 0 -> is_derive (fun t => nth 0 (bez_eval_6_1 p0 p1 p2 p3 p4 p5 p6 T t) 0) t (nth 0 (bez_eval_5_1_v (bez_deriv_6_1_o1 p0 p1 p2 p3 p4 p5 p6 T) [T] [t]) 0).
Proof. exact eval6_derivative. Qed.

Theorem C18_deriv6_order2_iterates : forall p0 p1 p2 p3 p4 p5 p6 T, T <> 0 -> bez_deriv_6_1_o2 p0 p1 p2 p3 p4 p5 p6 T = bez_deriv_5_1_o1_v (bez_deriv_6_1_o1 p0 p1 p2 p3 p4 p5 p6 T) [T].
Proof. exact deriv6_order2_iterates. Qed.

Theorem C18_deriv6_order3_iterates : forall p0 p1 p2 p3 p4 p5 p6 T, T <> 0 -> bez_deriv_6_1_o3 p0 p1 p2 p3 p4 p5 p6 T = bez_deriv_4_1_o1_v (bez_deriv_6_1_o2 p0 p1 p2 p3 p4 p5 p6 T) [T].
Proof. exact deriv6_order3_iterates. Qed.

Theorem C18_deriv6_order4_iterates : forall p0 p1 p2 p3 p4 p5 p6 T, T <> 0 -> bez_deriv_6_1_o4 p0 p1 p2 p3 p4 p5 p6 T = bez_deriv_3_1_o1_v (bez_deriv_6_1_o3 p0 p1 p2 p3 p4 p5 p6 T) [T].
Proof. exact deriv6_order4_iterates. Qed.

Theorem C18_deriv6_chain2 : forall p0 p1 p2 p3 p4 p5 p6 T, T <> 0 -> bez_deriv_6_1_chain2 p0 p1 p2 p3 p4 p5 p6 T = bez_deriv_6_1_o2 p0 p1 p2 p3 p4 p5 p6 T.
Proof. exact deriv6_chain2. Qed.

Theorem C18_eval7_bernstein : forall p0 p1 p2 p3 p4 p5 p6 p7 T t, T <> 0 -> bez_eval_7_1 p0 p1 p2 p3 p4 p5 p6 p7 T t = [bernstein [p0; p1; p2; p3; p4; p5; p6; p7] (t / T)].
Proof. exact eval7_bernstein. Qed.

Theorem C18_eval7_endpoints : forall p0 p1 p2 p3 p4 p5 p6 p7 T, T <> 0 -> bez_eval_7_1 p0 p1 p2 p3 p4 p5 p6 p7 T 0 = [p0] /\ bez_eval_7_1 p0 p1 p2 p3 p4 p5 p6 p7 T T = [p7].
Proof. exact eval7_endpoints. Qed.

Theorem C18_eval7_derivative : forall p0 p1 p2 p3 p4 p5 p6 p7 T t, T <> 0 -> is_derive (fun t => nth 0 (bez_eval_7_1 p0 p1 p2 p3 p4 p5 p6 p7 T t) 0) t (nth 0 (bez_eval_6_1_v (bez_deriv_7_1_o1 p0 p1 p2 p3 p4 p5 p6 p7 T) [T] [t]) 0).
Proof. exact eval7_derivative. Qed.

Theorem C18_deriv7_order2_iterates : forall p0 p1 p2 p3 p4 p5 p6 p7 T, T <> 0 -> bez_deriv_7_1_o2 p0 p1 p2 p3 p4 p5 p6 p7 T = bez_deriv_6_1_o1_v (bez_deriv_7_1_o1 p0 p1 p2 p3 p4 p5 p6 p7 T) [T].
Proof. exact deriv7_order2_iterates. Qed.

Theorem C18_deriv7_order3_iterates : forall p0 p1 p2 p3 p4 p5 p6 p7 T, T <> 0 -> bez_deriv_7_1_o3 p0 p1 p2 p3 p4 p5 p6 p7 T = bez_deriv_5_1_o1_v (bez_deriv_7_1_o2 p0 p1 p2 p3 p4 p5 p6 p7 T) [T].
Proof. exact deriv7_order3_iterates. Qed.

Theorem C18_deriv7_order4_iterates : forall p0 p1 p2 p3 p4 p5 p6 p7 T, T <> 0 -> bez_deriv_7_1_o4 p0 p1 p2 p3 p4 p5 p6 p7 T = bez_deriv_4_1_o1_v (bez_deriv_7_1_o3 p0 p1 p2 p3 p4 p5 p6 p7 T) [T].
Proof. exact deriv7_order4_iterates. Qed.

Theorem C18_deriv7_chain2 : forall p0 p1 p2 p3 p4 p5 p6 p7 T, T <> 0 -> bez_deriv_7_1_chain2 p0 p1 p2 p3 p4 p5 p6 p7 T = bez_deriv_7_1_o2 p0 p1 p2 p3 p4 p5 p6 p7 T.
Proof. exact deriv7_chain2. Qed.

Theorem C18_eval1_dim3_rows : forall x0 y0 z0 x1 y1 z1 T t, bez_eval_1_3 x0 y0 z0 x1 y1 z1 T t = bez_eval_1_1 x0 x1 T t ++ bez_eval_1_1 y0 y1 T t ++ bez_eval_1_1 z0 z1 T t.
Proof. exact eval1_dim3_rows. Qed.

Theorem C18_deriv1_dim3_rows : forall x0 y0 z0 x1 y1 z1 T, T <> 0 -> forall d i, (d < 3)%nat -> (i < 1)%nat -> nth (d + 3 * i) (bez_deriv_1_3_o1 x0 y0 z0 x1 y1 z1 T) 0 = nth i (nth d [bez_deriv_1_1_o1 x0 x1 T; bez_deriv_1_1_o1 y0 y1 T; bez_deriv_1_1_o1 z0 z1 T] []) 0.
Proof. exact deriv1_dim3_rows. Qed.

Theorem C18_eval2_dim3_rows : forall x0 y0 z0 x1 y1 z1 x2 y2 z2 T t, bez_eval_2_3 x0 y0 z0 x1 y1 z1 x2 y2 z2 T t = bez_eval_2_1 x0 x1 x2 T t ++ bez_eval_2_1 y0 y1 y2 T t ++ bez_eval_2_1 z0 z1 z2 T t.
Proof. exact eval2_dim3_rows. Qed.

Theorem C18_deriv2_dim3_rows : forall x0 y0 z0 x1 y1 z1 x2 y2 z2 T, T <> 0 -> forall d i, (d < 3)%nat -> (i < 2)%nat -> nth (d + 3 * i) (bez_deriv_2_3_o1 x0 y0 z0 x1 y1 z1 x2 y2 z2 T) 0 = nth i (nth d [bez_deriv_2_1_o1 x0 x1 x2 T; bez_deriv_2_1_o1 y0 y1 y2 T; bez_deriv_2_1_o1 z0 z1 z2 T] []) 0.
Proof. exact deriv2_dim3_rows. Qed.

Theorem C18_deriv2_dim3_chain2 : forall x0 y0 z0 x1 y1 z1 x2 y2 z2 T, T <> 0 -> bez_deriv_2_3_chain2 x0 y0 z0 x1 y1 z1 x2 y2 z2 T = bez_deriv_2_3_o2 x0 y0 z0 x1 y1 z1 x2 y2 z2 T.
Proof. exact deriv2_dim3_chain2. Qed.

Theorem C18_eval3_dim3_rows : forall x0 y0 z0 x1 y1 z1 x2 y2 z2 x3 y3 z3 T t, bez_eval_3_3 x0 y0 z0 x1 y1 z1 x2 y2 z2 x3 y3 z3 T t = bez_eval_3_1 x0 x1 x2 x3 T t ++ bez_eval_3_1 y0 y1 y2 y3 T t ++ bez_eval_3_1 z0 z1 z2 z3 T t.
Proof. exact eval3_dim3_rows. Qed.

Theorem C18_deriv3_dim3_rows : forall x0 y0 z0 x1 y1 z1 x2 y2 z2 x3 y3 z3 T, T <> 0 -> forall d i, (d < 3)%nat -> (i < 3)%nat -> nth (d + 3 * i) (bez_deriv_3_3_o1 x0 y0 z0 x1 y1 z1 x2 y2 z2 x3 y3 z3 T) 0 = nth i (nth d [bez_deriv_3_1_o1 x0 x1 x2 x3 T; bez_deriv_3_1_o1 y0 y1 y2 y3 T; bez_deriv_3_1_o1 z0 z1 z2 z3 T] []) 0.
Proof. exact deriv3_dim3_rows. Qed.

Theorem C18_deriv3_dim3_chain2 : forall x0 y0 z0 x1 y1 z1 x2 y2 z2 x3 y3 z3 T, T <> 0 -> bez_deriv_3_3_chain2 x0 y0 z0 x1 y1 z1 x2 y2 z2 x3 y3 z3 T = bez_deriv_3_3_o2 x0 y0 z0 x1 y1 z1 x2 y2 z2 x3 y3 z3 T.
Proof. exact deriv3_dim3_chain2. Qed.


(* boundary-value solvers: the returned control points meet every requested boundary condition *)
Theorem C18_bezier3_boundary : forall a0 a1 b0 b1 T, T <> 0 ->
  let P := bezier3_solve a0 a1 b0 b1 T in
  firstn 2 (bezier3_traj_v [0] [T] P) = [a0; a1] /\ firstn 2 (bezier3_traj_v [T] [T] P) = [b0; b1].
Proof. exact bezier3_boundary. Qed.
Theorem C18_bezier7_boundary : forall a0 a1 a2 a3 b0 b1 b2 b3 T, T <> 0 ->
  let P := bezier7_solve a0 a1 a2 a3 b0 b1 b2 b3 T in
  firstn 4 (bezier7_traj_v [0] [T] P) = [a0; a1; a2; a3] /\ firstn 4 (bezier7_traj_v [T] [T] P) = [b0; b1; b2; b3].
Proof. exact bezier7_boundary. Qed.
(* trajectory outputs are mutually consistent exact derivatives *)
Theorem C18_bezier3_traj_rows : forall p0 p1 p2 p3 T t, T <> 0 ->
  nth 0 (bezier3_traj t T p0 p1 p2 p3) 0 = nth 0 (bez_eval_3_1 p0 p1 p2 p3 T t) 0 /\
  is_derive (fun t => nth 0 (bezier3_traj t T p0 p1 p2 p3) 0) t (nth 1 (bezier3_traj t T p0 p1 p2 p3) 0) /\
  is_derive (fun t => nth 1 (bezier3_traj t T p0 p1 p2 p3) 0) t (nth 2 (bezier3_traj t T p0 p1 p2 p3) 0).
Proof. exact bezier3_traj_rows. Qed.
Theorem C18_bezier7_traj_rows : forall p0 p1 p2 p3 p4 p5 p6 p7 T t, T <> 0 ->
  nth 0 (bezier7_traj t T p0 p1 p2 p3 p4 p5 p6 p7) 0 = nth 0 (bez_eval_7_1 p0 p1 p2 p3 p4 p5 p6 p7 T t) 0 /\
  is_derive (fun t => nth 0 (bezier7_traj t T p0 p1 p2 p3 p4 p5 p6 p7) 0) t (nth 1 (bezier7_traj t T p0 p1 p2 p3 p4 p5 p6 p7) 0) /\
  is_derive (fun t => nth 1 (bezier7_traj t T p0 p1 p2 p3 p4 p5 p6 p7) 0) t (nth 2 (bezier7_traj t T p0 p1 p2 p3 p4 p5 p6 p7) 0) /\
  is_derive (fun t => nth 2 (bezier7_traj t T p0 p1 p2 p3 p4 p5 p6 p7) 0) t (nth 3 (bezier7_traj t T p0 p1 p2 p3 p4 p5 p6 p7) 0) /\
  is_derive (fun t => nth 3 (bezier7_traj t T p0 p1 p2 p3 p4 p5 p6 p7) 0) t (nth 4 (bezier7_traj t T p0 p1 p2 p3 p4 p5 p6 p7) 0).
Proof. exact bezier7_traj_rows. Qed.
Theorem C18_multirotor_is_stack : forall t T x0 x1 x2 x3 x4 x5 x6 x7 y0 y1 y2 y3 y4 y5 y6 y7 z0 z1 z2 z3 z4 z5 z6 z7 s0 s1 s2 s3,
  let X := bezier7_traj t T x0 x1 x2 x3 x4 x5 x6 x7 in
  let Y := bezier7_traj t T y0 y1 y2 y3 y4 y5 y6 y7 in
  let Z := bezier7_traj t T z0 z1 z2 z3 z4 z5 z6 z7 in
  let S := bezier3_traj t T s0 s1 s2 s3 in
  bezier_multirotor t T x0 x1 x2 x3 x4 x5 x6 x7 y0 y1 y2 y3 y4 y5 y6 y7 z0 z1 z2 z3 z4 z5 z6 z7 s0 s1 s2 s3 =
  [nth 0 X 0; nth 0 Y 0; nth 0 Z 0; nth 0 S 0; nth 1 S 0; nth 2 S 0;
   nth 1 X 0; nth 1 Y 0; nth 1 Z 0; nth 2 X 0; nth 2 Y 0; nth 2 Z 0;
   nth 3 X 0; nth 3 Y 0; nth 3 Z 0; nth 4 X 0; nth 4 Y 0; nth 4 Z 0].
Proof. exact multirotor_is_stack. Qed.

Print Assumptions C18_eval1_bernstein.
Print Assumptions C18_eval1_endpoints.
Print Assumptions C18_eval1_derivative.
Print Assumptions C18_eval2_bernstein.
Print Assumptions C18_eval2_endpoints.
Print Assumptions C18_eval2_derivative.
Print Assumptions C18_deriv2_order2_iterates.
Print Assumptions C18_deriv2_chain2.
Print Assumptions C18_eval3_bernstein.
Print Assumptions C18_eval3_endpoints.
Print Assumptions C18_eval3_derivative.
Print Assumptions C18_deriv3_order2_iterates.
Print Assumptions C18_deriv3_order3_iterates.
Print Assumptions C18_deriv3_chain2.
Print Assumptions C18_eval4_bernstein.
Print Assumptions C18_eval4_endpoints.
Print Assumptions C18_eval4_derivative.
Print Assumptions C18_deriv4_order2_iterates.
Print Assumptions C18_deriv4_order3_iterates.
Print Assumptions C18_deriv4_order4_iterates.
Print Assumptions C18_deriv4_chain2.
Print Assumptions C18_eval5_bernstein.
Print Assumptions C18_eval5_endpoints.
Print Assumptions C18_eval5_derivative.
Print Assumptions C18_deriv5_order2_iterates.
Print Assumptions C18_deriv5_order3_iterates.
Print Assumptions C18_deriv5_order4_iterates.
Print Assumptions C18_deriv5_chain2.
Print Assumptions C18_eval6_bernstein.
Print Assumptions C18_eval6_endpoints.
Print Assumptions C18_eval6_derivative.
Print Assumptions C18_deriv6_order2_iterates.
Print Assumptions C18_deriv6_order3_iterates.
Print Assumptions C18_deriv6_order4_iterates.
Print Assumptions C18_deriv6_chain2.
Print Assumptions C18_eval7_bernstein.
Print Assumptions C18_eval7_endpoints.
Print Assumptions C18_eval7_derivative.
Print Assumptions C18_deriv7_order2_iterates.
Print Assumptions C18_deriv7_order3_iterates.
Print Assumptions C18_deriv7_order4_iterates.
Print Assumptions C18_deriv7_chain2.
Print Assumptions C18_eval1_dim3_rows.
Print Assumptions C18_deriv1_dim3_rows.
Print Assumptions C18_eval2_dim3_rows.
Print Assumptions C18_deriv2_dim3_rows.
Print Assumptions C18_deriv2_dim3_chain2.
Print Assumptions C18_eval3_dim3_rows.
Print Assumptions C18_deriv3_dim3_rows.
Print Assumptions C18_deriv3_dim3_chain2.
Print Assumptions C18_bezier3_boundary.
Print Assumptions C18_bezier7_boundary.
Print Assumptions C18_bezier3_traj_rows.
Print Assumptions C18_bezier7_traj_rows.
Print Assumptions C18_multirotor_is_stack.
