(* C01 -- group axioms under the matrix representation, on the model regenerated from cyecca/lie.
   Group elements are parameter lists; matrices are dense column-major lists (Spec/Mat.v).
   hom_law r prod toM valid  :=  forall a b, valid a -> valid b -> toM (prod a b) = mmul r r r (toM a) (toM b)
   inv_law, id_law, id_param_law: Spec/Mat.v.  proper_rotation: Spec/Rot.v. *)
From Coq Require Import Reals List Lra.
From Cyecca Require Import Base.Ops Spec.Mat Spec.Rot Spec.Semidirect
  Gen.SO2 Gen.SE2 Gen.Rn Gen.SO3Quat Gen.SO3Mrp Gen.SO3Dcm Gen.SO3Euler Gen.SE3Quat Gen.SE3Mrp Gen.SE23Quat Gen.SE23Mrp
  Proofs.C01_planar Proofs.C01_SO3Quat Proofs.C01_SO3Mrp Proofs.C01_SO3Dcm Proofs.C01_DcmClosure Proofs.C01_SO3Euler Proofs.C01_SO3EulerClosure Proofs.C01_SE3 Proofs.Shepperd Proofs.Conv.
Import ListNotations.
Local Open Scope R_scope.

(* ---- SO(2), SE(2), R^n ---- *)
Theorem C01_SO2_hom : hom_law 2 SO2_product_v SO2_to_Matrix_v (len 1).  Proof. exact SO2_hom. Qed.
Theorem C01_SO2_inv : inv_law 2 SO2_inverse_v SO2_to_Matrix_v (len 1).  Proof. exact SO2_inv. Qed.
Theorem C01_SO2_id : id_law 2 SO2_product_v SO2_identity_v SO2_to_Matrix_v (len 1).  Proof. exact SO2_id. Qed.
Theorem C01_SO2_assoc : forall a b c, len 1 a -> len 1 b -> len 1 c ->
  SO2_product_v (SO2_product_v a b) c = SO2_product_v a (SO2_product_v b c).  Proof. exact SO2_assoc_param. Qed.
Theorem C01_SO2_from_Matrix : forall a, len 1 a ->
  SO2_to_Matrix_v (SO2_from_Matrix_v (SO2_to_Matrix_v a)) = SO2_to_Matrix_v a.  Proof. exact SO2_fromM. Qed.
Theorem C01_SE2_hom : hom_law 3 SE2_product_v SE2_to_Matrix_v (len 3).  Proof. exact SE2_hom. Qed.
Theorem C01_SE2_inv : inv_law 3 SE2_inverse_v SE2_to_Matrix_v (len 3).  Proof. exact SE2_inv. Qed.
Theorem C01_SE2_id : id_law 3 SE2_product_v SE2_identity_v SE2_to_Matrix_v (len 3).  Proof. exact SE2_id. Qed.
Theorem C01_SE2_assoc : forall a b c, len 3 a -> len 3 b -> len 3 c ->
  SE2_product_v (SE2_product_v a b) c = SE2_product_v a (SE2_product_v b c).  Proof. exact SE2_assoc_param. Qed.
Theorem C01_SE2_from_Matrix : forall a, len 3 a ->
  SE2_to_Matrix_v (SE2_from_Matrix_v (SE2_to_Matrix_v a)) = SE2_to_Matrix_v a.  Proof. exact SE2_fromM. Qed.
Theorem C01_R2_hom : hom_law 3 R2_product_v R2_to_Matrix_v (len 2).  Proof. exact R2_hom. Qed.
Theorem C01_R2_inv : inv_law 3 R2_inverse_v R2_to_Matrix_v (len 2).  Proof. exact R2_inv. Qed.
Theorem C01_R2_id : id_law 3 R2_product_v R2_identity_v R2_to_Matrix_v (len 2).  Proof. exact R2_id. Qed.
Theorem C01_R3_hom : hom_law 4 R3_product_v R3_to_Matrix_v (len 3).  Proof. exact R3_hom. Qed.
Theorem C01_R3_inv : inv_law 4 R3_inverse_v R3_to_Matrix_v (len 3).  Proof. exact R3_inv. Qed.
Theorem C01_R3_id : id_law 4 R3_product_v R3_identity_v R3_to_Matrix_v (len 3).  Proof. exact R3_id. Qed.
Theorem C01_R3_assoc : forall a b c, len 3 a -> len 3 b -> len 3 c ->
  R3_product_v (R3_product_v a b) c = R3_product_v a (R3_product_v b c).  Proof. exact R3_assoc_param. Qed.

(* ---- SO(3), quaternion: unit quaternions of either sign ---- *)
Theorem C01_SO3Quat_hom : hom_law 3 SO3Quat_product_v SO3Quat_to_Matrix_v len4.  Proof. exact quat_hom. Qed.
Theorem C01_SO3Quat_inv : inv_law 3 SO3Quat_inverse_v SO3Quat_to_Matrix_v unitq.  Proof. exact quat_inv. Qed.
Theorem C01_SO3Quat_id : id_law 3 SO3Quat_product_v SO3Quat_identity_v SO3Quat_to_Matrix_v len4.  Proof. exact quat_id. Qed.
Theorem C01_SO3Quat_id_param : id_param_law SO3Quat_product_v SO3Quat_identity_v len4.  Proof. exact quat_id_param. Qed.
Theorem C01_SO3Quat_closed : closed_law SO3Quat_product_v SO3Quat_inverse_v unitq.  Proof. exact quat_closed. Qed.
Theorem C01_SO3Quat_assoc : forall a b c, len4 a -> len4 b -> len4 c ->
  SO3Quat_product_v (SO3Quat_product_v a b) c = SO3Quat_product_v a (SO3Quat_product_v b c).  Proof. exact quat_assoc_param. Qed.
Theorem C01_SO3Quat_matrix_is_rotation : forall q, unitq q -> proper_rotation (SO3Quat_to_Matrix_v q).
Proof. exact quat_matrix_proper. Qed.
Theorem C01_SO3Quat_sign : forall q, len4 q -> SO3Quat_to_Matrix_v (map Ropp q) = SO3Quat_to_Matrix_v q.
Proof. exact quat_sign. Qed.
(* matrix -> quaternion: right inverse on EVERY proper rotation matrix (all four Shepperd branches), unit result *)
Theorem C01_SO3Quat_from_Matrix : forall M, proper_rotation M ->
  SO3Quat_to_Matrix_v (SO3Quat_from_Matrix_v M) = M /\ norm2 (SO3Quat_from_Matrix_v M) = 1
  /\ length (SO3Quat_from_Matrix_v M) = 4%nat /\ -1 < nth 0 (SO3Quat_from_Matrix_v M) 0.
Proof. exact from_Matrix_right_inverse. Qed.

(* ---- SO(3), MRP: inside and outside the unit ball, away from the 360-degree product singularity ---- *)
Theorem C01_SO3Mrp_hom : forall a b, len3 a -> len3 b -> mrp_den a b <> 0 ->
  SO3Mrp_to_Matrix_v (SO3Mrp_product_v a b) = mmul 3 3 3 (SO3Mrp_to_Matrix_v a) (SO3Mrp_to_Matrix_v b).
Proof. exact mrp_hom. Qed.
Theorem C01_SO3Mrp_inv : inv_law 3 SO3Mrp_inverse_v SO3Mrp_to_Matrix_v len3.  Proof. exact mrp_inv. Qed.
Theorem C01_SO3Mrp_id : id_law 3 SO3Mrp_product_v SO3Mrp_identity_v SO3Mrp_to_Matrix_v len3.  Proof. exact mrp_id. Qed.
Theorem C01_SO3Mrp_id_param : id_param_law SO3Mrp_product_v SO3Mrp_identity_v len3.  Proof. exact mrp_id_param. Qed.
Theorem C01_SO3Mrp_assoc : forall a b c, len3 a -> len3 b -> len3 c ->
  mrp_den a b <> 0 -> mrp_den (SO3Mrp_product_v a b) c <> 0 -> mrp_den b c <> 0 -> mrp_den a (SO3Mrp_product_v b c) <> 0 ->
  SO3Mrp_to_Matrix_v (SO3Mrp_product_v (SO3Mrp_product_v a b) c) = SO3Mrp_to_Matrix_v (SO3Mrp_product_v a (SO3Mrp_product_v b c)).
Proof. exact mrp_assoc. Qed.
Theorem C01_SO3Mrp_matrix_is_rotation : forall r, len3 r -> proper_rotation (SO3Mrp_to_Matrix_v r).
Proof. exact mrp_matrix_proper. Qed.
Theorem C01_SO3Mrp_from_Matrix : forall M, proper_rotation M ->
  SO3Mrp_to_Matrix_v (SO3Mrp_from_Matrix_v M) = M /\ norm2 (SO3Mrp_from_Matrix_v M) <= 1.
Proof. exact mrp_from_Matrix_right_inverse. Qed.

(* ---- SO(3), DCM: orthonormal matrices ---- *)
Theorem C01_SO3Dcm_hom : hom_law 3 SO3Dcm_product_v SO3Dcm_to_Matrix_v len9.  Proof. exact dcm_hom. Qed.
Theorem C01_SO3Dcm_inv : inv_law 3 SO3Dcm_inverse_v SO3Dcm_to_Matrix_v proper_rotation.  Proof. exact dcm_inv. Qed.
Theorem C01_SO3Dcm_id : id_law 3 SO3Dcm_product_v SO3Dcm_identity_v SO3Dcm_to_Matrix_v len9.  Proof. exact dcm_id. Qed.
Theorem C01_SO3Dcm_id_param : id_param_law SO3Dcm_product_v SO3Dcm_identity_v len9.  Proof. exact dcm_id_param. Qed.
Theorem C01_SO3Dcm_identity_is_rotation : proper_rotation SO3Dcm_identity_v.  Proof. exact dcm_identity_proper. Qed.
Theorem C01_SO3Dcm_inverse_is_rotation : forall a, proper_rotation a -> proper_rotation (SO3Dcm_inverse_v a).
Proof. exact dcm_inverse_proper. Qed.
(* closure: the DCM product of two proper rotations is a proper rotation (orthonormal, det = 1) *)
Theorem C01_SO3Dcm_product_is_rotation : forall a b, proper_rotation a -> proper_rotation b ->
  proper_rotation (SO3Dcm_product_v a b).
Proof. exact dcm_product_proper. Qed.
Theorem C01_SO3Dcm_assoc : forall a b c, len9 a -> len9 b -> len9 c ->
  SO3Dcm_product_v (SO3Dcm_product_v a b) c = SO3Dcm_product_v a (SO3Dcm_product_v b c).  Proof. exact dcm_assoc_param. Qed.
Theorem C01_SO3Dcm_from_Matrix : forall a, len9 a -> SO3Dcm_from_Matrix_v (SO3Dcm_to_Matrix_v a) = a.
Proof. exact dcm_fromM. Qed.

(* ---- SO(3), Euler angles (3-2-1): the group operations go through the rotation matrices, for all angles ---- *)
Theorem C01_SO3Euler_identity_matrix : SO3Euler_to_Matrix_v SO3Euler_identity_v = mid 3.
Proof. exact euler_identity_matrix. Qed.
Theorem C01_SO3Euler_product_through_matrices : forall a b, length a = 3%nat -> length b = 3%nat ->
  SO3Euler_product_v a b = SO3Euler_from_Matrix_v (mmul 3 3 3 (SO3Euler_to_Matrix_v a) (SO3Euler_to_Matrix_v b)).
Proof. exact euler_product_through_matrices. Qed.
Theorem C01_SO3Euler_inverse_through_matrices : forall a, length a = 3%nat ->
  SO3Euler_inverse_v a = SO3Euler_from_Matrix_v (mtrans 3 3 (SO3Euler_to_Matrix_v a)).
Proof. exact euler_inverse_through_matrices. Qed.
(* ... and those matrices are proper rotations for all angle triples (closure under product and transpose) *)
Theorem C01_proper_rotation_product_closed : forall a b, proper_rotation a -> proper_rotation b -> proper_rotation (mmul 3 3 3 a b).
Proof. exact mmul_proper. Qed.
Theorem C01_SO3Euler_product_matrix_is_rotation : forall a b, length a = 3%nat -> length b = 3%nat ->
  proper_rotation (mmul 3 3 3 (SO3Euler_to_Matrix_v a) (SO3Euler_to_Matrix_v b)).
Proof. exact euler_product_matrix_proper. Qed.
Theorem C01_SO3Euler_inverse_matrix_is_rotation : forall a, length a = 3%nat ->
  proper_rotation (mtrans 3 3 (SO3Euler_to_Matrix_v a)).
Proof. exact euler_inverse_matrix_proper. Qed.


(* ---- SE(3), SE_2(3): every SO(3) parameterisation plugged in (generic semidirect theorem) ---- *)
Theorem C01_semidirect_SE3_generic :
  forall (prodR : list R -> list R -> list R) (toM : list R -> list R) (validR : list R -> Prop),
  (forall x, validR x -> length (toM x) = 9%nat) ->
  forall a b, se3_valid validR a -> se3_valid validR b ->
  toM (prodR (se3_R a) (se3_R b)) = mmul 3 3 3 (toM (se3_R a)) (toM (se3_R b)) ->
  se3_toM toM (se3_prod prodR toM a b) = mmul 4 4 4 (se3_toM toM a) (se3_toM toM b).
Proof. exact se3_hom. Qed.
Theorem C01_semidirect_SE23_generic :
  forall (prodR : list R -> list R -> list R) (toM : list R -> list R) (validR : list R -> Prop),
  (forall x, validR x -> length (toM x) = 9%nat) ->
  forall a b, se23_valid validR a -> se23_valid validR b ->
  toM (prodR (se23_R a) (se23_R b)) = mmul 3 3 3 (toM (se23_R a)) (toM (se23_R b)) ->
  se23_toM toM (se23_prod prodR toM a b) = mmul 5 5 5 (se23_toM toM a) (se23_toM toM b).
Proof. exact se23_hom. Qed.
Theorem C01_SE3Quat_hom : forall a b, length a = 7%nat -> length b = 7%nat ->
  SE3Quat_to_Matrix_v (SE3Quat_product_v a b) = mmul 4 4 4 (SE3Quat_to_Matrix_v a) (SE3Quat_to_Matrix_v b).
Proof. exact SE3Quat_hom. Qed.
Theorem C01_SE3Mrp_hom : forall a b, length a = 6%nat -> length b = 6%nat -> mrp_den (skipn 3 a) (skipn 3 b) <> 0 ->
  SE3Mrp_to_Matrix_v (SE3Mrp_product_v a b) = mmul 4 4 4 (SE3Mrp_to_Matrix_v a) (SE3Mrp_to_Matrix_v b).
Proof. exact SE3Mrp_hom. Qed.
Theorem C01_SE23Quat_hom : forall a b, length a = 10%nat -> length b = 10%nat ->
  SE23Quat_to_Matrix_v (SE23Quat_product_v a b) = mmul 5 5 5 (SE23Quat_to_Matrix_v a) (SE23Quat_to_Matrix_v b).
Proof. exact SE23Quat_hom. Qed.
Theorem C01_SE23Mrp_hom : forall a b, length a = 9%nat -> length b = 9%nat -> mrp_den (skipn 6 a) (skipn 6 b) <> 0 ->
  SE23Mrp_to_Matrix_v (SE23Mrp_product_v a b) = mmul 5 5 5 (SE23Mrp_to_Matrix_v a) (SE23Mrp_to_Matrix_v b).
Proof. exact SE23Mrp_hom. Qed.
Theorem C01_SE3Quat_inv : inv_law 4 SE3Quat_inverse_v SE3Quat_to_Matrix_v unit7.  Proof. exact SE3Quat_inv. Qed.
Theorem C01_SE23Quat_inv : inv_law 5 SE23Quat_inverse_v SE23Quat_to_Matrix_v unit10.  Proof. exact SE23Quat_inv. Qed.

(* non-vacuity: the guards are inhabited by non-trivial elements *)
Example C01_guards_inhabited :
  unitq [3/5; 0; -4/5; 0] /\ len3 [1/2; -3; 2] /\ mrp_den [1/2; -3; 2] [0; 1; 1] <> 0 /\ proper_rotation (SO3Quat_to_Matrix_v [3/5; 0; -4/5; 0]).
Proof.
  assert (U : unitq [3/5; 0; -4/5; 0]) by (split; [reflexivity | unfold norm2, dot; simpl; lra]).
  split; [exact U|]. split; [reflexivity|]. split; [unfold mrp_den, norm2, dot; simpl; lra | apply quat_matrix_proper, U].
Qed.
Print Assumptions C01_SO2_hom.
Print Assumptions C01_SO2_inv.
Print Assumptions C01_SO2_id.
Print Assumptions C01_SO2_assoc.
Print Assumptions C01_SO2_from_Matrix.
Print Assumptions C01_SE2_hom.
Print Assumptions C01_SE2_inv.
Print Assumptions C01_SE2_id.
Print Assumptions C01_SE2_assoc.
Print Assumptions C01_SE2_from_Matrix.
Print Assumptions C01_R2_hom.
Print Assumptions C01_R2_inv.
Print Assumptions C01_R2_id.
Print Assumptions C01_R3_hom.
Print Assumptions C01_R3_inv.
Print Assumptions C01_R3_id.
Print Assumptions C01_R3_assoc.
Print Assumptions C01_SO3Quat_hom.
Print Assumptions C01_SO3Quat_inv.
Print Assumptions C01_SO3Quat_id.
Print Assumptions C01_SO3Quat_id_param.
Print Assumptions C01_SO3Quat_closed.
Print Assumptions C01_SO3Quat_assoc.
Print Assumptions C01_SO3Quat_matrix_is_rotation.
Print Assumptions C01_SO3Quat_sign.
Print Assumptions C01_SO3Quat_from_Matrix.
Print Assumptions C01_SO3Mrp_hom.
Print Assumptions C01_SO3Mrp_inv.
Print Assumptions C01_SO3Mrp_id.
Print Assumptions C01_SO3Mrp_id_param.
Print Assumptions C01_SO3Mrp_assoc.
Print Assumptions C01_SO3Mrp_matrix_is_rotation.
Print Assumptions C01_SO3Mrp_from_Matrix.
Print Assumptions C01_SO3Dcm_hom.
Print Assumptions C01_SO3Dcm_inv.
Print Assumptions C01_SO3Dcm_id.
Print Assumptions C01_SO3Dcm_id_param.
Print Assumptions C01_SO3Dcm_identity_is_rotation.
Print Assumptions C01_SO3Dcm_inverse_is_rotation.
Print Assumptions C01_SO3Dcm_product_is_rotation.
Print Assumptions C01_SO3Dcm_assoc.
Print Assumptions C01_SO3Dcm_from_Matrix.
Print Assumptions C01_SO3Euler_identity_matrix.
Print Assumptions C01_SO3Euler_product_through_matrices.
Print Assumptions C01_SO3Euler_inverse_through_matrices.
Print Assumptions C01_proper_rotation_product_closed.
Print Assumptions C01_SO3Euler_product_matrix_is_rotation.
Print Assumptions C01_SO3Euler_inverse_matrix_is_rotation.
Print Assumptions C01_semidirect_SE3_generic.
Print Assumptions C01_semidirect_SE23_generic.
Print Assumptions C01_SE3Quat_hom.
Print Assumptions C01_SE3Mrp_hom.
Print Assumptions C01_SE23Quat_hom.
Print Assumptions C01_SE23Mrp_hom.
Print Assumptions C01_SE3Quat_inv.
Print Assumptions C01_SE23Quat_inv.
