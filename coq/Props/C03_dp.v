(* C03 -- direct products built with `*`: DPa = SO3Mrp*R3 (the estimator's state group), DPb = (SO3Quat*R3)*SO2, DPc = SE2*(SO2*R2),
   DPd = SO3Dcm*R2, DPe = SO3Quat*SO3Mrp (the same non-abelian algebra twice), DPf = SE2*SE2.  Units regenerated from
   cyecca/lie/direct_product.py; each statement says the product's unit is the factor-wise composition of the factor units
   (parameter slices: group sizes on the group side, algebra sizes on the algebra side). *)
From Coq Require Import Reals List Lra.
From Cyecca Require Import Base.Ops Spec.Mat Gen.SO2 Gen.SE2 Gen.Rn Gen.so3 Gen.SO3Quat Gen.SO3Mrp Gen.SO3Dcm Gen.DP Proofs.DP.
Import ListNotations.
Local Open Scope R_scope.

Theorem C03_DPa_log_factorwise : forall a0_0 a0_1 a0_2 a1_0 a1_1 a1_2, DPa_log a0_0 a0_1 a0_2 a1_0 a1_1 a1_2 = SO3Mrp_log a0_0 a0_1 a0_2 ++ R3_log a1_0 a1_1 a1_2.
Proof. exact DPa_log_factorwise. Qed.
Theorem C03_DPb_log_factorwise : forall a0_0 a0_1 a0_2 a0_3 a1_0 a1_1 a1_2 a2_0, DPb_log a0_0 a0_1 a0_2 a0_3 a1_0 a1_1 a1_2 a2_0 = SO3Quat_log a0_0 a0_1 a0_2 a0_3 ++ R3_log a1_0 a1_1 a1_2 ++ SO2_log a2_0.
Proof. exact DPb_log_factorwise. Qed.
Theorem C03_DPc_log_factorwise : forall a0_0 a0_1 a0_2 a1_0 a2_0 a2_1, DPc_log a0_0 a0_1 a0_2 a1_0 a2_0 a2_1 = SE2_log a0_0 a0_1 a0_2 ++ SO2_log a1_0 ++ R2_log a2_0 a2_1.
Proof. exact DPc_log_factorwise. Qed.
Theorem C03_DPd_log_factorwise : forall a0_0 a0_1 a0_2 a0_3 a0_4 a0_5 a0_6 a0_7 a0_8 a1_0 a1_1, DPd_log a0_0 a0_1 a0_2 a0_3 a0_4 a0_5 a0_6 a0_7 a0_8 a1_0 a1_1 = SO3Dcm_log a0_0 a0_1 a0_2 a0_3 a0_4 a0_5 a0_6 a0_7 a0_8 ++ R2_log a1_0 a1_1.
Proof. exact DPd_log_factorwise. Qed.
Theorem C03_DPe_log_factorwise : forall a0_0 a0_1 a0_2 a0_3 a1_0 a1_1 a1_2, DPe_log a0_0 a0_1 a0_2 a0_3 a1_0 a1_1 a1_2 = SO3Quat_log a0_0 a0_1 a0_2 a0_3 ++ SO3Mrp_log a1_0 a1_1 a1_2.
Proof. exact DPe_log_factorwise. Qed.
Theorem C03_DPf_log_factorwise : forall a0_0 a0_1 a0_2 a1_0 a1_1 a1_2, DPf_log a0_0 a0_1 a0_2 a1_0 a1_1 a1_2 = SE2_log a0_0 a0_1 a0_2 ++ SE2_log a1_0 a1_1 a1_2.
Proof. exact DPf_log_factorwise. Qed.

Print Assumptions C03_DPa_log_factorwise.
Print Assumptions C03_DPb_log_factorwise.
Print Assumptions C03_DPc_log_factorwise.
Print Assumptions C03_DPd_log_factorwise.
Print Assumptions C03_DPe_log_factorwise.
Print Assumptions C03_DPf_log_factorwise.
