(* C15 -- controller saturations and error laws on the model regenerated from cyecca/models/rdd2.py *)
From Coq Require Import Reals List Lra.
From Cyecca Require Import Base.Ops Spec.Mat Gen.Rdd2 Gen.SO3Quat Proofs.C15.
Import ListNotations.
Local Open Scope R_scope.

(* rate loop; outputs M[0:3], i1[3:6], e1[6:9], de1[9:12], alpha[12] *)
Theorem C15_rate_integrator_bounded : forall kp0 kp1 kp2 ki0 ki1 ki2 kd0 kd1 kd2 fc im0 im1 im2 w0 w1 w2 wr0 wr1 wr2 i00 i01 i02 e00 e01 e02 de00 de01 de02 dt,
  0 <= im0 -> 0 <= im1 -> 0 <= im2 ->
  rdd2_attitude_rate_control_wp kp0 kp1 kp2 ki0 ki1 ki2 kd0 kd1 kd2 fc im0 im1 im2 w0 w1 w2 wr0 wr1 wr2 i00 i01 i02 e00 e01 e02 de00 de01 de02 dt
    (fun r => - im0 <= nth 3 r 0 <= im0 /\ - im1 <= nth 4 r 0 <= im1 /\ - im2 <= nth 5 r 0 <= im2).
Proof. exact rate_integrator_bounded. Qed.
Theorem C15_rate_filter_coefficient : forall kp0 kp1 kp2 ki0 ki1 ki2 kd0 kd1 kd2 fc im0 im1 im2 w0 w1 w2 wr0 wr1 wr2 i00 i01 i02 e00 e01 e02 de00 de01 de02 dt,
  0 < dt * fc ->
  0 < nth 12 (rdd2_attitude_rate_control kp0 kp1 kp2 ki0 ki1 ki2 kd0 kd1 kd2 fc im0 im1 im2 w0 w1 w2 wr0 wr1 wr2 i00 i01 i02 e00 e01 e02 de00 de01 de02 dt) 0 < 1.
Proof. exact rate_filter_coefficient. Qed.
Theorem C15_rate_law : forall kp0 kp1 kp2 ki0 ki1 ki2 kd0 kd1 kd2 fc im0 im1 im2 w0 w1 w2 wr0 wr1 wr2 i00 i01 i02 e00 e01 e02 de00 de01 de02 dt,
  let r := rdd2_attitude_rate_control kp0 kp1 kp2 ki0 ki1 ki2 kd0 kd1 kd2 fc im0 im1 im2 w0 w1 w2 wr0 wr1 wr2 i00 i01 i02 e00 e01 e02 de00 de01 de02 dt in
  [nth 6 r 0; nth 7 r 0; nth 8 r 0] = [wr0 - w0; wr1 - w1; wr2 - w2] /\
  [nth 0 r 0; nth 1 r 0; nth 2 r 0] =
  [kp0 * nth 6 r 0 + ki0 * nth 3 r 0 + kd0 * nth 9 r 0; kp1 * nth 7 r 0 + ki1 * nth 4 r 0 + kd1 * nth 10 r 0; kp2 * nth 8 r 0 + ki2 * nth 5 r 0 + kd2 * nth 11 r 0] /\
  (dt <> 0 -> [nth 9 r 0; nth 10 r 0; nth 11 r 0] =
     [nth 12 r 0 * ((nth 6 r 0 - e00) / dt) + (1 - nth 12 r 0) * de00;
      nth 12 r 0 * ((nth 7 r 0 - e01) / dt) + (1 - nth 12 r 0) * de01;
      nth 12 r 0 * ((nth 8 r 0 - e02) / dt) + (1 - nth 12 r 0) * de02]).
Proof. exact rate_law. Qed.
(* the integrator bound is an invariant of arbitrarily long runs (g: gains and limits, us: any input sequence) *)
Theorem C15_rate_loop_invariant : forall g us st, 0 <= nth 10 g 0 -> 0 <= nth 11 g 0 -> 0 <= nth 12 g 0 ->
  int_in_box g st -> int_in_box g (fold_left (rate_step g) us st).
Proof. exact rate_loop_invariant. Qed.

(* stick inputs *)
Theorem C15_acro_linear : forall tt td a e t r,
  rdd2_input_acro tt td a e t r =
  [(4716158501352293 / 4503599627370496) * a; (4716158501352293 / 4503599627370496) * e; (4716158501352293 / 4503599627370496) * r; t * td + tt].
Proof. exact acro_linear. Qed.
Theorem C15_acro_bounded : forall tt td a e t r, -1 <= a <= 1 -> -1 <= e <= 1 -> -1 <= t <= 1 -> -1 <= r <= 1 -> 0 <= td ->
  let o := rdd2_input_acro tt td a e t r in
  Rabs (nth 0 o 0) <= 4716158501352293 / 4503599627370496 /\ Rabs (nth 1 o 0) <= 4716158501352293 / 4503599627370496 /\
  Rabs (nth 2 o 0) <= 4716158501352293 / 4503599627370496 /\ tt - td <= nth 3 o 0 <= tt + td.
Proof. exact acro_bounded. Qed.

(* velocity-mode input; outputs psi_sp1[0], psi_vel_sp[1], pw_sp1[2:5], ...; INF: the folded infinite constant (any real) *)
Theorem C15_velocity_yaw_range : forall INF dt psi p0 p1 p2 w0 w1 w2 a e t r rst,
  - PI <= nth 0 (rdd2_input_velocity INF dt psi p0 p1 p2 w0 w1 w2 a e t r rst) 0 <= PI.
Proof. exact velocity_yaw_range. Qed.
Theorem C15_velocity_leash : forall INF dt psi p0 p1 p2 w0 w1 w2 a e t r rst,
  rdd2_input_velocity_wp INF dt psi p0 p1 p2 w0 w1 w2 a e t r rst (fun o =>
    (nth 2 o 0 - w0) * (nth 2 o 0 - w0) + (nth 3 o 0 - w1) * (nth 3 o 0 - w1) + (nth 4 o 0 - w2) * (nth 4 o 0 - w2) <= 2 * 2).
Proof. exact velocity_leash. Qed.
Theorem C15_velocity_reset : forall INF dt psi p0 p1 p2 w0 w1 w2 a e t r rst, rst <> 0 ->
  let o := rdd2_input_velocity INF dt psi p0 p1 p2 w0 w1 w2 a e t r rst in
  [nth 2 o 0; nth 3 o 0; nth 4 o 0] = [w0; w1; w2].
Proof. exact velocity_reset. Qed.

(* attitude P-law: gains times the rotation vector log(q^-1 q_r) computed by the SO3Quat units *)
Theorem C15_attitude_control_law : forall k0 k1 k2 q0 q1 q2 q3 r0 r1 r2 r3,
  let e := SO3Quat_log_v (SO3Quat_product_v (SO3Quat_inverse_v [q0; q1; q2; q3]) [r0; r1; r2; r3]) in
  rdd2_attitude_control k0 k1 k2 q0 q1 q2 q3 r0 r1 r2 r3 = [k0 * nth 0 e 0; k1 * nth 1 e 0; k2 * nth 2 e 0].
Proof. exact attitude_control_law. Qed.
Print Assumptions C15_rate_integrator_bounded.
Print Assumptions C15_rate_filter_coefficient.
Print Assumptions C15_rate_law.
Print Assumptions C15_rate_loop_invariant.
Print Assumptions C15_acro_linear.
Print Assumptions C15_acro_bounded.
Print Assumptions C15_velocity_yaw_range.
Print Assumptions C15_velocity_leash.
Print Assumptions C15_velocity_reset.
Print Assumptions C15_attitude_control_law.
