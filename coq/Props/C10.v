(* C10 -- filter numerics on instances regenerated from cyecca/util.py.
   ldl_ok n f   : for the packed symmetric input P (n(n+1)/2 entries) with non-zero pivots, L D L^T (resp. U D U^T) = P
   cov_ok n f   : W' W^T + W W'^T = F P + P F^T + Q with P = W W^T, and W' lower triangular (diag W non-zero)
   corr_ok n m f: Ss Ss^T = H P H^T + Rs Rs^T,  K (Ss Ss^T) = P H^T,  Wp Wp^T = (I - K H) P  (QR pivots non-zero)
   definitions in Proofs/C10_*.v and Spec/Mat.v *)
From Coq Require Import Reals List Lra.
From Cyecca Require Import Base.Ops Spec.Mat Gen.Util Proofs.C10_ldl Proofs.C10_rk4 Proofs.C10_cov Proofs.C10_corr.
Import ListNotations.
Local Open Scope R_scope.

Theorem C10_ldl_1 : ldl_ok 1 ldl_1_v.  Proof. exact ldl_1_ok. Qed.
Theorem C10_ldl_2 : ldl_ok 2 ldl_2_v.  Proof. exact ldl_2_ok. Qed.
Theorem C10_ldl_3 : ldl_ok 3 ldl_3_v.  Proof. exact ldl_3_ok. Qed.
Theorem C10_ldl_4 : ldl_ok 4 ldl_4_v.  Proof. exact ldl_4_ok. Qed.
Theorem C10_ldl_5 : ldl_ok 5 ldl_5_v.  Proof. exact ldl_5_ok. Qed.
Theorem C10_udu_1 : ldl_ok 1 udu_1_v.  Proof. exact udu_1_ok. Qed.
Theorem C10_udu_2 : ldl_ok 2 udu_2_v.  Proof. exact udu_2_ok. Qed.
Theorem C10_udu_3 : ldl_ok 3 udu_3_v.  Proof. exact udu_3_ok. Qed.
Theorem C10_udu_4 : ldl_ok 4 udu_4_v.  Proof. exact udu_4_ok. Qed.
Theorem C10_udu_5 : ldl_ok 5 udu_5_v.  Proof. exact udu_5_ok. Qed.
Theorem C10_ldl_3_shape : forall P, length P = 6%nat ->
  let r := ldl_3_v P in
  (nth 3 r 0 = 0 /\ nth 6 r 0 = 0 /\ nth 7 r 0 = 0) /\ (nth 0 r 0 = 1 /\ nth 4 r 0 = 1 /\ nth 8 r 0 = 1) /\
  (nth 10 r 0 = 0 /\ nth 11 r 0 = 0 /\ nth 12 r 0 = 0 /\ nth 14 r 0 = 0 /\ nth 15 r 0 = 0 /\ nth 16 r 0 = 0).
Proof. exact ldl_3_shape. Qed.
Theorem C10_udu_3_shape : forall P, length P = 6%nat ->
  let r := udu_3_v P in
  (nth 1 r 0 = 0 /\ nth 2 r 0 = 0 /\ nth 5 r 0 = 0) /\ (nth 0 r 0 = 1 /\ nth 4 r 0 = 1 /\ nth 8 r 0 = 1) /\
  (nth 10 r 0 = 0 /\ nth 11 r 0 = 0 /\ nth 12 r 0 = 0 /\ nth 14 r 0 = 0 /\ nth 15 r 0 = 0 /\ nth 16 r 0 = 0).
Proof. exact udu_3_shape. Qed.

(* RK4: the classical tableau; exact for cubic-in-time derivatives; fourth-order consistent *)
Theorem C10_rk4_cubic_is_tableau : forall a0 a1 a2 a3 t y h,
  rk4_cubic a0 a1 a2 a3 t y h = [rk4M (fun s _ => a0 + a1 * s + a2 * s ^ 2 + a3 * s ^ 3) t y h].
Proof. exact rk4_cubic_is_tableau. Qed.
Theorem C10_rk4_affine_is_tableau : forall c0 c1 c2 t y h, rk4_affine c0 c1 c2 t y h = [rk4M (fun s x => c0 + c1 * s + c2 * x) t y h].
Proof. exact rk4_affine_is_tableau. Qed.
Theorem C10_rk4_exact_cubic : forall a0 a1 a2 a3 t y h,
  rk4_cubic a0 a1 a2 a3 t y h =
  [y + a0 * h + a1 * ((t + h) ^ 2 - t ^ 2) / 2 + a2 * ((t + h) ^ 3 - t ^ 3) / 3 + a3 * ((t + h) ^ 4 - t ^ 4) / 4].
Proof. exact rk4_exact_cubic. Qed.
Theorem C10_rk4_lin_taylor : forall lam t y h,
  rk4_lin lam t y h = [y * (1 + lam * h + (lam * h) ^ 2 / 2 + (lam * h) ^ 3 / 6 + (lam * h) ^ 4 / 24)].
Proof. exact rk4_lin_taylor. Qed.
Theorem C10_rk4_lin2_taylor : forall a00 a10 a01 a11 t y0 y1 h,
  let A := mscale h [a00; a10; a01; a11] in
  let A2 := mmul 2 2 2 A A in let A3 := mmul 2 2 2 A2 A in let A4 := mmul 2 2 2 A3 A in
  rk4_lin2 a00 a10 a01 a11 t y0 y1 h =
  mvec 2 2 (madd (madd (madd (madd (mid 2) A) (mscale (/ 2) A2)) (mscale (/ 6) A3)) (mscale (/ 24) A4)) [y0; y1].
Proof. exact rk4_lin2_taylor. Qed.

(* square-root covariance propagation, n = 2, 3, dense F, symmetric Q *)
Theorem C10_sqrt_cov_predict_2 : cov_ok 2 sqrt_cov_predict_2_v.  Proof. exact cov_2_ok. Qed.
Theorem C10_sqrt_cov_predict_3 : cov_ok 3 sqrt_cov_predict_3_v.  Proof. exact cov_3_ok. Qed.
(* square-root measurement update, scalar state and measurement *)
Theorem C10_sqrt_correct_1_1 : corr_ok 1 1 sqrt_correct_1_1_v.  Proof. exact corr_1_1_ok. Qed.
Print Assumptions C10_ldl_1.
Print Assumptions C10_ldl_2.
Print Assumptions C10_ldl_3.
Print Assumptions C10_ldl_4.
Print Assumptions C10_ldl_5.
Print Assumptions C10_udu_1.
Print Assumptions C10_udu_2.
Print Assumptions C10_udu_3.
Print Assumptions C10_udu_4.
Print Assumptions C10_udu_5.
Print Assumptions C10_ldl_3_shape.
Print Assumptions C10_udu_3_shape.
Print Assumptions C10_rk4_cubic_is_tableau.
Print Assumptions C10_rk4_affine_is_tableau.
Print Assumptions C10_rk4_exact_cubic.
Print Assumptions C10_rk4_lin_taylor.
Print Assumptions C10_rk4_lin2_taylor.
Print Assumptions C10_sqrt_cov_predict_2.
Print Assumptions C10_sqrt_cov_predict_3.
Print Assumptions C10_sqrt_correct_1_1.
