(* C03 -- the logarithm.  Units regenerated from cyecca/lie/group_so3.py; series_2 = x/sin(x), sq_series_17 = 4 atan(x)/x.
   qsign q0 n := -1 if q0/n < 0 else 1;  dcm_angle e := 0 if e > 1, the double pi if e < -1, acos e otherwise;
   nsq v := v.v;  eps = the double 1e-3. *)
From Coq Require Import Reals List Lra.
From Cyecca Require Import Base.Ops Spec.Mat Gen.Series Gen.SO2 Gen.SE2 Gen.SO3Quat Gen.SO3Mrp Gen.SO3Dcm Proofs.SeriesFacts Proofs.C02 Proofs.C03.
Import ListNotations.
Local Open Scope R_scope.

(* quaternion log, every input: normalise, flip to the non-negative scalar part, 2 * vector part * (x/sin x series at acos(scalar)) *)
Theorem C03_quat_log_struct : forall q0 q1 q2 q3,
  SO3Quat_log q0 q1 q2 q3 =
  let n := sqrt (q0 * q0 + q1 * q1 + q2 * q2 + q3 * q3) in
  let s := qsign q0 n in
  let A := hd 0 (series_2 (acos (s * (q0 / n)))) in
  [2 * (s * (q1 / n) * A); 2 * (s * (q2 / n) * A); 2 * (s * (q3 / n) * A)].
Proof. exact quat_log_struct. Qed.

(* q and -q have exactly the same logarithm (scalar part non-zero, i.e. away from the pi singularity) *)
Theorem C03_quat_log_sign : forall q0 q1 q2 q3,
  q0 <> 0 ->
  SO3Quat_log (- q0) (- q1) (- q2) (- q3) = SO3Quat_log q0 q1 q2 q3.
Proof. exact quat_log_sign. Qed.

(* log(identity) = 0 *)
Theorem C03_quat_log_identity : 
  SO3Quat_log 1 0 0 0 = [0; 0; 0].
Proof. exact quat_log_identity. Qed.

(* log(exp v) = v for rotation angles below pi, outside the small-angle cell *)
Theorem C03_quat_log_exp_large : forall v0 v1 v2,
  4 * eps <= nsq v0 v1 v2 -> sqrt (nsq v0 v1 v2) < PI ->
  SO3Quat_log_v (SO3Quat_exp v0 v1 v2) = [v0; v1; v2].
Proof. exact quat_log_exp_large. Qed.

(* for a unit quaternion of either sign |log q| = 2 acos|q0| <= pi: the principal rotation vector (outside the cell) *)
Theorem C03_quat_log_principal : forall q0 q1 q2 q3,
  q0 * q0 + q1 * q1 + q2 * q2 + q3 * q3 = 1 -> eps <= acos (Rabs q0) ->
  let w := SO3Quat_log q0 q1 q2 q3 in
  nsq (nth 0 w 0) (nth 1 w 0) (nth 2 w 0) = (2 * acos (Rabs q0)) * (2 * acos (Rabs q0)) /\ 0 <= 2 * acos (Rabs q0) <= PI.
Proof. exact quat_log_principal. Qed.

(* DCM log, every input: clamped acos of (trace-1)/2, (R - R^T) x/sin x /2 *)
Theorem C03_dcm_log_struct : forall a0 a1 a2 a3 a4 a5 a6 a7 a8,
  SO3Dcm_log a0 a1 a2 a3 a4 a5 a6 a7 a8 =
  let th := dcm_angle ((a0 + a4 + a8 - 1) / 2) in
  let C := hd 0 (series_2 th) / 2 in
  [(a5 - a7) * C; (a6 - a2) * C; (a1 - a3) * C].
Proof. exact dcm_log_struct. Qed.

(* log(R^T) = -log(R) exactly *)
Theorem C03_dcm_log_transpose : forall a0 a1 a2 a3 a4 a5 a6 a7 a8,
  SO3Dcm_log_v (mtrans 3 3 [a0; a1; a2; a3; a4; a5; a6; a7; a8]) = mscale (-1) (SO3Dcm_log a0 a1 a2 a3 a4 a5 a6 a7 a8).
Proof. exact dcm_log_transpose. Qed.

(* log(exp v) = v for the DCM, angles below pi, outside the cell (so DCM and quaternion logs agree there) *)
Theorem C03_dcm_log_exp_large : forall v0 v1 v2,
  eps <= nsq v0 v1 v2 -> sqrt (nsq v0 v1 v2) < PI ->
  SO3Dcm_log_v (SO3Dcm_exp v0 v1 v2) = [v0; v1; v2].
Proof. exact dcm_log_exp_large. Qed.

(* MRP log: (4 atan x / x series of |r|^2) r *)
Theorem C03_mrp_log_struct : forall r0 r1 r2,
  SO3Mrp_log r0 r1 r2 = let A := hd 0 (sq_series_17 (nsq r0 r1 r2)) in [A * r0; A * r1; A * r2].
Proof. exact mrp_log_struct. Qed.

(* log(-r) = -log(r) *)
Theorem C03_mrp_log_neg : forall r0 r1 r2,
  SO3Mrp_log (- r0) (- r1) (- r2) = mscale (-1) (SO3Mrp_log r0 r1 r2).
Proof. exact mrp_log_neg. Qed.

(* canonical MRPs (|r| <= 1): |log r| = 4 atan|r| <= pi *)
Theorem C03_mrp_log_principal : forall r0 r1 r2,
  eps <= nsq r0 r1 r2 -> nsq r0 r1 r2 <= 1 ->
  let w := SO3Mrp_log r0 r1 r2 in
  nsq (nth 0 w 0) (nth 1 w 0) (nth 2 w 0) = (4 * atan (sqrt (nsq r0 r1 r2))) * (4 * atan (sqrt (nsq r0 r1 r2))) /\
  0 <= 4 * atan (sqrt (nsq r0 r1 r2)) <= PI.
Proof. exact mrp_log_principal. Qed.

(* SE(2) log: translation through the inverse of V(theta) (series_1 = sin x/x, series_3 = (1-cos x)/x), heading returned as given *)
Theorem C03_se2_log_struct : forall x y th,
  SE2_log x y th = let a := hd 0 (series_1 th) in let b := hd 0 (series_3 th) in
                   [a / (a * a + b * b) * x + b / (a * a + b * b) * y; a / (a * a + b * b) * y - b / (a * a + b * b) * x; th].
Proof. exact se2_log_struct. Qed.

(* log (exp v) = v in SE(2) for every heading and translation, in both cells of the series, whenever V(theta) is invertible *)
Theorem C03_se2_log_exp : forall x y th,
  hd 0 (series_1 th) * hd 0 (series_1 th) + hd 0 (series_3 th) * hd 0 (series_3 th) <> 0 ->
  SE2_log_v (SE2_exp x y th) = [x; y; th].
Proof. exact se2_log_exp. Qed.

Print Assumptions C03_quat_log_struct.
Print Assumptions C03_se2_log_struct.
Print Assumptions C03_se2_log_exp.
Print Assumptions C03_quat_log_sign.
Print Assumptions C03_quat_log_identity.
Print Assumptions C03_quat_log_exp_large.
Print Assumptions C03_quat_log_principal.
Print Assumptions C03_dcm_log_struct.
Print Assumptions C03_dcm_log_transpose.
Print Assumptions C03_dcm_log_exp_large.
Print Assumptions C03_mrp_log_struct.
Print Assumptions C03_mrp_log_neg.
Print Assumptions C03_mrp_log_principal.
