(* C01, Euler group: the matrices handed to from_Matrix by the Euler product and inverse are proper rotations,
   for ALL angle triples (closure of proper rotations under the matrix product and the transpose). *)
From Coq Require Import Reals List Lra.
From Cyecca Require Import Base.Ops Base.Tactics Spec.Mat Spec.Rot Gen.SO3Dcm Gen.SO3Euler
  Proofs.C01_SO3Dcm Proofs.C01_DcmClosure Proofs.C07.
Import ListNotations.
Local Open Scope R_scope.

Lemma mmul_proper a b : proper_rotation a -> proper_rotation b -> proper_rotation (mmul 3 3 3 a b).
Proof.
  intros Ha Hb. pose proof (dcm_product_proper a b Ha Hb) as H.
  destruct Ha as (a00 & a10 & a20 & a01 & a11 & a21 & a02 & a12 & a22 & -> & _).
  destruct Hb as (b00 & b10 & b20 & b01 & b11 & b21 & b02 & b12 & b22 & -> & _).
  replace (mmul 3 3 3 [a00; a10; a20; a01; a11; a21; a02; a12; a22] [b00; b10; b20; b01; b11; b21; b02; b12; b22])
    with (SO3Dcm_product_v [a00; a10; a20; a01; a11; a21; a02; a12; a22] [b00; b10; b20; b01; b11; b21; b02; b12; b22]);
    [exact H|]. clear H.
  SO3Dcm_unfold. mat_cbv. list_eq; ring.
Qed.

Lemma mtrans_proper a : proper_rotation a -> proper_rotation (mtrans 3 3 a).
Proof.
  intros Ha. pose proof (dcm_inverse_proper a Ha) as H.
  destruct Ha as (a00 & a10 & a20 & a01 & a11 & a21 & a02 & a12 & a22 & -> & _).
  replace (mtrans 3 3 [a00; a10; a20; a01; a11; a21; a02; a12; a22])
    with (SO3Dcm_inverse_v [a00; a10; a20; a01; a11; a21; a02; a12; a22]); [exact H|]. clear H.
  SO3Dcm_unfold. mat_cbv. reflexivity.
Qed.

Lemma euler_product_matrix_proper a b : length a = 3%nat -> length b = 3%nat ->
  proper_rotation (mmul 3 3 3 (SO3Euler_to_Matrix_v a) (SO3Euler_to_Matrix_v b)).
Proof. intros Ha Hb. apply mmul_proper; apply euler_matrix_proper; assumption. Qed.

Lemma euler_inverse_matrix_proper a : length a = 3%nat -> proper_rotation (mtrans 3 3 (SO3Euler_to_Matrix_v a)).
Proof. intros Ha. apply mtrans_proper, euler_matrix_proper, Ha. Qed.
