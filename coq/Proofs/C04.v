(* C04: Ad, ad, brackets on generated code *)
From Coq Require Import Reals List Lra Lia.
From Cyecca Require Import Base.Ops Base.Tactics Spec.Mat Spec.Rot
  Gen.SO2 Gen.SE2 Gen.Rn Gen.so3 Gen.se3 Gen.se23 Gen.SO3Quat Gen.SO3Mrp Gen.SO3Dcm Gen.SE3Quat Gen.SE3Mrp Gen.SE23Quat Gen.SE23Mrp
  Proofs.C01_SO3Quat Proofs.C01_SO3Mrp.
Import ListNotations.
Local Open Scope R_scope.

Section Laws.
Variables (m r : nat).     (* algebra dimension, matrix size *)
Variables (hat ad : list R -> list R) (bracket : list R -> list R -> list R).
Definition vlen (x : list R) := length x = m.
Definition ad_is_bracket := forall x y, vlen x -> vlen y -> mvec m m (ad x) y = bracket x y.
Definition bracket_is_commutator := forall x y, vlen x -> vlen y ->
  hat (bracket x y) = msub (mmul r r r (hat x) (hat y)) (mmul r r r (hat y) (hat x)).
Definition bracket_antisym := forall x y, vlen x -> vlen y -> bracket x y = map Ropp (bracket y x).
Definition jacobi := forall x y z, vlen x -> vlen y -> vlen z ->
  madd (madd (bracket x (bracket y z)) (bracket y (bracket z x))) (bracket z (bracket x y)) = mzero m 1.
Definition ad_square := forall x, vlen x -> length (ad x) = (m * m)%nat.
End Laws.

Ltac alg U := unfold ad_is_bracket, bracket_is_commutator, bracket_antisym, jacobi, ad_square, vlen; intros; explode; U; mat_cbv; try reflexivity; list_eq; ring.

(* so(2) *)
Lemma so2_ad_bracket : ad_is_bracket 1 so2_ad_v so2_bracket_v.  Proof. alg SO2_unfold. Qed.
Lemma so2_comm : bracket_is_commutator 1 2 so2_hat_v so2_bracket_v.  Proof. alg SO2_unfold. Qed.
Lemma so2_sq : ad_square 1 so2_ad_v.  Proof. alg SO2_unfold. Qed.
(* se(2) *)
Lemma se2_ad_bracket : ad_is_bracket 3 se2_ad_v se2_bracket_v.  Proof. alg SE2_unfold. Qed.
Lemma se2_comm : bracket_is_commutator 3 3 se2_hat_v se2_bracket_v.  Proof. alg SE2_unfold. Qed.
Lemma se2_antisym : bracket_antisym 3 se2_bracket_v.  Proof. alg SE2_unfold. Qed.
Lemma se2_jacobi : jacobi 3 se2_bracket_v.  Proof. alg SE2_unfold. Qed.
Lemma se2_sq : ad_square 3 se2_ad_v.  Proof. alg SE2_unfold. Qed.
(* r^2, r^3 *)
Lemma r2_ad_bracket : ad_is_bracket 2 r2_ad_v r2_bracket_v.  Proof. alg Rn_unfold. Qed.
Lemma r2_comm : bracket_is_commutator 2 3 r2_hat_v r2_bracket_v.  Proof. alg Rn_unfold. Qed.
Lemma r2_sq : ad_square 2 r2_ad_v.  Proof. alg Rn_unfold. Qed.
Lemma r3_ad_bracket : ad_is_bracket 3 r3_ad_v r3_bracket_v.  Proof. alg Rn_unfold. Qed.
Lemma r3_comm : bracket_is_commutator 3 4 r3_hat_v r3_bracket_v.  Proof. alg Rn_unfold. Qed.
Lemma r3_sq : ad_square 3 r3_ad_v.  Proof. alg Rn_unfold. Qed.
(* so(3) *)
Lemma so3_ad_bracket : ad_is_bracket 3 so3_ad_v so3_bracket_v.  Proof. alg so3_unfold. Qed.
Lemma so3_comm : bracket_is_commutator 3 3 so3_hat_v so3_bracket_v.  Proof. alg so3_unfold. Qed.
Lemma so3_antisym : bracket_antisym 3 so3_bracket_v.  Proof. alg so3_unfold. Qed.
Lemma so3_jacobi : jacobi 3 so3_bracket_v.  Proof. alg so3_unfold. Qed.
Lemma so3_sq : ad_square 3 so3_ad_v.  Proof. alg so3_unfold. Qed.
(* se(3) *)
Lemma se3_ad_bracket : ad_is_bracket 6 se3_ad_v se3_bracket_v.  Proof. alg se3_unfold. Qed.
Lemma se3_comm : bracket_is_commutator 6 4 se3_hat_v se3_bracket_v.  Proof. alg se3_unfold. Qed.
Lemma se3_antisym : bracket_antisym 6 se3_bracket_v.  Proof. alg se3_unfold. Qed.
Lemma se3_jacobi : jacobi 6 se3_bracket_v.  Proof. alg se3_unfold. Qed.
Lemma se3_sq : ad_square 6 se3_ad_v.  Proof. alg se3_unfold. Qed.
(* se_2(3) *)
Lemma se23_ad_bracket : ad_is_bracket 9 se23_ad_v se23_bracket_v.  Proof. alg se23_unfold. Qed.
Lemma se23_comm : bracket_is_commutator 9 5 se23_hat_v se23_bracket_v.  Proof. alg se23_unfold. Qed.
Lemma se23_antisym : bracket_antisym 9 se23_bracket_v.  Proof. alg se23_unfold. Qed.
Lemma se23_jacobi : jacobi 9 se23_bracket_v.  Proof. alg se23_unfold. Qed.
Lemma se23_sq : ad_square 9 se23_ad_v.  Proof. alg se23_unfold. Qed.
