(* C20: estimator-node gating and logger/scheduler theorems, for every message history / process set *)
From Coq Require Import List ZArith NArith Bool Lia.
From Cyecca Require Import Model.Node Model.Sched.
Import ListNotations.
Local Open Scope Z_scope.

(* ================= estimator node ================= *)
Lemma nrun_cons c s m ms : nrun c s (m :: ms) = (fst (nrun c (fst (nstep c s m)) ms), snd (nstep c s m) ++ snd (nrun c (fst (nstep c s m)) ms)).
Proof. simpl. destruct (nstep c s m) as [s1 a]. simpl. destruct (nrun c s1 ms) as [s2 b]. reflexivity. Qed.

(* the node never predicts with a non-positive time step *)
Lemma step_predict_pos c s m t dt : In (APredict t dt) (snd (nstep c s m)) -> 0 < dt.
Proof.
  destruct m as [t0 ok|t0]; simpl.
  - destruct (negb (inited s)).
    + destruct (has_mag s); simpl; intro Hin; repeat (destruct Hin as [Hin|Hin]; try discriminate); contradiction.
    + destruct (Z.leb_spec (t0 - t_imu s) 0); simpl; [intros []|].
      destruct (ge_thr (t0 - t_acc s) (acc_num c) (acc_den c)); simpl; intro Hin;
        repeat (destruct Hin as [Hin|Hin]; try discriminate); try contradiction; inversion Hin; subst; lia.
  - destruct (negb (inited s) || negb (ge_thr (t0 - t_mag s) (mag_num c) (mag_den c))); simpl; intro Hin;
      repeat (destruct Hin as [Hin|Hin]; try discriminate); contradiction.
Qed.

Theorem predict_dt_positive c s ms t dt : In (APredict t dt) (snd (nrun c s ms)) -> 0 < dt.
Proof.
  revert s. induction ms as [|m ms IH]; intro s; [intros []|].
  rewrite nrun_cons. simpl. rewrite in_app_iff. intros [H|H]; [eapply step_predict_pos; exact H | eapply IH; exact H].
Qed.

(* accelerometer corrections are at least the configured threshold apart (also from the initial reference time) *)
Fixpoint accel_times (a : list act) : list Z :=
  match a with [] => [] | ACorrAccel t :: r => t :: accel_times r | _ :: r => accel_times r end.
Fixpoint mag_times (a : list act) : list Z :=
  match a with [] => [] | ACorrMag t :: r => t :: mag_times r | _ :: r => mag_times r end.
Fixpoint spaced (num den last : Z) (ts : list Z) : Prop :=
  match ts with [] => True | t :: r => num <= (t - last) * den /\ spaced num den t r end.

Lemma accel_times_app a b : accel_times (a ++ b) = accel_times a ++ accel_times b.
Proof. induction a as [|x a IH]; simpl; [reflexivity|]. destruct x; simpl; rewrite ?IH; reflexivity. Qed.
Lemma mag_times_app a b : mag_times (a ++ b) = mag_times a ++ mag_times b.
Proof. induction a as [|x a IH]; simpl; [reflexivity|]. destruct x; simpl; rewrite ?IH; reflexivity. Qed.

Lemma step_accel c s m :
  (accel_times (snd (nstep c s m)) = [] /\ t_acc (fst (nstep c s m)) = t_acc s) \/
  (exists t, accel_times (snd (nstep c s m)) = [t] /\ t_acc (fst (nstep c s m)) = t /\ acc_num c <= (t - t_acc s) * acc_den c).
Proof.
  destruct m as [t0 ok|t0]; simpl.
  - destruct (negb (inited s)); [destruct (has_mag s); left; split; reflexivity|].
    destruct (Z.leb (t0 - t_imu s) 0); [left; split; reflexivity|].
    unfold ge_thr. destruct (Z.leb_spec (acc_num c) ((t0 - t_acc s) * acc_den c)); simpl.
    + right. exists t0. repeat split. assumption.
    + left. split; reflexivity.
  - destruct (negb (inited s) || negb (ge_thr (t0 - t_mag s) (mag_num c) (mag_den c))); left; split; reflexivity.
Qed.

Theorem accel_rate_limited c s ms : spaced (acc_num c) (acc_den c) (t_acc s) (accel_times (snd (nrun c s ms))).
Proof.
  revert s. induction ms as [|m ms IH]; intro s; [exact I|].
  rewrite nrun_cons. simpl. rewrite accel_times_app.
  destruct (step_accel c s m) as [[E1 E2]|[t [E1 [E2 E3]]]]; rewrite E1; simpl.
  - rewrite <- E2. apply IH.
  - split; [exact E3|]. rewrite <- E2. apply IH.
Qed.

Lemma step_mag c s m :
  (mag_times (snd (nstep c s m)) = [] /\ t_mag (fst (nstep c s m)) = t_mag s) \/
  (exists t, mag_times (snd (nstep c s m)) = [t] /\ t_mag (fst (nstep c s m)) = t /\ mag_num c <= (t - t_mag s) * mag_den c).
Proof.
  destruct m as [t0 ok|t0]; simpl.
  - destruct (negb (inited s)); [destruct (has_mag s); left; split; reflexivity|].
    destruct (Z.leb (t0 - t_imu s) 0); [left; split; reflexivity|].
    destruct (ge_thr (t0 - t_acc s) (acc_num c) (acc_den c)); left; split; reflexivity.
  - destruct (negb (inited s)); simpl; [left; split; reflexivity|].
    unfold ge_thr. destruct (Z.leb_spec (mag_num c) ((t0 - t_mag s) * mag_den c)); simpl.
    + right. exists t0. repeat split. assumption.
    + left. split; reflexivity.
Qed.

Theorem mag_rate_limited c s ms : spaced (mag_num c) (mag_den c) (t_mag s) (mag_times (snd (nrun c s ms))).
Proof.
  revert s. induction ms as [|m ms IH]; intro s; [exact I|].
  rewrite nrun_cons. simpl. rewrite mag_times_app.
  destruct (step_mag c s m) as [[E1 E2]|[t [E1 [E2 E3]]]]; rewrite E1; simpl.
  - rewrite <- E2. apply IH.
  - split; [exact E3|]. rewrite <- E2. apply IH.
Qed.

(* when initialisation is requested, nothing is predicted or corrected before an initialisation succeeded *)
Definition is_work (a : act) : bool := match a with APredict _ _ | ACorrAccel _ | ACorrMag _ | APublish _ => true | AInit _ => false end.

Lemma step_uninit c s m : inited s = false ->
  (inited (fst (nstep c s m)) = false /\ forallb (fun a => negb (is_work a)) (snd (nstep c s m)) = true) \/
  (snd (nstep c s m) = [AInit true]).
Proof.
  intro H. destruct m as [t0 ok|t0]; simpl; rewrite H; simpl.
  - destruct (has_mag s); simpl; [|left; split; reflexivity].
    destruct ok; [right; reflexivity | left; split; reflexivity].
  - left. split; reflexivity.
Qed.

Theorem init_gate c ms : forall s, inited s = false ->
  forall pre a post, snd (nrun c s ms) = pre ++ a :: post -> is_work a = true -> In (AInit true) pre.
Proof.
  induction ms as [|m ms IH]; intros s Hs pre a post E Hw.
  - destruct pre; discriminate.
  - rewrite nrun_cons in E. simpl in E.
    destruct (step_uninit c s m Hs) as [[H1 H2]|H2].
    + (* still uninitialised: the step's actions contain no work *)
      remember (snd (nstep c s m)) as acts.
      assert (G : forall acts pre, forallb (fun a => negb (is_work a)) acts = true ->
                  acts ++ snd (nrun c (fst (nstep c s m)) ms) = pre ++ a :: post -> In (AInit true) pre).
      { clear E Heqacts H2 acts pre. induction acts as [|x acts IHa]; intros pre Hf E.
        - simpl in E. eapply IH; [exact H1 | exact E | exact Hw].
        - simpl in Hf. apply andb_true_iff in Hf. destruct Hf as [Hx Hf].
          destruct pre as [|p pre]; simpl in E; inversion E; subst.
          + rewrite Hw in Hx. discriminate.
          + right. eapply IHa; [exact Hf | eassumption]. }
      eapply G; [exact H2 | exact E].
    + rewrite H2 in E. destruct pre as [|p pre]; simpl in E; inversion E; subst.
      * discriminate.
      * left. reflexivity.
Qed.

(* ================= logger / scheduler ================= *)
Fixpoint sorted_by_time (q : list ev) : Prop :=
  match q with [] => True | x :: r => (forall y, In y r -> e_t x <= e_t y) /\ sorted_by_time r end.

Lemma insert_in e q y : In y (insert e q) <-> y = e \/ In y q.
Proof.
  induction q as [|x r IH]; simpl; [intuition congruence|].
  destruct (Z.leb (e_t x) (e_t e)); simpl; rewrite ?IH; intuition congruence.
Qed.
Lemma insert_sorted e q : sorted_by_time q -> sorted_by_time (insert e q).
Proof.
  induction q as [|x r IH]; simpl; intro H; [split; [intros y []|exact I]|].
  destruct H as [H1 H2]. destruct (Z.leb_spec (e_t x) (e_t e)); simpl.
  - split; [|apply IH, H2]. intros y Hy. apply insert_in in Hy. destruct Hy as [->|Hy]; [assumption|apply H1, Hy].
  - split; [|split; assumption]. intros y [->|Hy]; [lia|]. specialize (H1 y Hy). lia.
Qed.

Fixpoint times_nondecreasing (last : Z) (ts : list Z) : Prop :=
  match ts with [] => True | t :: r => last <= t /\ times_nondecreasing t r end.
Lemma nondecr_app last ts t : times_nondecreasing last ts -> (forall x, In x ts -> x <= t) -> last <= t -> times_nondecreasing last (ts ++ [t]).
Proof.
  revert last. induction ts as [|x ts IH]; simpl; intros last H Hle Hl; [split; [exact Hl|exact I]|].
  destruct H as [H1 H2]. split; [exact H1|]. apply IH; [exact H2 | intros y Hy; apply Hle; right; exact Hy | apply Hle; left; reflexivity].
Qed.

(* invariant: queue sorted, nothing scheduled before `now`, rows stamped up to `now` in non-decreasing order,
   logger/dt positive once set *)
Definition sinv (now : Z) (s : sstate) : Prop :=
  sorted_by_time (queue s) /\ (forall y, In y (queue s) -> now <= e_t y) /\
  times_nondecreasing 0 (map fst (rows s)) /\ (forall x, In x (map fst (rows s)) -> x <= now) /\ 0 <= now /\
  (forall d, log_dt s = Some d -> 0 < d).

Lemma fire_inv ps s t pid q now :
  (forall p, In p ps -> proc_ok p) ->
  sorted_by_time q -> (forall y, In y q -> t <= e_t y) -> now <= t ->
  times_nondecreasing 0 (map fst (rows s)) -> (forall x, In x (map fst (rows s)) -> x <= now) -> 0 <= now ->
  (forall d, log_dt s = Some d -> 0 < d) ->
  sinv t (fire ps s t pid q).
Proof.
  intros Hp Hs Hq Hnow Hr Hrl H0 Hd. unfold fire.
  destruct (nth_error ps pid) as [p|] eqn:E.
  - assert (Pp : proc_ok p) by (apply Hp; eapply nth_error_In; exact E). destruct Pp as [Pp Pv].
    destruct (kind p) as [tp| |v]; unfold sinv; simpl.
    + repeat split; try lia; try exact Hd.
      * apply insert_sorted, Hs.
      * intros y Hy. apply insert_in in Hy. destruct Hy as [->|Hy]; [simpl; lia | apply Hq, Hy].
      * exact Hr.
      * intros x Hx. specialize (Hrl x Hx). lia.
    + assert (Pd : 0 < match log_dt s with Some d => d | None => period p end)
        by (destruct (log_dt s) as [d|] eqn:Ed; [apply Hd; reflexivity | exact Pp]).
      rewrite map_app. simpl. repeat split; try lia; try exact Hd.
      * apply insert_sorted, Hs.
      * intros y Hy. apply insert_in in Hy. destruct Hy as [->|Hy]; [simpl; lia | apply Hq, Hy].
      * apply nondecr_app; [exact Hr | intros x Hx; specialize (Hrl x Hx); lia | lia].
      * intros x Hx. rewrite in_app_iff in Hx. destruct Hx as [Hx|[<-|[]]]; [specialize (Hrl x Hx); lia | lia].
    + repeat split; try lia.
      * apply insert_sorted, Hs.
      * intros y Hy. apply insert_in in Hy. destruct Hy as [->|Hy]; [simpl; lia | apply Hq, Hy].
      * exact Hr.
      * intros x Hx. specialize (Hrl x Hx). lia.
      * intros d Ed. injection Ed as <-. exact Pv.
  - unfold sinv. simpl. repeat split; try assumption; try lia.
    intros x Hx. specialize (Hrl x Hx). lia.
Qed.

Lemma srun_inv ps tf fuel : (forall p, In p ps -> proc_ok p) ->
  forall now s, sinv now s -> exists now', sinv now' (srun ps tf fuel s).
Proof.
  intro Hp. induction fuel as [|f IH]; intros now s H; simpl; [exists now; exact H|].
  destruct (queue s) as [|e q] eqn:Q; [exists now; exact H|].
  destruct (Z.ltb (e_t e) tf); [|exists now; exact H].
  destruct H as (Hs & Hq & Hr & Hrl & H0 & Hd). rewrite Q in Hs, Hq. simpl in Hs. destruct Hs as [Hs1 Hs2].
  apply (IH (e_t e)). apply (fire_inv ps s (e_t e) (e_pid e) q now); try assumption.
  - apply Hq. left. reflexivity.
Qed.

Lemma start_inv all : (forall p, In p all -> proc_ok p) ->
  forall ps pid s, sinv 0 s -> sinv 0 (start ps all pid s).
Proof.
  intro Hp. induction ps as [|p ps IH]; intros pid s H; simpl; [exact H|].
  apply IH. destruct H as (Hs & Hq & Hr & Hrl & H0 & Hd).
  apply (fire_inv all s 0 pid (queue s) 0); try assumption; lia.
Qed.

(* logger rows carry non-decreasing time stamps, whatever the processes, periods and horizon *)
Theorem logger_rows_time_nondecreasing ps tf fuel : (forall p, In p ps -> proc_ok p) ->
  times_nondecreasing 0 (map fst (simulate ps tf fuel)).
Proof.
  intro Hp. unfold simulate, final.
  assert (H0 : sinv 0 s0) by (unfold sinv, s0; simpl; repeat split; try lia; try (intros ? []; fail); try discriminate).
  destruct (srun_inv ps tf fuel Hp 0 _ (start_inv ps Hp ps 0%nat s0 H0)) as [now' H]. apply H.
Qed.
