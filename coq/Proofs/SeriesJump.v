(* C06: the Taylor / closed-form switch of every series coefficient (units regenerated from cyecca.symbolic.SERIES and
   SQUARED_SERIES, in table order): no jump at the switch, and the value at exactly zero is the limit. *)
From Coq Require Import Reals List Lra Lia.
From Interval Require Import Tactic.
From Cyecca Require Import Base.Ops Base.Tactics Gen.Series Proofs.SeriesFacts.
Import ListNotations.
Local Open Scope R_scope.

(* a band of half-width 1e-11 on each side of the switch point *)
Definition lo := eps - 1 / 100000000000.
Definition hi := eps + 1 / 100000000000.
Ltac cells_pos x y Hx Hy :=
  unfold lo, hi, eps in Hx, Hy;
  rewrite (Rabs_pos_eq x) by lra; rewrite (Rabs_pos_eq y) by lra;
  repeat match goal with |- context [op_lt ?a ?e] => first [rewrite (op_lt_true a e) by lra | rewrite (op_lt_false a e) by lra] end;
  rewrite ?op_not_0, ?op_not_1, ?op_ifz_0, ?op_ifz_1, ?Rplus_0_l, ?Rplus_0_r; rewrite ?op_pow_pos by lra; unfold Rpower.
Ltac zero_cell :=
  rewrite Rabs_R0; rewrite (op_lt_true 0 _) by lra; rewrite ?op_not_1, ?op_ifz_0, ?op_ifz_1, ?Rplus_0_r;
  repeat rewrite op_pow_0 by lra.

(* SERIES['cos(x)'] *)
Lemma jump_series_0 x y : lo <= x < eps -> eps <= y <= hi -> Rabs (hd 0 (series_0 x) - hd 0 (series_0 y)) <= 1 / 1000000000.
Proof. intros Hx Hy. cbv beta iota zeta delta [series_0 hd]. cells_pos x y Hx Hy. interval with (i_taylor y, i_degree 6, i_prec 100). Qed.
Lemma zero_series_0 : Rabs (hd 0 (series_0 0) - 1) <= 1 / 1000000000000000.
Proof. cbv beta iota zeta delta [series_0 hd]. zero_cell. interval with (i_prec 100). Qed.
(* SERIES['sin(x)/x'] *)
Lemma jump_series_1 x y : lo <= x < eps -> eps <= y <= hi -> Rabs (hd 0 (series_1 x) - hd 0 (series_1 y)) <= 1 / 1000000000.
Proof. intros Hx Hy. cbv beta iota zeta delta [series_1 hd]. cells_pos x y Hx Hy. interval with (i_taylor y, i_degree 6, i_prec 100). Qed.
Lemma zero_series_1 : Rabs (hd 0 (series_1 0) - 1) <= 1 / 1000000000000000.
Proof. cbv beta iota zeta delta [series_1 hd]. zero_cell. interval with (i_prec 100). Qed.
(* SERIES['x/sin(x)'] *)
Lemma jump_series_2 x y : lo <= x < eps -> eps <= y <= hi -> Rabs (hd 0 (series_2 x) - hd 0 (series_2 y)) <= 1 / 1000000000.
Proof. intros Hx Hy. cbv beta iota zeta delta [series_2 hd]. cells_pos x y Hx Hy. interval with (i_taylor y, i_degree 6, i_prec 100). Qed.
Lemma zero_series_2 : Rabs (hd 0 (series_2 0) - 1) <= 1 / 1000000000000000.
Proof. cbv beta iota zeta delta [series_2 hd]. zero_cell. interval with (i_prec 100). Qed.
(* SERIES['(1 - cos(x))/x'] *)
Lemma jump_series_3 x y : lo <= x < eps -> eps <= y <= hi -> Rabs (hd 0 (series_3 x) - hd 0 (series_3 y)) <= 1 / 1000000000.
Proof. intros Hx Hy. cbv beta iota zeta delta [series_3 hd]. cells_pos x y Hx Hy. interval with (i_taylor y, i_degree 6, i_prec 100). Qed.
Lemma zero_series_3 : Rabs (hd 0 (series_3 0) - 0) <= 1 / 1000000000000000.
Proof. cbv beta iota zeta delta [series_3 hd]. zero_cell. interval with (i_prec 100). Qed.
(* SERIES['(1 - cos(x))/x^2'] *)
Lemma jump_series_4 x y : lo <= x < eps -> eps <= y <= hi -> Rabs (hd 0 (series_4 x) - hd 0 (series_4 y)) <= 1 / 1000000000.
Proof. intros Hx Hy. cbv beta iota zeta delta [series_4 hd]. cells_pos x y Hx Hy. interval with (i_taylor y, i_degree 6, i_prec 100). Qed.
Lemma zero_series_4 : Rabs (hd 0 (series_4 0) - 1/2) <= 1 / 1000000000000000.
Proof. cbv beta iota zeta delta [series_4 hd]. zero_cell. interval with (i_prec 100). Qed.
(* SERIES['(x - sin(x))/x^3'] *)
Lemma jump_series_5 x y : lo <= x < eps -> eps <= y <= hi -> Rabs (hd 0 (series_5 x) - hd 0 (series_5 y)) <= 1 / 1000000000.
Proof. intros Hx Hy. cbv beta iota zeta delta [series_5 hd]. cells_pos x y Hx Hy. interval with (i_taylor y, i_degree 6, i_prec 100). Qed.
Lemma zero_series_5 : Rabs (hd 0 (series_5 0) - 1/6) <= 1 / 1000000000000000.
Proof. cbv beta iota zeta delta [series_5 hd]. zero_cell. interval with (i_prec 100). Qed.
(* SERIES['(1 - x*sin(x)/(2*(1 - cos(x))))/x^2'] *)
Lemma jump_series_6 x y : lo <= x < eps -> eps <= y <= hi -> Rabs (hd 0 (series_6 x) - hd 0 (series_6 y)) <= 1 / 1000000000.
Proof. intros Hx Hy. cbv beta iota zeta delta [series_6 hd]. cells_pos x y Hx Hy. interval with (i_taylor y, i_degree 6, i_prec 100). Qed.
Lemma zero_series_6 : Rabs (hd 0 (series_6 0) - 1/12) <= 1 / 1000000000000000.
Proof. cbv beta iota zeta delta [series_6 hd]. zero_cell. interval with (i_prec 100). Qed.
(* SERIES['(-x^2/2 - cos(x) + 1)/x^2'] *)
Lemma jump_series_7 x y : lo <= x < eps -> eps <= y <= hi -> Rabs (hd 0 (series_7 x) - hd 0 (series_7 y)) <= 1 / 1000000000.
Proof. intros Hx Hy. cbv beta iota zeta delta [series_7 hd]. cells_pos x y Hx Hy. interval with (i_taylor y, i_degree 6, i_prec 100). Qed.
Lemma zero_series_7 : Rabs (hd 0 (series_7 0) - 0) <= 1 / 1000000000000000.
Proof. cbv beta iota zeta delta [series_7 hd]. zero_cell. interval with (i_prec 100). Qed.
(* SERIES['(x^2/2 + cos(x) - 1)/x^4'] *)
Lemma jump_series_8 x y : lo <= x < eps -> eps <= y <= hi -> Rabs (hd 0 (series_8 x) - hd 0 (series_8 y)) <= 1 / 1000000000.
Proof. intros Hx Hy. cbv beta iota zeta delta [series_8 hd]. cells_pos x y Hx Hy. interval with (i_taylor y, i_degree 6, i_prec 100). Qed.
Lemma zero_series_8 : Rabs (hd 0 (series_8 0) - 1/24) <= 1 / 1000000000000000.
Proof. cbv beta iota zeta delta [series_8 hd]. zero_cell. interval with (i_prec 100). Qed.
(* SERIES['1/x^2'] *)
(* SERIES['(2 - x cos(x))/(2 x^2)'] *)
(* SERIES['1/x^2 + sin(x)/(2 x (cos(x) - 1))'] *)
Lemma jump_series_11 x y : lo <= x < eps -> eps <= y <= hi -> Rabs (hd 0 (series_11 x) - hd 0 (series_11 y)) <= 1 / 1000000000.
Proof. intros Hx Hy. cbv beta iota zeta delta [series_11 hd]. cells_pos x y Hx Hy. interval with (i_taylor y, i_degree 6, i_prec 100). Qed.
Lemma zero_series_11 : Rabs (hd 0 (series_11 0) - 1/12) <= 1 / 1000000000000000.
Proof. cbv beta iota zeta delta [series_11 hd]. zero_cell. interval with (i_prec 100). Qed.
(* SERIES['(x^2 + 2 cos(x) - 2)/(2 x^4)'] *)
Lemma jump_series_12 x y : lo <= x < eps -> eps <= y <= hi -> Rabs (hd 0 (series_12 x) - hd 0 (series_12 y)) <= 1 / 1000000000.
Proof. intros Hx Hy. cbv beta iota zeta delta [series_12 hd]. cells_pos x y Hx Hy. interval with (i_taylor y, i_degree 6, i_prec 100). Qed.
Lemma zero_series_12 : Rabs (hd 0 (series_12 0) - 1/24) <= 1 / 1000000000000000.
Proof. cbv beta iota zeta delta [series_12 hd]. zero_cell. interval with (i_prec 100). Qed.
(* SERIES['(x cos(x) + 2 x - 3 sin(x))/(2 x^5)'] *)
Lemma jump_series_13 x y : lo <= x < eps -> eps <= y <= hi -> Rabs (hd 0 (series_13 x) - hd 0 (series_13 y)) <= 1 / 1000000000.
Proof. intros Hx Hy. cbv beta iota zeta delta [series_13 hd]. cells_pos x y Hx Hy. interval with (i_taylor y, i_degree 6, i_prec 100). Qed.
Lemma zero_series_13 : Rabs (hd 0 (series_13 0) - 1/120) <= 1 / 1000000000000000.
Proof. cbv beta iota zeta delta [series_13 hd]. zero_cell. interval with (i_prec 100). Qed.
(* SERIES['(x^2 + x sin(x) + 4 cos(x) - 4)/(2 x^6)'] *)
Lemma jump_series_14 x y : lo <= x < eps -> eps <= y <= hi -> Rabs (hd 0 (series_14 x) - hd 0 (series_14 y)) <= 1 / 1000000000.
Proof. intros Hx Hy. cbv beta iota zeta delta [series_14 hd]. cells_pos x y Hx Hy. interval with (i_taylor y, i_degree 8, i_prec 300). Qed.
Lemma zero_series_14 : Rabs (hd 0 (series_14 0) - 1/720) <= 1 / 1000000000000000.
Proof. cbv beta iota zeta delta [series_14 hd]. zero_cell. interval with (i_prec 100). Qed.
(* SERIES['(2 - 2 cos(x) - x sin(x))/(2 x^4))'] *)
Lemma jump_series_15 x y : lo <= x < eps -> eps <= y <= hi -> Rabs (hd 0 (series_15 x) - hd 0 (series_15 y)) <= 1 / 1000000000.
Proof. intros Hx Hy. cbv beta iota zeta delta [series_15 hd]. cells_pos x y Hx Hy. interval with (i_taylor y, i_degree 6, i_prec 100). Qed.
Lemma zero_series_15 : Rabs (hd 0 (series_15 0) - 1/24) <= 1 / 1000000000000000.
Proof. cbv beta iota zeta delta [series_15 hd]. zero_cell. interval with (i_prec 100). Qed.
(* SERIES['tan(x/4)/x'] *)
Lemma jump_series_16 x y : lo <= x < eps -> eps <= y <= hi -> Rabs (hd 0 (series_16 x) - hd 0 (series_16 y)) <= 1 / 1000000000.
Proof. intros Hx Hy. cbv beta iota zeta delta [series_16 hd]. cells_pos x y Hx Hy. interval with (i_taylor y, i_degree 6, i_prec 100). Qed.
Lemma zero_series_16 : Rabs (hd 0 (series_16 0) - 1/4) <= 1 / 1000000000000000.
Proof. cbv beta iota zeta delta [series_16 hd]. zero_cell. interval with (i_prec 100). Qed.
(* SERIES['4 atan(x)/x'] *)
Lemma jump_series_17 x y : lo <= x < eps -> eps <= y <= hi -> Rabs (hd 0 (series_17 x) - hd 0 (series_17 y)) <= 1 / 1000000000.
Proof. intros Hx Hy. cbv beta iota zeta delta [series_17 hd]. cells_pos x y Hx Hy. interval with (i_taylor y, i_degree 6, i_prec 100). Qed.
Lemma zero_series_17 : Rabs (hd 0 (series_17 0) - 4) <= 1 / 1000000000000000.
Proof. cbv beta iota zeta delta [series_17 hd]. zero_cell. interval with (i_prec 100). Qed.
(* SQUARED_SERIES['cos(x)'] *)
Lemma jump_sq_series_0 x y : lo <= x < eps -> eps <= y <= hi -> Rabs (hd 0 (sq_series_0 x) - hd 0 (sq_series_0 y)) <= 1 / 1000000000.
Proof. intros Hx Hy. cbv beta iota zeta delta [sq_series_0 hd]. cells_pos x y Hx Hy. interval with (i_taylor y, i_degree 6, i_prec 100). Qed.
Lemma zero_sq_series_0 : Rabs (hd 0 (sq_series_0 0) - 1) <= 1 / 1000000000000000.
Proof. cbv beta iota zeta delta [sq_series_0 hd]. zero_cell. interval with (i_prec 100). Qed.
(* SQUARED_SERIES['sin(x)/x'] *)
Lemma jump_sq_series_1 x y : lo <= x < eps -> eps <= y <= hi -> Rabs (hd 0 (sq_series_1 x) - hd 0 (sq_series_1 y)) <= 1 / 1000000000.
Proof. intros Hx Hy. cbv beta iota zeta delta [sq_series_1 hd]. cells_pos x y Hx Hy. interval with (i_taylor y, i_degree 6, i_prec 100). Qed.
Lemma zero_sq_series_1 : Rabs (hd 0 (sq_series_1 0) - 1) <= 1 / 1000000000000000.
Proof. cbv beta iota zeta delta [sq_series_1 hd]. zero_cell. interval with (i_prec 100). Qed.
(* SQUARED_SERIES['x/sin(x)'] *)
Lemma jump_sq_series_2 x y : lo <= x < eps -> eps <= y <= hi -> Rabs (hd 0 (sq_series_2 x) - hd 0 (sq_series_2 y)) <= 1 / 1000000000.
Proof. intros Hx Hy. cbv beta iota zeta delta [sq_series_2 hd]. cells_pos x y Hx Hy. interval with (i_taylor y, i_degree 6, i_prec 100). Qed.
Lemma zero_sq_series_2 : Rabs (hd 0 (sq_series_2 0) - 1) <= 1 / 1000000000000000.
Proof. cbv beta iota zeta delta [sq_series_2 hd]. zero_cell. interval with (i_prec 100). Qed.
(* SQUARED_SERIES['(1 - cos(x))/x'] *)
Lemma jump_sq_series_3 x y : lo <= x < eps -> eps <= y <= hi -> Rabs (hd 0 (sq_series_3 x) - hd 0 (sq_series_3 y)) <= 1 / 1000000000.
Proof. intros Hx Hy. cbv beta iota zeta delta [sq_series_3 hd]. cells_pos x y Hx Hy. interval with (i_taylor y, i_degree 6, i_prec 100). Qed.
Lemma zero_sq_series_3 : Rabs (hd 0 (sq_series_3 0) - 0) <= 1 / 1000000000000000.
Proof. cbv beta iota zeta delta [sq_series_3 hd]. zero_cell. interval with (i_prec 100). Qed.
(* SQUARED_SERIES['(1 - cos(x))/x^2'] *)
Lemma jump_sq_series_4 x y : lo <= x < eps -> eps <= y <= hi -> Rabs (hd 0 (sq_series_4 x) - hd 0 (sq_series_4 y)) <= 1 / 1000000000.
Proof. intros Hx Hy. cbv beta iota zeta delta [sq_series_4 hd]. cells_pos x y Hx Hy. interval with (i_taylor y, i_degree 6, i_prec 100). Qed.
Lemma zero_sq_series_4 : Rabs (hd 0 (sq_series_4 0) - 1/2) <= 1 / 1000000000000000.
Proof. cbv beta iota zeta delta [sq_series_4 hd]. zero_cell. interval with (i_prec 100). Qed.
(* SQUARED_SERIES['(x - sin(x))/x^3'] *)
Lemma jump_sq_series_5 x y : lo <= x < eps -> eps <= y <= hi -> Rabs (hd 0 (sq_series_5 x) - hd 0 (sq_series_5 y)) <= 1 / 1000000000.
Proof. intros Hx Hy. cbv beta iota zeta delta [sq_series_5 hd]. cells_pos x y Hx Hy. interval with (i_taylor y, i_degree 6, i_prec 100). Qed.
Lemma zero_sq_series_5 : Rabs (hd 0 (sq_series_5 0) - 1/6) <= 1 / 1000000000000000.
Proof. cbv beta iota zeta delta [sq_series_5 hd]. zero_cell. interval with (i_prec 100). Qed.
(* SQUARED_SERIES['(1 - x*sin(x)/(2*(1 - cos(x))))/x^2'] *)
Lemma jump_sq_series_6 x y : lo <= x < eps -> eps <= y <= hi -> Rabs (hd 0 (sq_series_6 x) - hd 0 (sq_series_6 y)) <= 1 / 1000000000.
Proof. intros Hx Hy. cbv beta iota zeta delta [sq_series_6 hd]. cells_pos x y Hx Hy. interval with (i_taylor y, i_degree 6, i_prec 100). Qed.
Lemma zero_sq_series_6 : Rabs (hd 0 (sq_series_6 0) - 1/12) <= 1 / 1000000000000000.
Proof. cbv beta iota zeta delta [sq_series_6 hd]. zero_cell. interval with (i_prec 100). Qed.
(* SQUARED_SERIES['(-x^2/2 - cos(x) + 1)/x^2'] *)
Lemma jump_sq_series_7 x y : lo <= x < eps -> eps <= y <= hi -> Rabs (hd 0 (sq_series_7 x) - hd 0 (sq_series_7 y)) <= 1 / 1000000000.
Proof. intros Hx Hy. cbv beta iota zeta delta [sq_series_7 hd]. cells_pos x y Hx Hy. interval with (i_taylor y, i_degree 6, i_prec 100). Qed.
Lemma zero_sq_series_7 : Rabs (hd 0 (sq_series_7 0) - 0) <= 1 / 1000000000000000.
Proof. cbv beta iota zeta delta [sq_series_7 hd]. zero_cell. interval with (i_prec 100). Qed.
(* SQUARED_SERIES['(x^2/2 + cos(x) - 1)/x^4'] *)
Lemma jump_sq_series_8 x y : lo <= x < eps -> eps <= y <= hi -> Rabs (hd 0 (sq_series_8 x) - hd 0 (sq_series_8 y)) <= 1 / 1000000000.
Proof. intros Hx Hy. cbv beta iota zeta delta [sq_series_8 hd]. cells_pos x y Hx Hy. interval with (i_taylor y, i_degree 6, i_prec 100). Qed.
Lemma zero_sq_series_8 : Rabs (hd 0 (sq_series_8 0) - 1/24) <= 1 / 1000000000000000.
Proof. cbv beta iota zeta delta [sq_series_8 hd]. zero_cell. interval with (i_prec 100). Qed.
(* SQUARED_SERIES['1/x^2'] *)
(* SQUARED_SERIES['(2 - x cos(x))/(2 x^2)'] *)
(* SQUARED_SERIES['1/x^2 + sin(x)/(2 x (cos(x) - 1))'] *)
Lemma jump_sq_series_11 x y : lo <= x < eps -> eps <= y <= hi -> Rabs (hd 0 (sq_series_11 x) - hd 0 (sq_series_11 y)) <= 1 / 1000000000.
Proof. intros Hx Hy. cbv beta iota zeta delta [sq_series_11 hd]. cells_pos x y Hx Hy. interval with (i_taylor y, i_degree 6, i_prec 100). Qed.
Lemma zero_sq_series_11 : Rabs (hd 0 (sq_series_11 0) - 1/12) <= 1 / 1000000000000000.
Proof. cbv beta iota zeta delta [sq_series_11 hd]. zero_cell. interval with (i_prec 100). Qed.
(* SQUARED_SERIES['(x^2 + 2 cos(x) - 2)/(2 x^4)'] *)
Lemma jump_sq_series_12 x y : lo <= x < eps -> eps <= y <= hi -> Rabs (hd 0 (sq_series_12 x) - hd 0 (sq_series_12 y)) <= 1 / 1000000000.
Proof. intros Hx Hy. cbv beta iota zeta delta [sq_series_12 hd]. cells_pos x y Hx Hy. interval with (i_taylor y, i_degree 6, i_prec 100). Qed.
Lemma zero_sq_series_12 : Rabs (hd 0 (sq_series_12 0) - 1/24) <= 1 / 1000000000000000.
Proof. cbv beta iota zeta delta [sq_series_12 hd]. zero_cell. interval with (i_prec 100). Qed.
(* SQUARED_SERIES['(x cos(x) + 2 x - 3 sin(x))/(2 x^5)'] *)
Lemma jump_sq_series_13 x y : lo <= x < eps -> eps <= y <= hi -> Rabs (hd 0 (sq_series_13 x) - hd 0 (sq_series_13 y)) <= 1 / 1000000000.
Proof. intros Hx Hy. cbv beta iota zeta delta [sq_series_13 hd]. cells_pos x y Hx Hy. interval with (i_taylor y, i_degree 6, i_prec 100). Qed.
Lemma zero_sq_series_13 : Rabs (hd 0 (sq_series_13 0) - 1/120) <= 1 / 1000000000000000.
Proof. cbv beta iota zeta delta [sq_series_13 hd]. zero_cell. interval with (i_prec 100). Qed.
(* SQUARED_SERIES['(x^2 + x sin(x) + 4 cos(x) - 4)/(2 x^6)'] *)
Lemma jump_sq_series_14 x y : lo <= x < eps -> eps <= y <= hi -> Rabs (hd 0 (sq_series_14 x) - hd 0 (sq_series_14 y)) <= 1 / 1000000000.
Proof. intros Hx Hy. cbv beta iota zeta delta [sq_series_14 hd]. cells_pos x y Hx Hy. interval with (i_taylor y, i_degree 6, i_prec 100). Qed.
Lemma zero_sq_series_14 : Rabs (hd 0 (sq_series_14 0) - 1/720) <= 1 / 1000000000000000.
Proof. cbv beta iota zeta delta [sq_series_14 hd]. zero_cell. interval with (i_prec 100). Qed.
(* SQUARED_SERIES['(2 - 2 cos(x) - x sin(x))/(2 x^4))'] *)
Lemma jump_sq_series_15 x y : lo <= x < eps -> eps <= y <= hi -> Rabs (hd 0 (sq_series_15 x) - hd 0 (sq_series_15 y)) <= 1 / 1000000000.
Proof. intros Hx Hy. cbv beta iota zeta delta [sq_series_15 hd]. cells_pos x y Hx Hy. interval with (i_taylor y, i_degree 6, i_prec 100). Qed.
Lemma zero_sq_series_15 : Rabs (hd 0 (sq_series_15 0) - 1/24) <= 1 / 1000000000000000.
Proof. cbv beta iota zeta delta [sq_series_15 hd]. zero_cell. interval with (i_prec 100). Qed.
(* SQUARED_SERIES['tan(x/4)/x'] *)
Lemma jump_sq_series_16 x y : lo <= x < eps -> eps <= y <= hi -> Rabs (hd 0 (sq_series_16 x) - hd 0 (sq_series_16 y)) <= 1 / 1000000000.
Proof. intros Hx Hy. cbv beta iota zeta delta [sq_series_16 hd]. cells_pos x y Hx Hy. interval with (i_taylor y, i_degree 6, i_prec 100). Qed.
Lemma zero_sq_series_16 : Rabs (hd 0 (sq_series_16 0) - 1/4) <= 1 / 1000000000000000.
Proof. cbv beta iota zeta delta [sq_series_16 hd]. zero_cell. interval with (i_prec 100). Qed.
(* SQUARED_SERIES['4 atan(x)/x'] *)
Lemma jump_sq_series_17 x y : lo <= x < eps -> eps <= y <= hi -> Rabs (hd 0 (sq_series_17 x) - hd 0 (sq_series_17 y)) <= 1 / 1000000000.
Proof. intros Hx Hy. cbv beta iota zeta delta [sq_series_17 hd]. cells_pos x y Hx Hy. interval with (i_taylor y, i_degree 6, i_prec 100). Qed.
Lemma zero_sq_series_17 : Rabs (hd 0 (sq_series_17 0) - 4) <= 1 / 1000000000000000.
Proof. cbv beta iota zeta delta [sq_series_17 hd]. zero_cell. interval with (i_prec 100). Qed.
