(* C14: helpers that turn Euler angles / rotation matrices into attitude set-point quaternions *)
From Coq Require Import Reals List Lra Lia.
From Cyecca Require Import Base.Ops Base.Tactics Spec.Mat Spec.Rot Gen.Ref Gen.SO3Quat Gen.SO3Euler
  Proofs.C01_SO3Quat Proofs.Shepperd Proofs.C07.
Import ListNotations.
Local Open Scope R_scope.

(* eulerB321_to_quat is SO3Quat.from_Euler: a unit quaternion whose matrix is Rz(yaw) Ry(pitch) Rx(roll) *)
Lemma eulerB321_to_quat_is_from_Euler y p r : eulerB321_to_quat y p r = SO3Quat_from_Euler_v [y; p; r].
Proof. Ref_unfold. SO3Quat_unfold. list_eq; congr_ring. Qed.

Lemma eulerB321_to_quat_proper y p r :
  SO3Quat_to_Matrix_v (eulerB321_to_quat y p r) = SO3Euler_to_Matrix_v [y; p; r] /\ norm2 (eulerB321_to_quat y p r) = 1.
Proof. rewrite eulerB321_to_quat_is_from_Euler. apply quat_from_euler. reflexivity. Qed.

(* dcm_to_quat (used by the fixed-constant flatness map f_ref) is the matrix -> quaternion conversion:
   for EVERY proper rotation matrix it returns a unit quaternion with that matrix *)
Lemma dcm_to_quat_is_from_Matrix R : length R = 9%nat -> dcm_to_quat_v R = SO3Quat_from_Matrix_v R.
Proof. intro H. explode. Ref_unfold. SO3Quat_unfold. list_eq; congr_ring. Qed.

Lemma dcm_to_quat_proper R : proper_rotation R ->
  SO3Quat_to_Matrix_v (dcm_to_quat_v R) = R /\ norm2 (dcm_to_quat_v R) = 1.
Proof.
  intro H. rewrite dcm_to_quat_is_from_Matrix by (destruct H as (? & ? & ? & ? & ? & ? & ? & ? & ? & -> & _); reflexivity).
  destruct (from_Matrix_right_inverse R H) as (A & B & _). split; assumption.
Qed.
