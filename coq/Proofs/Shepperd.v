(* Matrix -> quaternion (4-branch Shepperd) on generated code: for every proper rotation matrix R,
   SO3Quat.from_Matrix returns a unit quaternion whose matrix is R.
   Used by C01 (from_Matrix right inverse), C07 (conversions), C14 (set-points). *)
From Coq Require Import Reals List Lra Lia.
From Cyecca Require Import Base.Ops Base.Tactics Spec.Mat Spec.Rot Gen.SO3Quat.
Import ListNotations.
Local Open Scope R_scope.

(* matrix of a quaternion given through a pivot s = 2 q_k <> 0: the entries only involve t = s^2 *)
Lemma quat_matrix_pivot0 s a b c : s <> 0 ->
  SO3Quat_to_Matrix_v [s / 2; a / (2 * s); b / (2 * s); c / (2 * s)] =
  let t := s * s in
  [ (t * t + a * a - b * b - c * c) / (4 * t); (a * b + t * c) / (2 * t); (a * c - t * b) / (2 * t);
    (a * b - t * c) / (2 * t); (t * t - a * a + b * b - c * c) / (4 * t); (b * c + t * a) / (2 * t);
    (a * c + t * b) / (2 * t); (b * c - t * a) / (2 * t); (t * t - a * a - b * b + c * c) / (4 * t) ].
Proof. intro Hs. SO3Quat_unfold. cbv zeta. list_eq; field; assumption. Qed.
Lemma quat_matrix_pivot1 s a b c : s <> 0 ->
  SO3Quat_to_Matrix_v [a / (2 * s); s / 2; b / (2 * s); c / (2 * s)] =
  let t := s * s in
  [ (a * a + t * t - b * b - c * c) / (4 * t); (t * b + a * c) / (2 * t); (t * c - a * b) / (2 * t);
    (t * b - a * c) / (2 * t); (a * a - t * t + b * b - c * c) / (4 * t); (b * c + a * t) / (2 * t);
    (t * c + a * b) / (2 * t); (b * c - a * t) / (2 * t); (a * a - t * t - b * b + c * c) / (4 * t) ].
Proof. intro Hs. SO3Quat_unfold. cbv zeta. list_eq; field; assumption. Qed.
Lemma quat_matrix_pivot2 s a b c : s <> 0 ->
  SO3Quat_to_Matrix_v [a / (2 * s); b / (2 * s); s / 2; c / (2 * s)] =
  let t := s * s in
  [ (a * a + b * b - t * t - c * c) / (4 * t); (b * t + a * c) / (2 * t); (b * c - a * t) / (2 * t);
    (b * t - a * c) / (2 * t); (a * a - b * b + t * t - c * c) / (4 * t); (t * c + a * b) / (2 * t);
    (b * c + a * t) / (2 * t); (t * c - a * b) / (2 * t); (a * a - b * b - t * t + c * c) / (4 * t) ].
Proof. intro Hs. SO3Quat_unfold. cbv zeta. list_eq; field; assumption. Qed.
Lemma quat_matrix_pivot3 s a b c : s <> 0 ->
  SO3Quat_to_Matrix_v [a / (2 * s); b / (2 * s); c / (2 * s); s / 2] =
  let t := s * s in
  [ (a * a + b * b - c * c - t * t) / (4 * t); (b * c + a * t) / (2 * t); (b * t - a * c) / (2 * t);
    (b * c - a * t) / (2 * t); (a * a - b * b + c * c - t * t) / (4 * t); (c * t + a * b) / (2 * t);
    (b * t + a * c) / (2 * t); (c * t - a * b) / (2 * t); (a * a - b * b - c * c + t * t) / (4 * t) ].
Proof. intro Hs. SO3Quat_unfold. cbv zeta. list_eq; field; assumption. Qed.

Lemma norm_pivot s a b c : s <> 0 ->
  (s / 2) * (s / 2) + (a / (2 * s)) * (a / (2 * s)) + (b / (2 * s)) * (b / (2 * s)) + (c / (2 * s)) * (c / (2 * s))
  = (s * s * (s * s) + a * a + b * b + c * c) / (4 * (s * s)).
Proof. intro. field. assumption. Qed.

Lemma div_eq_intro x d y : d <> 0 -> x = y * d -> x / d = y.
Proof. intros Hd ->. field. assumption. Qed.

Lemma q0_bound a s t : 0 < s -> s * s = t -> a * a < 4 * t -> -1 < a / (2 * s).
Proof.
  intros Hs Es Ha. assert (L : - (2 * s) < a) by nra.
  replace (-1) with (- (2 * s) / (2 * s)) by (field; lra).
  unfold Rdiv. apply Rmult_lt_compat_r; [apply Rinv_0_lt_compat; lra | exact L].
Qed.

Section Branches.
Variables r00 r10 r20 r01 r11 r21 r02 r12 r22 : R.
Hypothesis Hrot : rotfacts r00 r10 r20 r01 r11 r21 r02 r12 r22.

Definition qM := SO3Quat_from_Matrix r00 r10 r20 r01 r11 r21 r02 r12 r22.
Definition target := [r00; r10; r20; r01; r11; r21; r02; r12; r22].

(* which branch is selected, as the code's own comparisons *)
Definition br1 := 0 < r00 + r11 + r22.
Definition br2 := r00 + r11 + r22 <= 0 /\ r11 < r00 /\ r22 < r00.
Definition br3 := r00 + r11 + r22 <= 0 /\ ~ (r11 < r00 /\ r22 < r00) /\ r22 < r11.
Definition br4 := r00 + r11 + r22 <= 0 /\ ~ (r11 < r00 /\ r22 < r00) /\ r11 <= r22.

Lemma branches_exhaustive : br1 \/ br2 \/ br3 \/ br4.
Proof.
  unfold br1, br2, br3, br4.
  destruct (Rlt_dec 0 (r00 + r11 + r22)); [left; assumption|right].
  destruct (Rlt_dec r11 r00); destruct (Rlt_dec r22 r00); destruct (Rlt_dec r22 r11);
    try (left; lra); right; try (left; split; [lra|split; [intros [? ?]; lra|lra]]);
    right; (split; [lra|split; [intros [? ?]; lra|lra]]).
Qed.

(* final step shared by the four branches: entries are rational in t and the rotation entries *)
Ltac close_entries :=
  rot_facts Hrot; list_eq; (apply div_eq_intro; [ lra | lra ]).

(* one branch: t the selected pivot expression (1 < t), ql the explicit quaternion, piv the matching pivot lemma *)
Ltac branch t ql piv a b c :=
  let Ht := fresh "Ht" in let Es := fresh "Es" in let Ps := fresh "Ps" in let E := fresh "E" in
  assert (Ht : 1 <= t) by lra;
  assert (Es : sqrt t * sqrt t = t) by (apply sqrt_sqrt; lra);
  assert (Ps : 0 < sqrt t) by (apply sqrt_lt_R0; lra);
  assert (E : SO3Quat_from_Matrix r00 r10 r20 r01 r11 r21 r02 r12 r22 = ql);
  [ unfold SO3Quat_from_Matrix; decide_bools; list_eq; field; lra
  | rewrite E; split; [ | split ];
    [ rewrite piv by lra; cbv zeta; rewrite Es; close_entries
    | unfold norm2, dot; cbn [combine map fold_right fst snd];
      match goal with |- ?L = 1 =>
        replace L with ((sqrt t * sqrt t * (sqrt t * sqrt t) + a * a + b * b + c * c) / (4 * (sqrt t * sqrt t))) by (field; lra) end;
      rewrite Es; rot_facts Hrot; apply div_eq_intro; lra
    | cbn [nth]; first [ lra |
        apply (q0_bound _ _ t Ps Es);
        let N := fresh "N" in
        assert (N : a * a + b * b + c * c + t * t = 4 * t) by (rot_facts Hrot; lra);
        pose proof (Rle_0_sqr b); pose proof (Rle_0_sqr c); unfold Rsqr in *;
        assert (0 < t * t) by (apply Rmult_lt_0_compat; lra); lra ] ] ].

Lemma shepperd_branch1 : br1 -> SO3Quat_to_Matrix_v qM = target /\ norm2 qM = 1 /\ -1 < nth 0 qM 0.
Proof.
  unfold br1, qM, target. intro Hb.
  branch (1 + r00 + r11 + r22)
    [sqrt (1 + r00 + r11 + r22) / 2; (r21 - r12) / (2 * sqrt (1 + r00 + r11 + r22));
     (r02 - r20) / (2 * sqrt (1 + r00 + r11 + r22)); (r10 - r01) / (2 * sqrt (1 + r00 + r11 + r22))]
    quat_matrix_pivot0 (r21 - r12) (r02 - r20) (r10 - r01).
Qed.

Lemma shepperd_branch2 : br2 -> SO3Quat_to_Matrix_v qM = target /\ norm2 qM = 1 /\ -1 < nth 0 qM 0.
Proof.
  unfold br2, qM, target. intros (Hb & H1 & H2).
  branch (1 + r00 - r11 - r22)
    [(r21 - r12) / (2 * sqrt (1 + r00 - r11 - r22)); sqrt (1 + r00 - r11 - r22) / 2;
     (r01 + r10) / (2 * sqrt (1 + r00 - r11 - r22)); (r02 + r20) / (2 * sqrt (1 + r00 - r11 - r22))]
    quat_matrix_pivot1 (r21 - r12) (r01 + r10) (r02 + r20).
Qed.

Lemma shepperd_branch3 : br3 -> SO3Quat_to_Matrix_v qM = target /\ norm2 qM = 1 /\ -1 < nth 0 qM 0.
Proof.
  unfold br3, qM, target. intros (Hb & H1 & H2).
  assert (Hc : r00 <= r11 \/ r00 <= r22) by (destruct (Rlt_dec r11 r00); destruct (Rlt_dec r22 r00); try tauto; lra).
  destruct Hc as [Hc|Hc];
  branch (1 - r00 + r11 - r22)
    [(r02 - r20) / (2 * sqrt (1 - r00 + r11 - r22)); (r01 + r10) / (2 * sqrt (1 - r00 + r11 - r22));
     sqrt (1 - r00 + r11 - r22) / 2; (r12 + r21) / (2 * sqrt (1 - r00 + r11 - r22))]
    quat_matrix_pivot2 (r02 - r20) (r01 + r10) (r12 + r21).
Qed.

Lemma shepperd_branch4 : br4 -> SO3Quat_to_Matrix_v qM = target /\ norm2 qM = 1 /\ -1 < nth 0 qM 0.
Proof.
  unfold br4, qM, target. intros (Hb & H1 & H2).
  assert (Hc : r00 <= r11 \/ r00 <= r22) by (destruct (Rlt_dec r11 r00); destruct (Rlt_dec r22 r00); try tauto; lra).
  destruct Hc as [Hc|Hc];
  branch (1 - r00 - r11 + r22)
    [(r10 - r01) / (2 * sqrt (1 - r00 - r11 + r22)); (r02 + r20) / (2 * sqrt (1 - r00 - r11 + r22));
     (r12 + r21) / (2 * sqrt (1 - r00 - r11 + r22)); sqrt (1 - r00 - r11 + r22) / 2]
    quat_matrix_pivot3 (r10 - r01) (r02 + r20) (r12 + r21).
Qed.

(* every proper rotation matrix: the result is a unit quaternion with that matrix *)
Theorem shepperd_correct : SO3Quat_to_Matrix_v qM = target /\ norm2 qM = 1 /\ -1 < nth 0 qM 0.
Proof.
  destruct branches_exhaustive as [H|[H|[H|H]]];
  [apply shepperd_branch1|apply shepperd_branch2|apply shepperd_branch3|apply shepperd_branch4]; exact H.
Qed.

End Branches.

Theorem from_Matrix_right_inverse M : proper_rotation M ->
  SO3Quat_to_Matrix_v (SO3Quat_from_Matrix_v M) = M /\ norm2 (SO3Quat_from_Matrix_v M) = 1
  /\ length (SO3Quat_from_Matrix_v M) = 4%nat /\ -1 < nth 0 (SO3Quat_from_Matrix_v M) 0.
Proof.
  intros (r00 & r10 & r20 & r01 & r11 & r21 & r02 & r12 & r22 & -> & H).
  destruct (shepperd_correct _ _ _ _ _ _ _ _ _ H) as (A & B & C).
  unfold qM, target in *. split; [exact A|split; [exact B|split; [reflexivity|exact C]]].
Qed.
