(* C04/C01: Euler groups of other sequences and of space-fixed type (built through the public constructor):
   to_Matrix is the composition of the elementary rotations in the declared order and Ad is that matrix *)
From Coq Require Import Reals List Lra Lia.
From Cyecca Require Import Base.Ops Base.Tactics Spec.Mat Gen.SO3Euler.
Import ListNotations.
Local Open Scope R_scope.

Definition Rx (a : R) : list R := [1; 0; 0; 0; cos a; sin a; 0; - sin a; cos a].
Definition Ry (a : R) : list R := [cos a; 0; - sin a; 0; 1; 0; sin a; 0; cos a].
Definition Rz (a : R) : list R := [cos a; sin a; 0; - sin a; cos a; 0; 0; 0; 1].

(* space-fixed x-y-z: later rotations multiply on the left *)
Lemma euler_Sxyz_matrix e0 e1 e2 : SO3EulerSxyz_to_Matrix e0 e1 e2 = mmul 3 3 3 (Rz e2) (mmul 3 3 3 (Ry e1) (Rx e0)).
Proof. cbv beta iota zeta delta [SO3EulerSxyz_to_Matrix Rx Ry Rz]. mat_cbv. list_eq; ring. Qed.
Lemma euler_Sxyz_Ad e0 e1 e2 : SO3EulerSxyz_Ad e0 e1 e2 = SO3EulerSxyz_to_Matrix e0 e1 e2.
Proof. cbv beta iota zeta delta [SO3EulerSxyz_Ad SO3EulerSxyz_to_Matrix]. list_eq; ring. Qed.
(* space-fixed z-x-z *)
Lemma euler_Szxz_matrix e0 e1 e2 : SO3EulerSzxz_to_Matrix e0 e1 e2 = mmul 3 3 3 (Rz e2) (mmul 3 3 3 (Rx e1) (Rz e0)).
Proof. cbv beta iota zeta delta [SO3EulerSzxz_to_Matrix Rx Ry Rz]. mat_cbv. list_eq; ring. Qed.
Lemma euler_Szxz_Ad e0 e1 e2 : SO3EulerSzxz_Ad e0 e1 e2 = SO3EulerSzxz_to_Matrix e0 e1 e2.
Proof. cbv beta iota zeta delta [SO3EulerSzxz_Ad SO3EulerSzxz_to_Matrix]. list_eq; ring. Qed.
(* body-fixed x-y-z: later rotations multiply on the right *)
Lemma euler_Bxyz_matrix e0 e1 e2 : SO3EulerBxyz_to_Matrix e0 e1 e2 = mmul 3 3 3 (Rx e0) (mmul 3 3 3 (Ry e1) (Rz e2)).
Proof. cbv beta iota zeta delta [SO3EulerBxyz_to_Matrix Rx Ry Rz]. mat_cbv. list_eq; ring. Qed.
Lemma euler_Bxyz_Ad e0 e1 e2 : SO3EulerBxyz_Ad e0 e1 e2 = SO3EulerBxyz_to_Matrix e0 e1 e2.
Proof. cbv beta iota zeta delta [SO3EulerBxyz_Ad SO3EulerBxyz_to_Matrix]. list_eq; ring. Qed.
