(* C16: rigid-body invariants of quadrotor.derive_model()  -- all on generated code *)
From Coq Require Import Reals List Lra Lia.
From Cyecca Require Import Base.Ops Base.Tactics Gen.Quadrotor.
Import ListNotations.
Local Open Scope R_scope.

Section Quad.
(* parameter vector p, in the order quadrotor.derive_model() stacks it *)
Variables (tau_up tau_down d0 d1 d2 d3 l0 l1 l2 l3 th0 th1 th2 th3 CT CM Cl_p Cm_q Cn_r CD0 S rho g m Jx Jy Jz : R).
Variables (n0 n1 n2 n3 n4 n5 n6 n7 n8 n9 n10 n11 : R).  (* noise powers: unused by f *)

Definition F (px py pz vx vy vz q0 q1 q2 q3 wx wy wz m0 m1 m2 m3 u0 u1 u2 u3 : R) : list R :=
  quad_f px py pz vx vy vz q0 q1 q2 q3 wx wy wz m0 m1 m2 m3 u0 u1 u2 u3
    tau_up tau_down d0 d1 d2 d3 l0 l1 l2 l3 th0 th1 th2 th3 CT CM Cl_p Cm_q Cn_r CD0 S rho g m Jx Jy Jz
    n0 n1 n2 n3 n4 n5 n6 n7 n8 n9 n10 n11.

Definition Gacc (px py pz vx vy vz q0 q1 q2 q3 wx wy wz m0 m1 m2 m3 u0 u1 u2 u3 w0 w1 w2 dt : R) : list R :=
  quad_g_accel px py pz vx vy vz q0 q1 q2 q3 wx wy wz m0 m1 m2 m3 u0 u1 u2 u3
    tau_up tau_down d0 d1 d2 d3 l0 l1 l2 l3 th0 th1 th2 th3 CT CM Cl_p Cm_q Cn_r CD0 S rho g m Jx Jy Jz
    n0 n1 n2 n3 n4 n5 n6 n7 n8 n9 n10 n11 w0 w1 w2 dt.

Definition Ggyro (px py pz vx vy vz q0 q1 q2 q3 wx wy wz m0 m1 m2 m3 u0 u1 u2 u3 w0 w1 w2 dt : R) : list R :=
  quad_g_gyro px py pz vx vy vz q0 q1 q2 q3 wx wy wz m0 m1 m2 m3 u0 u1 u2 u3
    tau_up tau_down d0 d1 d2 d3 l0 l1 l2 l3 th0 th1 th2 th3 CT CM Cl_p Cm_q Cn_r CD0 S rho g m Jx Jy Jz
    n0 n1 n2 n3 n4 n5 n6 n7 n8 n9 n10 n11 w0 w1 w2 dt.

Ltac unfoldF := repeat match goal with r := _ |- _ => subst r end; unfold F, Gacc, Ggyro; cbv beta iota zeta delta [quad_f quad_g_accel quad_g_gyro nth].

(* 1. q . qdot = 0 for every state, input and parameter vector *)
Lemma quat_norm_preserved px py pz vx vy vz q0 q1 q2 q3 wx wy wz m0 m1 m2 m3 u0 u1 u2 u3 :
  let r := F px py pz vx vy vz q0 q1 q2 q3 wx wy wz m0 m1 m2 m3 u0 u1 u2 u3 in
  q0 * nth 6 r 0 + q1 * nth 7 r 0 + q2 * nth 8 r 0 + q3 * nth 9 r 0 = 0.
Proof. unfoldF. ring. Qed.

(* 1b. the attitude kinematics are exactly qdot = 1/2 q (x) (0,w) *)
Lemma quat_kinematics px py pz vx vy vz q0 q1 q2 q3 wx wy wz m0 m1 m2 m3 u0 u1 u2 u3 :
  let r := F px py pz vx vy vz q0 q1 q2 q3 wx wy wz m0 m1 m2 m3 u0 u1 u2 u3 in
  [nth 6 r 0; nth 7 r 0; nth 8 r 0; nth 9 r 0] =
  [(- q1 * wx - q2 * wy - q3 * wz) / 2; (q0 * wx + q2 * wz - q3 * wy) / 2;
   (q0 * wy - q1 * wz + q3 * wx) / 2; (q0 * wz + q1 * wy - q2 * wx) / 2].
Proof. unfoldF. list_eq; field. Qed.

(* 1c. position kinematics: pdot = R(q) v_body *)
Lemma position_kinematics px py pz vx vy vz q0 q1 q2 q3 wx wy wz m0 m1 m2 m3 u0 u1 u2 u3 :
  let r := F px py pz vx vy vz q0 q1 q2 q3 wx wy wz m0 m1 m2 m3 u0 u1 u2 u3 in
  [nth 0 r 0; nth 1 r 0; nth 2 r 0] =
  [(q0*q0+q1*q1-q2*q2-q3*q3) * vx + 2*(q1*q2-q0*q3) * vy + 2*(q1*q3+q0*q2) * vz;
   2*(q1*q2+q0*q3) * vx + (q0*q0-q1*q1+q2*q2-q3*q3) * vy + 2*(q2*q3-q0*q1) * vz;
   2*(q1*q3-q0*q2) * vx + 2*(q2*q3+q0*q1) * vy + (q0*q0-q1*q1-q2*q2+q3*q3) * vz].
Proof. unfoldF. list_eq; ring. Qed.

(* 2. level hover is an equilibrium *)
Lemma hover_equilibrium px py pz w :
  0 <= pz -> m <> 0 -> Jx <> 0 -> Jy <> 0 -> Jz <> 0 -> tau_down <> 0 ->
  4 * (CT * (w * w)) = m * g ->
  l0 * cos th0 + l1 * cos th1 + l2 * cos th2 + l3 * cos th3 = 0 ->
  l0 * sin th0 + l1 * sin th1 + l2 * sin th2 + l3 * sin th3 = 0 ->
  d0 + d1 + d2 + d3 = 0 ->
  F px py pz 0 0 0 1 0 0 0 0 0 0 w w w w w w w w = [0;0;0;0;0;0;0;0;0;0;0;0;0;0;0;0;0].
Proof.
  intros Hz Hm HJx HJy HJz Htd Hw Hc Hs Hd.
  unfoldF.
  repeat match goal with |- context [sqrt ?e] => rewrite (sqrt_zero_arg e) by ring end.
  decide_bools.
  assert (Hl3c : l3 * cos th3 = - (l0 * cos th0 + l1 * cos th1 + l2 * cos th2)) by lra.
  assert (Hl3s : l3 * sin th3 = - (l0 * sin th0 + l1 * sin th1 + l2 * sin th2)) by lra.
  assert (Hd3 : d3 = - (d0 + d1 + d2)) by lra.
  assert (Hg : g = 4 * (CT * (w * w)) / m) by (rewrite Hw; field; assumption).
  list_eq; try (field; auto);
  try (rewrite Hg; field; auto);
  try (field_simplify_eq; auto; try rewrite Hd3;
       match goal with |- ?L = ?R => ring_simplify L R end; nra).
  all: unfold Rdiv; apply Rmult_eq_0_compat_r.
  - transitivity ((l0 * sin th0 + l1 * sin th1 + l2 * sin th2 + l3 * sin th3) * (CT * (w * w))); [ring | rewrite Hs; ring].
  - transitivity (- (l0 * cos th0 + l1 * cos th1 + l2 * cos th2 + l3 * cos th3) * (CT * (w * w))); [ring | rewrite Hc; ring].
Qed.

(* 3. accelerometer reads zero in free fall (no rotor thrust, above ground, no drag, noise sample 0) *)
Lemma free_fall_accel_zero px py pz vx vy vz q0 q1 q2 q3 wx wy wz u0 u1 u2 u3 dt :
  0 <= pz -> CD0 = 0 ->
  Gacc px py pz vx vy vz q0 q1 q2 q3 wx wy wz 0 0 0 0 u0 u1 u2 u3 0 0 0 dt = [0; 0; 0].
Proof.
  intros Hz HCD. unfoldF. rewrite HCD. decide_bools.
  list_eq; ifz_zero; unfold Rdiv; ring.
Qed.

(* 3b. gyro reads the body rate (noise sample 0) *)
Lemma gyro_reads_rate px py pz vx vy vz q0 q1 q2 q3 wx wy wz m0 m1 m2 m3 u0 u1 u2 u3 dt :
  Ggyro px py pz vx vy vz q0 q1 q2 q3 wx wy wz m0 m1 m2 m3 u0 u1 u2 u3 0 0 0 dt = [wx; wy; wz].
Proof. unfoldF. list_eq; ring. Qed.

(* 4a. Euler's equation: J wdot + w x J w = sum over rotors of arm x thrust - reaction torque + aero moment *)
Lemma moment_is_sum_over_rotors px py pz vx vy vz q0 q1 q2 q3 wx wy wz m0 m1 m2 m3 u0 u1 u2 u3 :
  Jx <> 0 -> Jy <> 0 -> Jz <> 0 ->
  let r := F px py pz vx vy vz q0 q1 q2 q3 wx wy wz m0 m1 m2 m3 u0 u1 u2 u3 in
  let T0 := CT * (m0 * m0) in let T1 := CT * (m1 * m1) in
  let T2 := CT * (m2 * m2) in let T3 := CT * (m3 * m3) in
  [Jx * nth 10 r 0 + (wy * (Jz * wz) - wz * (Jy * wy));
   Jy * nth 11 r 0 + (wz * (Jx * wx) - wx * (Jz * wz));
   Jz * nth 12 r 0 + (wx * (Jy * wy) - wy * (Jx * wx))] =
  [l0 * sin th0 * T0 + l1 * sin th1 * T1 + l2 * sin th2 * T2 + l3 * sin th3 * T3
     + Cl_p * wx * S * (l0 + l1 + l2 + l3);
   - (l0 * cos th0 * T0 + l1 * cos th1 * T1 + l2 * cos th2 * T2 + l3 * cos th3 * T3)
     + Cm_q * wy * S * (l0 + l1 + l2 + l3);
   - CM * (d0 * T0 + d1 * T1 + d2 * T2 + d3 * T3) + Cn_r * wz * S * (l0 + l1 + l2 + l3)].
Proof. intros HJx HJy HJz. unfoldF. list_eq; field; assumption. Qed.

(* 4b. zero moment for equal speeds on a symmetric frame at zero body rate *)
Lemma zero_moment_symmetric px py pz vx vy vz q0 q1 q2 q3 w u0 u1 u2 u3 :
  Jx <> 0 -> Jy <> 0 -> Jz <> 0 ->
  l0 * cos th0 + l1 * cos th1 + l2 * cos th2 + l3 * cos th3 = 0 ->
  l0 * sin th0 + l1 * sin th1 + l2 * sin th2 + l3 * sin th3 = 0 ->
  d0 + d1 + d2 + d3 = 0 ->
  let r := F px py pz vx vy vz q0 q1 q2 q3 0 0 0 w w w w u0 u1 u2 u3 in
  [nth 10 r 0; nth 11 r 0; nth 12 r 0] = [0; 0; 0].
Proof.
  intros HJx HJy HJz Hc Hs Hd.
  unfoldF. list_eq; unfold Rdiv; apply Rmult_eq_0_compat_r.
  - transitivity ((l0 * sin th0 + l1 * sin th1 + l2 * sin th2 + l3 * sin th3) * (CT * (w * w))); [ring | rewrite Hs; ring].
  - transitivity (- (l0 * cos th0 + l1 * cos th1 + l2 * cos th2 + l3 * cos th3) * (CT * (w * w))); [ring | rewrite Hc; ring].
  - transitivity (- CM * ((d0 + d1 + d2 + d3) * (CT * (w * w)))); [ring | rewrite Hd; ring].
Qed.

(* 4c. Newton's equation above ground without drag: m (vdot + w x v) = total thrust along body z + gravity in body axes *)
Lemma force_is_sum_over_rotors px py pz vx vy vz q0 q1 q2 q3 wx wy wz m0 m1 m2 m3 u0 u1 u2 u3 :
  0 <= pz -> CD0 = 0 -> m <> 0 ->
  let r := F px py pz vx vy vz q0 q1 q2 q3 wx wy wz m0 m1 m2 m3 u0 u1 u2 u3 in
  [m * (nth 3 r 0 + (wy * vz - wz * vy));
   m * (nth 4 r 0 + (wz * vx - wx * vz));
   m * (nth 5 r 0 + (wx * vy - wy * vx))] =
  [- m * g * (2 * (q1 * q3 - q0 * q2));
   - m * g * (2 * (q2 * q3 + q0 * q1));
   CT * (m0 * m0) + CT * (m1 * m1) + CT * (m2 * m2) + CT * (m3 * m3)
     - m * g * (q0 * q0 - q1 * q1 - q2 * q2 + q3 * q3)].
Proof.
  intros Hz HCD Hm. unfoldF. rewrite HCD. decide_bools.
  list_eq; ifz_zero; abstract_ifz; (field_simplify_eq; [ring | assumption]).
Qed.

(* 6. first-order motor response with the spin-up / spin-down time constant *)
Lemma motor_spin_up px py pz vx vy vz q0 q1 q2 q3 wx wy wz m0 m1 m2 m3 u0 u1 u2 u3 :
  m0 < u0 -> m1 < u1 -> m2 < u2 -> m3 < u3 ->
  let r := F px py pz vx vy vz q0 q1 q2 q3 wx wy wz m0 m1 m2 m3 u0 u1 u2 u3 in
  [nth 13 r 0; nth 14 r 0; nth 15 r 0; nth 16 r 0] =
  [(u0 - m0) / tau_up; (u1 - m1) / tau_up; (u2 - m2) / tau_up; (u3 - m3) / tau_up].
Proof.
  intros. unfoldF. decide_bools. list_eq; unfold Rdiv; ring.
Qed.
Lemma motor_spin_down px py pz vx vy vz q0 q1 q2 q3 wx wy wz m0 m1 m2 m3 u0 u1 u2 u3 :
  u0 <= m0 -> u1 <= m1 -> u2 <= m2 -> u3 <= m3 ->
  let r := F px py pz vx vy vz q0 q1 q2 q3 wx wy wz m0 m1 m2 m3 u0 u1 u2 u3 in
  [nth 13 r 0; nth 14 r 0; nth 15 r 0; nth 16 r 0] =
  [(u0 - m0) / tau_down; (u1 - m1) / tau_down; (u2 - m2) / tau_down; (u3 - m3) / tau_down].
Proof.
  intros. unfoldF. decide_bools. list_eq; unfold Rdiv; ring.
Qed.
(* each motor is independent of the others: mixed case for motor 0 *)
Lemma motor0_independent px py pz vx vy vz q0 q1 q2 q3 wx wy wz m0 m1 m2 m3 u0 u1 u2 u3 :
  let r := F px py pz vx vy vz q0 q1 q2 q3 wx wy wz m0 m1 m2 m3 u0 u1 u2 u3 in
  nth 13 r 0 = if Rlt_dec m0 u0 then (u0 - m0) / tau_up else (u0 - m0) / tau_down.
Proof.
  unfoldF. destruct (Rlt_dec m0 u0) as [H|H].
  - rewrite (op_lt_true 0 (u0 - m0)) by lra. simp_bools_goal. unfold Rdiv; ring.
  - rewrite (op_lt_false 0 (u0 - m0)) by lra. simp_bools_goal. unfold Rdiv; ring.
Qed.

(* 5a. equivariance under horizontal translation of the world frame *)
Lemma translation_invariant a b px py pz vx vy vz q0 q1 q2 q3 wx wy wz m0 m1 m2 m3 u0 u1 u2 u3 :
  F (px + a) (py + b) pz vx vy vz q0 q1 q2 q3 wx wy wz m0 m1 m2 m3 u0 u1 u2 u3 =
  F px py pz vx vy vz q0 q1 q2 q3 wx wy wz m0 m1 m2 m3 u0 u1 u2 u3.
Proof. unfoldF. reflexivity. Qed.

End Quad.
