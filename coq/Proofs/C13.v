(* C13: control allocation, on the predicate-transformer form of the generated unit *)
From Coq Require Import Reals List Lra Lia.
From Cyecca Require Import Base.Ops Base.Tactics Base.Slice Spec.Mat Gen.Rdd2.
Import ListNotations.
Local Open Scope R_scope.

(* output layout: omega[0:4], Fp_sum[4:8], F_moment[8:12], F_thrust[12:16], M_sat[16:19] *)

Lemma alloc_range F_max l Cm Ct T M0 M1 M2 : 0 <= F_max ->
  rdd2_control_allocation_wp F_max l Cm Ct T M0 M1 M2 (fun r =>
    0 <= nth 4 r 0 <= F_max /\ 0 <= nth 5 r 0 <= F_max /\ 0 <= nth 6 r 0 <= F_max /\ 0 <= nth 7 r 0 <= F_max).
Proof.
  intro HF. wp_intro rdd2_control_allocation_wp. cbv beta iota delta [nth]. all_eqns.
  repeat split.
  all: match goal with |- ?a <= ?b => slice a 5%nat; slice b 5%nat end; drop_rest; cases; lra.
Qed.

(* motor speeds: omega_i = sqrt (F_i / Ct) >= 0, and omega_i^2 Ct = F_i *)
Lemma alloc_omega F_max l Cm Ct T M0 M1 M2 : 0 <= F_max -> 0 < Ct ->
  rdd2_control_allocation_wp F_max l Cm Ct T M0 M1 M2 (fun r =>
    (0 <= nth 0 r 0 /\ nth 0 r 0 * nth 0 r 0 * Ct = nth 4 r 0) /\
    (0 <= nth 1 r 0 /\ nth 1 r 0 * nth 1 r 0 * Ct = nth 5 r 0) /\
    (0 <= nth 2 r 0 /\ nth 2 r 0 * nth 2 r 0 * Ct = nth 6 r 0) /\
    (0 <= nth 3 r 0 /\ nth 3 r 0 * nth 3 r 0 * Ct = nth 7 r 0)).
Proof.
  intros HF HC.
  wp_intro rdd2_control_allocation_wp. cbv beta iota delta [nth]. all_eqns.
  assert (K : forall w f, w = sqrt (f / Ct) -> 0 <= f -> 0 <= w /\ w * w * Ct = f).
  { intros w f -> Hf. split; [apply sqrt_pos|]. rewrite sqrt_sqrt; [field; lra|].
    apply Rmult_le_pos; [lra | apply Rlt_le, Rinv_0_lt_compat, HC]. }
  repeat match goal with |- (_ /\ _) /\ _ => split end.
  all: match goal with |- 0 <= ?w /\ _ = ?f => slice w 2%nat; slice f 5%nat end; drop_rest; cases;
       match goal with H : ?w = sqrt ?d, H2 : ?d = ?f / _ |- 0 <= ?w /\ _ => rewrite H2 in H; apply (K w f H); lra end.
Qed.

(* jointly achievable demand: reproduced exactly *)
Lemma alloc_exact_when_feasible F_max l Cm Ct T M0 M1 M2 : 0 <= F_max ->
  rdd2_control_allocation_wp F_max l Cm Ct T M0 M1 M2 (fun r =>
    0 <= nth 8 r 0 + nth 12 r 0 <= F_max -> 0 <= nth 9 r 0 + nth 13 r 0 <= F_max ->
    0 <= nth 10 r 0 + nth 14 r 0 <= F_max -> 0 <= nth 11 r 0 + nth 15 r 0 <= F_max ->
    [nth 4 r 0; nth 5 r 0; nth 6 r 0; nth 7 r 0] =
    [nth 8 r 0 + nth 12 r 0; nth 9 r 0 + nth 13 r 0; nth 10 r 0 + nth 14 r 0; nth 11 r 0 + nth 15 r 0]).
Proof.
  intro HF. wp_intro rdd2_control_allocation_wp. cbv beta iota delta [nth] in *. all_eqns.
  list_eq.
  all: match goal with |- ?a = _ => slice a 16%nat end; drop_rest; decide_cmps; lra.
Qed.

(* moment alone achievable (the spread of the moment part fits in F_max): every motor gets its moment part plus the
   common thrust part plus ONE common shift c, so the realised moment is the demanded one; the shift is the least needed:
   zero, or upwards until the emptiest motor is at 0, or downwards until the fullest motor is at F_max *)
Ltac cut_at v := match goal with H : Eqn v _ |- _ => clear H end.

Definition spread4 (a b c d m : R) : Prop :=
  a - b <= m /\ a - c <= m /\ a - d <= m /\ b - a <= m /\ b - c <= m /\ b - d <= m /\
  c - a <= m /\ c - b <= m /\ c - d <= m /\ d - a <= m /\ d - b <= m /\ d - c <= m.
Definition least_shift (c lo hi p0 p1 p2 p3 : R) : Prop :=
  c = 0 \/ (0 < c /\ (p0 = lo \/ p1 = lo \/ p2 = lo \/ p3 = lo)) \/ (c < 0 /\ (p0 = hi \/ p1 = hi \/ p2 = hi \/ p3 = hi)).

Lemma max4_spec m a b c d : m = Rmax (Rmax (Rmax a b) c) d ->
  (a <= m /\ b <= m /\ c <= m /\ d <= m) /\ (m = a \/ m = b \/ m = c \/ m = d).
Proof.
  intros ->. destruct (Rmax_spec a b) as [[E1 ?]|[E1 ?]]; rewrite E1;
  match goal with |- context [Rmax (Rmax ?x c) d] => destruct (Rmax_spec x c) as [[E2 ?]|[E2 ?]]; rewrite E2 end;
  match goal with |- context [Rmax ?x d] => destruct (Rmax_spec x d) as [[E3 ?]|[E3 ?]]; rewrite E3 end;
  (split; [repeat split; lra | auto]).
Qed.
Lemma min4_spec m a b c d : m = Rmin (Rmin (Rmin a b) c) d ->
  (m <= a /\ m <= b /\ m <= c /\ m <= d) /\ (m = a \/ m = b \/ m = c \/ m = d).
Proof.
  intros ->. destruct (Rmin_spec a b) as [[E1 ?]|[E1 ?]]; rewrite E1;
  match goal with |- context [Rmin (Rmin ?x c) d] => destruct (Rmin_spec x c) as [[E2 ?]|[E2 ?]]; rewrite E2 end;
  match goal with |- context [Rmin ?x d] => destruct (Rmin_spec x d) as [[E3 ?]|[E3 ?]]; rewrite E3 end;
  (split; [repeat split; lra | auto]).
Qed.

Lemma alloc_moment_kept F_max l Cm Ct T M0 M1 M2 : 0 <= F_max ->
  rdd2_control_allocation_wp F_max l Cm Ct T M0 M1 M2 (fun r =>
    spread4 (nth 8 r 0) (nth 9 r 0) (nth 10 r 0) (nth 11 r 0) F_max ->
    (nth 12 r 0 = nth 13 r 0 /\ nth 13 r 0 = nth 14 r 0 /\ nth 14 r 0 = nth 15 r 0) /\
    exists c, nth 4 r 0 = nth 8 r 0 + nth 12 r 0 + c /\ nth 5 r 0 = nth 9 r 0 + nth 13 r 0 + c /\
              nth 6 r 0 = nth 10 r 0 + nth 14 r 0 + c /\ nth 7 r 0 = nth 11 r 0 + nth 15 r 0 + c /\
              least_shift c 0 F_max (nth 4 r 0) (nth 5 r 0) (nth 6 r 0) (nth 7 r 0)).
Proof.
  intro HF. wp_intro rdd2_control_allocation_wp. cbv beta iota delta [nth spread4 least_shift] in *. all_eqns.
  match goal with |- (?t0 = ?t1 /\ ?t1 = ?t2 /\ ?t2 = ?t3) /\ _ =>
    assert (Ht : t0 = t1 /\ t1 = t2 /\ t2 = t3) by (slice t0 1%nat; slice t1 1%nat; slice t2 1%nat; slice t3 1%nat; drop_rest; lra);
    split; [exact Ht|]; cut_at t0; cut_at t1; cut_at t2; cut_at t3 end.
  match goal with |- exists c, _ = ?m0 + _ + c /\ _ = ?m1 + _ + c /\ _ = ?m2 + _ + c /\ _ = ?m3 + _ + c /\ _ =>
    cut_at m0; cut_at m1; cut_at m2; cut_at m3 end.
  slice_goal 40%nat. drop_rest.
  (* the max / min of the summed motor forces: 4 x 4 cases *)
  destruct H as (S1 & S2 & S3 & S4 & S5 & S6 & S7 & S8 & S9 & S10 & S11 & S12). destruct Ht as (T1 & T2 & T3).
  match goal with H3 : ?mx = Rmax ?x2 ?d, H2 : ?x2 = Rmax ?x1 ?c, H1 : ?x1 = Rmax ?a ?b, Hc : _ = F_max - ?mx |- _ =>
    rewrite H1 in H2; rewrite H2 in H3; clear H1 H2; destruct (max4_spec _ _ _ _ _ H3) as [(?&?&?&?) Emx]; clear H3 end.
  match goal with H3 : ?mn = Rmin ?x2 ?d, H2 : ?x2 = Rmin ?x1 ?c, H1 : ?x1 = Rmin ?a ?b |- _ =>
    rewrite H1 in H2; rewrite H2 in H3; clear H1 H2; destruct (min4_spec _ _ _ _ _ H3) as [(?&?&?&?) Emn]; clear H3 end.
  repeat match goal with H : _ = Rmax _ _ |- _ => clear H | H : _ = Rabs _ |- _ => clear H | H : _ = op_lt (_ / _) _ |- _ => clear H end.
  match goal with H : ?a = op_and ?c1 ?c2, H1 : ?c1 = op_lt ?x 0, H2 : ?c2 = op_lt ?y 0 |- _ =>
    destruct (Rlt_dec x 0) as [L1|L1]; [rewrite (op_lt_true x 0 L1) in H1 | apply Rnot_lt_le in L1; rewrite (op_lt_false x 0 L1) in H1];
    (destruct (Rlt_dec y 0) as [L2|L2]; [rewrite (op_lt_true y 0 L2) in H2 | apply Rnot_lt_le in L2; rewrite (op_lt_false y 0 L2) in H2]) end.
  1: exfalso; destruct Emx as [Emx|[Emx|[Emx|Emx]]]; destruct Emn as [Emn|[Emn|[Emn|Emn]]]; lra.
  all: simp_bools.
  all: decide_cmps_lra.
  all: match goal with |- exists c, ?p0 = ?m0 + ?t0 + c /\ _ => exists (p0 - m0 - t0) end.
  all: split; [lra|]; split; [lra|]; split; [lra|]; split; [lra|].
  (* thrust lowered by C1: the fullest motor ends at F_max *)
  - right; right. split; [lra|]. destruct Emx as [Emx|[Emx|[Emx|Emx]]]; [left | right; left | right; right; left | right; right; right]; lra.
  (* thrust raised by -C2: the emptiest motor ends at 0 *)
  - right; left. split; [lra|]. destruct Emn as [Emn|[Emn|[Emn|Emn]]]; [left | right; left | right; right; left | right; right; right]; lra.
  (* jointly achievable: no shift *)
  - left. lra.
Qed.
