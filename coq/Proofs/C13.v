(* C13: control allocation, on the predicate-transformer form of the generated unit *)
From Coq Require Import Reals List Lra Lia.
From Cyecca Require Import Base.Ops Base.Tactics Base.Slice Spec.Mat Gen.Rdd2.
Import ListNotations.
Local Open Scope R_scope.

(* output layout: omega[0:4], Fp_sum[4:8], F_moment[8:12], F_thrust[12:16], M_sat[16:19] *)

Lemma alloc_range F_max l Cm Ct T M0 M1 M2 : 0 <= F_max ->
  rdd2_control_allocation_wp F_max l Cm Ct T M0 M1 M2 (fun r =>
    0 <= nth 4 r 0 <= F_max /\ 0 <= nth 5 r 0 <= F_max /\ 0 <= nth 6 r 0 <= F_max /\ 0 <= nth 7 r 0 <= F_max).
Proof.
  intro HF. wp_intro rdd2_control_allocation_wp. cbv beta iota delta [nth]. all_eqns.
  repeat split.
  all: match goal with |- ?a <= ?b => slice a 5%nat; slice b 5%nat end; drop_rest; cases; lra.
Qed.

(* motor speeds: omega_i = sqrt (F_i / Ct) >= 0, and omega_i^2 Ct = F_i *)
Lemma alloc_omega F_max l Cm Ct T M0 M1 M2 : 0 <= F_max -> 0 < Ct ->
  rdd2_control_allocation_wp F_max l Cm Ct T M0 M1 M2 (fun r =>
    (0 <= nth 0 r 0 /\ nth 0 r 0 * nth 0 r 0 * Ct = nth 4 r 0) /\
    (0 <= nth 1 r 0 /\ nth 1 r 0 * nth 1 r 0 * Ct = nth 5 r 0) /\
    (0 <= nth 2 r 0 /\ nth 2 r 0 * nth 2 r 0 * Ct = nth 6 r 0) /\
    (0 <= nth 3 r 0 /\ nth 3 r 0 * nth 3 r 0 * Ct = nth 7 r 0)).
Proof.
  intros HF HC.
  wp_intro rdd2_control_allocation_wp. cbv beta iota delta [nth]. all_eqns.
  assert (K : forall w f, w = sqrt (f / Ct) -> 0 <= f -> 0 <= w /\ w * w * Ct = f).
  { intros w f -> Hf. split; [apply sqrt_pos|]. rewrite sqrt_sqrt; [field; lra|].
    apply Rmult_le_pos; [lra | apply Rlt_le, Rinv_0_lt_compat, HC]. }
  repeat match goal with |- (_ /\ _) /\ _ => split end.
  all: match goal with |- 0 <= ?w /\ _ = ?f => slice w 2%nat; slice f 5%nat end; drop_rest; cases;
       match goal with H : ?w = sqrt ?d, H2 : ?d = ?f / _ |- 0 <= ?w /\ _ => rewrite H2 in H; apply (K w f H); lra end.
Qed.

(* jointly achievable demand: reproduced exactly *)
Lemma alloc_exact_when_feasible F_max l Cm Ct T M0 M1 M2 : 0 <= F_max ->
  rdd2_control_allocation_wp F_max l Cm Ct T M0 M1 M2 (fun r =>
    0 <= nth 8 r 0 + nth 12 r 0 <= F_max -> 0 <= nth 9 r 0 + nth 13 r 0 <= F_max ->
    0 <= nth 10 r 0 + nth 14 r 0 <= F_max -> 0 <= nth 11 r 0 + nth 15 r 0 <= F_max ->
    [nth 4 r 0; nth 5 r 0; nth 6 r 0; nth 7 r 0] =
    [nth 8 r 0 + nth 12 r 0; nth 9 r 0 + nth 13 r 0; nth 10 r 0 + nth 14 r 0; nth 11 r 0 + nth 15 r 0]).
Proof.
  intro HF. wp_intro rdd2_control_allocation_wp. cbv beta iota delta [nth] in *. all_eqns.
  list_eq.
  all: match goal with |- ?a = _ => slice a 16%nat end; drop_rest; decide_cmps; lra.
Qed.
