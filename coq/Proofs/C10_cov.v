(* C10: square-root covariance propagation on generated instances (n = 2, 3; F dense, Q symmetric) *)
From Coq Require Import Reals List Lra Lia.
From Cyecca Require Import Base.Ops Base.Tactics Spec.Mat Gen.Util.
Import ListNotations.
Local Open Scope R_scope.

Definition cov_ok (n : nat) (f : list R -> list R -> list R -> list R) : Prop :=
  forall W F Q, length W = (n * (n + 1) / 2)%nat -> length F = (n * n)%nat -> length Q = (n * (n + 1) / 2)%nat ->
  (forall k, (k < n)%nat -> lower_get n W k k <> 0) ->
  let Wd := dense_lower n W in let P := mmul n n n Wd (mtrans n n Wd) in let Wdot := f W F Q in
  madd (mmul n n n Wdot (mtrans n n Wd)) (mmul n n n Wd (mtrans n n Wdot)) =
  madd (madd (mmul n n n F P) (mmul n n n P (mtrans n n F))) (dense_sym n Q)
  /\ (forall i j, (i < j)%nat -> (j < n)%nat -> mget n Wdot i j = 0).

Lemma cov_2_ok : cov_ok 2 sqrt_cov_predict_2_v.
Proof.
  intros W F Q HW HF HQ Hnz Wd P Wdot. subst Wd P Wdot. simpl in HW, HF, HQ. explode.
  pose proof (Hnz 0%nat ltac:(lia)) as H0. pose proof (Hnz 1%nat ltac:(lia)) as H1. clear Hnz.
  revert H0 H1. Util_unfold. mat_cbv2. intros H0 H1.
  split.
  - list_eq; field; repeat split; assumption.
  - intros i j Hij Hj. destruct j as [|[|j]]; [lia| |lia]. destruct i as [|i]; [|lia].
    mat_cbv2. field; repeat split; assumption.
Qed.

Lemma cov_3_ok : cov_ok 3 sqrt_cov_predict_3_v.
Proof.
  intros W F Q HW HF HQ Hnz Wd P Wdot. subst Wd P Wdot. simpl in HW, HF, HQ. explode.
  pose proof (Hnz 0%nat ltac:(lia)) as H0. pose proof (Hnz 1%nat ltac:(lia)) as H1. pose proof (Hnz 2%nat ltac:(lia)) as H2. clear Hnz.
  revert H0 H1 H2. Util_unfold. mat_cbv2. intros H0 H1 H2.
  split.
  - list_eq; field; repeat split; assumption.
  - intros i j Hij Hj. destruct j as [|[|[|j]]]; [lia| | |lia]; (destruct i as [|[|i]]; try lia); mat_cbv2; field; repeat split; assumption.
Qed.
