(* C02 (ideal layer): Rodrigues' formula R(t) = I + sin(t th)/th [v]x + (1-cos(t th))/th^2 [v]x^2 solves R' = [v]x R, R(0) = I.
   With uniqueness of solutions of linear ODEs (classical, not formalised here) this is R(t) = expm(t [v]x). *)
From Coq Require Import Reals List Lra Lia.
From Coquelicot Require Import Coquelicot.
From Cyecca Require Import Base.Ops Base.Tactics Spec.Mat Proofs.C02.
Import ListNotations.
Local Open Scope R_scope.

Definition rodt (th v0 v1 v2 t : R) : list R := rod (sin (t * th) / th) ((1 - cos (t * th)) / (th * th)) [v0; v1; v2].

Lemma rodt_0 th v0 v1 v2 : th <> 0 -> rodt th v0 v1 v2 0 = mid 3.
Proof.
  intro H. unfold rodt, rod. rewrite Rmult_0_l, sin_0, cos_0. mat_cbv. list_eq; field; exact H.
Qed.

Lemma rodt_ode th v0 v1 v2 t k : th <> 0 -> th * th = v0 * v0 + v1 * v1 + v2 * v2 -> (k < 9)%nat ->
  is_derive (fun s => nth k (rodt th v0 v1 v2 s) 0) t (nth k (mmul 3 3 3 (hat3 [v0; v1; v2]) (rodt th v0 v1 v2 t)) 0).
Proof.
  intros Hth Hsq Hk.
  do 9 (destruct k as [|k]; [ unfold rodt, rod; mat_cbv; auto_derive; [exact I|];
    generalize (sin (t * th)) (cos (t * th)); intros s c; field_simplify_eq; [|exact Hth]; cbn [pow];
    revert Hsq; generalize th; clear; intros; nsatzR |]). lia.
Qed.
