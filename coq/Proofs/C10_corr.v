(* C10: square-root measurement update (QR of the pre-array) on generated instances *)
From Coq Require Import Reals List Lra Lia.
From Cyecca Require Import Base.Ops Base.Tactics Spec.Mat Gen.Util.
Import ListNotations.
Local Open Scope R_scope.

(* outputs: Wp (n x n), K (n x m), Ss (m x m), all dense column-major *)
Definition corr_ok (n m : nat) (f : list R -> list R -> list R -> list R) : Prop :=
  forall Rs H W, length Rs = (m * (m + 1) / 2)%nat -> length H = (m * n)%nat -> length W = (n * (n + 1) / 2)%nat ->
  let r := f Rs H W in
  let Wp := firstn (n * n) r in let K := firstn (n * m) (skipn (n * n) r) in let Ss := skipn (n * n + n * m) r in
  let Wd := dense_lower n W in let Rd := dense_lower m Rs in let P := mmul n n n Wd (mtrans n n Wd) in
  (forall k, (k < m)%nat -> mget m Ss k k <> 0) -> (forall k, (k < n)%nat -> mget n Wp k k <> 0) ->
  (* innovation factor *)
  mmul m m m Ss (mtrans m m Ss) = madd (mmul m n m (mmul m n n H P) (mtrans m n H)) (mmul m m m Rd (mtrans m m Rd)) /\
  (* Kalman gain: K S = P H^T *)
  mmul n m m K (mmul m m m Ss (mtrans m m Ss)) = mmul n n m P (mtrans m n H) /\
  (* posterior factor *)
  mmul n n n Wp (mtrans n n Wp) = mmul n n n (msub (mid n) (mmul n m n K H)) P.

Ltac sos := repeat (apply Rplus_le_le_0_compat); match goal with |- 0 <= ?a * ?a => apply Rle_0_sqr end.

(* name every square root (innermost first): s >= 0, s * s = its argument *)
Ltac name_sqrts :=
  repeat match goal with
  | |- context [sqrt ?e] =>
      lazymatch e with context [sqrt _] => fail | _ => idtac end;
      let s := fresh "s" in let Hs := fresh "Hs" in let Ps := fresh "Ps" in
      assert (Hs : sqrt e * sqrt e = e) by (apply sqrt_sqrt; sos);
      pose proof (sqrt_pos e) as Ps;
      generalize dependent (sqrt e); intros s Ps Hs
  end.

(* name the inverse of every non-zero pivot: everything becomes polynomial *)
Ltac name_invs :=
  unfold Rdiv in *;
  repeat match goal with
  | H : ?s <> 0 |- _ =>
      is_var s;
      let i := fresh "i" in let Hi := fresh "Hi" in
      assert (Hi : s * / s = 1) by (apply Rinv_r; exact H);
      clear H; set (i := / s) in *; clearbody i
  end.

Ltac close_sq :=
  (* rewrite the squares of the named roots that occur literally, clear denominators, decide modulo the remaining relations *)
  repeat match goal with H : ?s * ?s = _ |- context [?s * ?s] => rewrite H end;
  repeat match goal with H : ?s * ?s = _ |- ?g => lazymatch g with context [s] => fail | _ => clear H end end;
  field_simplify_eq; try (repeat split; assumption); cbn [pow];
  repeat match goal with
  | H : ?s * ?s = ?A |- context [?s * (?s * (?s * (?s * (?s * (?s * 1)))))] => replace (s * (s * (s * (s * (s * (s * 1)))))) with (A * A * A) by (rewrite <- H; ring)
  | H : ?s * ?s = ?A |- context [?s * (?s * (?s * (?s * 1)))] => replace (s * (s * (s * (s * 1)))) with (A * A) by (rewrite <- H; ring)
  | H : ?s * ?s = ?A |- context [?s * (?s * 1)] => replace (s * (s * 1)) with A by (rewrite <- H; ring)
  end;
  first [ ring | lra | solve [nsatzR] ].

Lemma corr_1_1_ok : corr_ok 1 1 sqrt_correct_1_1_v.
Proof.
  intros Rs H W HR HH HW r Wp K Ss Wd Rd P. subst r Wp K Ss Wd Rd P. simpl in HR, HH, HW. explode.
  intros HS HWp. pose proof (HS 0%nat ltac:(lia)) as H0. pose proof (HWp 0%nat ltac:(lia)) as H1. clear HS HWp.
  revert H0 H1. Util_unfold. mat_cbv2. name_sqrts. intros H0 H1.
  repeat split; list_eq; close_sq.
Qed.

Ltac corr_script n m :=
  let Rs := fresh "Rs" in let H := fresh "H" in let W := fresh "W" in
  intros Rs H W HR HH HW r Wp K Ss Wd Rd P; subst r Wp K Ss Wd Rd P; simpl in HR, HH, HW; explode;
  intros HS HWp;
  let rec inst Hq k := lazymatch k with O => idtac | S ?k' => let Hk := fresh "Hz" in pose proof (Hq k' ltac:(lia)) as Hk; inst Hq k' end in
  inst HS m; inst HWp n; clear HS HWp;
  repeat match goal with Hz : mget _ _ _ _ <> 0 |- _ => revert Hz end;
  Util_unfold; mat_cbv2; name_sqrts; intros;
  repeat split; list_eq; close_sq.

