(* C20: theorems about the bus model, for every operation history *)
From Coq Require Import List NArith ZArith Bool Lia.
From Cyecca Require Import Model.Bus.
Import ListNotations.
Local Open Scope N_scope.

(* ---- a publish delivers to exactly the subscribers of its topic, once each, in registration order ---- *)
Lemma publish_ok b t y m : lookup t (pubs b) = Some y ->
  step b (Publish t y m) = (b, OOk (map (fun s => (s, m)) (subscribers b t))).
Proof. intro H. unfold step. rewrite H, N.eqb_refl. reflexivity. Qed.

Lemma wrong_type_rejected b t y y0 m : lookup t (pubs b) = Some y0 -> y <> y0 ->
  step b (Publish t y m) = (b, OErr).
Proof. intros H Hne. unfold step. rewrite H. destruct (N.eqb_spec y y0); [contradiction|reflexivity]. Qed.

Lemma unknown_topic_rejected b t y m : lookup t (pubs b) = None -> step b (Publish t y m) = (b, OErr).
Proof. intro H. unfold step. rewrite H. reflexivity. Qed.

Lemma subscribers_spec b t s : In s (subscribers b t) <-> In (s, t) (subs b).
Proof.
  unfold subscribers. rewrite in_map_iff. split.
  - intros [[s' t'] [E H]]. simpl in E. subst s'. apply filter_In in H. destruct H as [H1 H2]. simpl in H2.
    apply N.eqb_eq in H2. subst. exact H1.
  - intro H. exists (s, t). split; [reflexivity|]. apply filter_In. split; [exact H|]. simpl. apply N.eqb_refl.
Qed.

(* ---- registration only ever appends: order of earlier subscribers is never disturbed ---- *)
Lemma step_subs_append b o : exists extra, subs (fst (step b o)) = subs b ++ extra.
Proof.
  destruct o; simpl; repeat match goal with |- context [if ?c then _ else _] => destruct c end;
  repeat match goal with |- context [match ?c with _ => _ end] => destruct c end; simpl;
  try (exists []; rewrite app_nil_r; reflexivity); eexists; reflexivity.
Qed.
Lemma subscribers_append b o t : exists extra, subscribers (fst (step b o)) t = subscribers b t ++ extra.
Proof.
  destruct (step_subs_append b o) as [ex E]. unfold subscribers. rewrite E, filter_app, map_app. eexists; reflexivity.
Qed.

(* ---- subscriber identities are unique in every reachable state: nobody is called twice by one publish ---- *)
Definition ids_ok (b : bus) : Prop := NoDup (map fst (subs b)) /\ forall s, In s (map fst (subs b)) -> s < nsub b.

Lemma ids_ok_init : ids_ok init.
Proof. split; [constructor | intros s []]. Qed.

Lemma NoDup_app_fresh (l : list N) (x : N) : NoDup l -> ~ In x l -> NoDup (l ++ [x]).
Proof.
  induction l as [|a l IH]; intros Hn Hx; simpl; [constructor; [intros []|constructor]|].
  inversion Hn; subst. constructor.
  - rewrite in_app_iff. intros [H|[H|[]]]; [contradiction | subst; apply Hx; left; reflexivity].
  - apply IH; [assumption | intro; apply Hx; right; assumption].
Qed.

Lemma combine_app' {A B} (l1 l2 : list A) (m1 m2 : list B) : length l1 = length m1 ->
  combine (l1 ++ l2) (m1 ++ m2) = combine l1 m1 ++ combine l2 m2.
Proof.
  revert m1. induction l1 as [|a l1 IH]; destruct m1 as [|b m1]; simpl; intro H; try discriminate; [reflexivity|].
  f_equal. apply IH. lia.
Qed.

Lemma seq_ids_fresh (l : list N) (n : N) (ps : list (N * N)) :
  NoDup l -> (forall s, In s l -> s < n) ->
  let new := map (fun it => n + N.of_nat (fst it)) (combine (seq 0 (length ps)) ps) in
  NoDup (l ++ new) /\ forall s, In s (l ++ new) -> s < n + N.of_nat (length ps).
Proof.
  revert l n. induction ps as [|p ps IH] using rev_ind; intros l n Hn Hlt; cbn zeta.
  - simpl. rewrite app_nil_r, N.add_0_r. split; assumption.
  - rewrite app_length, seq_app. simpl length. simpl seq.
    rewrite combine_app' by (rewrite seq_length; reflexivity). rewrite map_app. simpl.
    specialize (IH l n Hn Hlt). cbn zeta in IH. destruct IH as [A B].
    rewrite app_assoc. split.
    + apply NoDup_app_fresh; [exact A|]. intro H. apply B in H. lia.
    + intros s H. rewrite in_app_iff in H. destruct H as [H|[H|[]]]; [apply B in H; lia | subst; lia].
Qed.

Lemma ids_ok_append1 b t (Hn : NoDup (map fst (subs b))) (Hlt : forall s, In s (map fst (subs b)) -> s < nsub b) :
  NoDup (map fst (subs b ++ [(nsub b, t)])) /\ forall s, In s (map fst (subs b ++ [(nsub b, t)])) -> s < nsub b + 1.
Proof.
  rewrite map_app. simpl. split.
  - apply NoDup_app_fresh; [exact Hn|]. intro H. apply Hlt in H. lia.
  - intros s H. rewrite in_app_iff in H. destruct H as [H|[H|[]]]; [apply Hlt in H; lia | subst; lia].
Qed.

Lemma ids_ok_step b o : ids_ok b -> ids_ok (fst (step b o)).
Proof.
  intros [Hn Hlt]. destruct o as [t y|t|t y m| |names vals| |n v|node n]; simpl.
  - destruct (locked b || has t (pubs b)); simpl; split; assumption.
  - destruct (locked b); simpl; [split; assumption|]. apply ids_ok_append1; assumption.
  - destruct (lookup t (pubs b)) as [y0|]; [destruct (y =? y0)|]; simpl; split; assumption.
  - destruct (locked b || has 999 (declared b) || initialised b); simpl; [split; assumption|].
    unfold ids_ok. simpl. rewrite map_app, map_map. simpl.
    exact (seq_ids_fresh (map fst (subs b)) (nsub b) (pubs b) Hn Hlt).
  - destruct (locked b || any_dup names (declared b) || negb (Nat.eqb (length names) (length vals)) || initialised b); simpl; [split; assumption|].
    apply ids_ok_append1; assumption.
  - split; assumption.
  - destruct (cparams b) as [ps|]; [destruct (has n ps)|]; simpl; split; assumption.
  - split; assumption.
Qed.

Lemma ids_ok_reachable ops : ids_ok (state_after ops).
Proof.
  unfold state_after. assert (G : forall b, ids_ok b -> ids_ok (fst (run b ops))).
  { induction ops as [|o ops IH]; intros b Hb; simpl; [exact Hb|].
    destruct (step b o) as [b1 x] eqn:E. specialize (IH b1). destruct (run b1 ops) as [b2 xs]. simpl.
    apply IH. change b1 with (fst (b1, x)). rewrite <- E. apply ids_ok_step, Hb. }
  apply G, ids_ok_init.
Qed.

Lemma NoDup_map_filter (l : list (N * N)) f : NoDup (map fst l) -> NoDup (map fst (filter f l)).
Proof.
  induction l as [|a l IH]; simpl; intro H; [constructor|]. inversion H; subst.
  destruct (f a); simpl; [constructor; [|apply IH; assumption] | apply IH; assumption].
  intro Hin. apply H2. apply in_map_iff in Hin. destruct Hin as [x [E Hx]]. apply filter_In in Hx.
  apply in_map_iff. exists x. split; [exact E | apply Hx].
Qed.

Theorem exactly_once ops t : NoDup (subscribers (state_after ops) t).
Proof. unfold subscribers. apply NoDup_map_filter. apply (ids_ok_reachable ops). Qed.

(* ---- once the logger exists, publishers, subscribers and parameters can no longer be added ---- *)
Lemma locked_rejects b : locked b = true ->
  (forall t y, step b (NewPub t y) = (b, OErr)) /\ (forall t, step b (NewSub t) = (b, OErr)) /\
  (forall ns vs, step b (NewParamNode ns vs) = (b, OErr)) /\ step b Lock = (b, OErr).
Proof. intro H. unfold step. rewrite H. simpl. repeat split; reflexivity. Qed.

(* ---- parameters: after a successful set_param every node that follows the params topic sees the new value ---- *)
Lemma lookup_update n v ps : has n ps = true -> lookup n (update n v ps) = Some v.
Proof.
  unfold has. induction ps as [|[k x] ps IH]; simpl; [discriminate|].
  destruct (N.eqb_spec n k).
  - subst. intros _. simpl. rewrite N.eqb_refl. reflexivity.
  - intro H. simpl. destruct (N.eqb_spec n k); [contradiction|]. apply IH. exact H.
Qed.

Definition read (b : bus) (node n : N) : option Z :=
  match filter (fun c => N.eqb (fst (fst c)) node && N.eqb (snd (fst c)) n) (caches b) with c :: _ => Some (snd c) | [] => None end.

Lemma read_is_ReadCache b node n : step b (ReadCache node n) = (b, OVal (read b node n)).
Proof. reflexivity. Qed.

Theorem params_visible b n v b' d node names :
  step b (SetParam n v) = (b', OOk d) ->
  In (node, names) (pnodes b) -> In node (subscribers b 0) -> In n names ->
  read b' node n = Some v /\ d = map (fun s => (s, 0)) (subscribers b 0).
Proof.
  unfold step. destruct (cparams b) as [ps|]; [|discriminate]. destruct (has n ps) eqn:Hh; [|discriminate].
  intro E. inversion E; subst b' d; clear E. intros Hnode Hfol Hn. split; [|reflexivity].
  unfold read, refresh. simpl caches.
  set (following := filter (fun nd => existsb (N.eqb (fst nd)) (subscribers b 0)) (pnodes b)).
  set (P := fun c : N * N * Z => N.eqb (fst (fst c)) node && N.eqb (snd (fst c)) n).
  set (fresh := flat_map (fun nd => flat_map (fun n0 => match lookup n0 (update n v ps) with Some v0 => [(fst nd, n0, v0)] | None => [] end) (snd nd)) following).
  assert (Hin : In (node, names) following).
  { apply filter_In. split; [exact Hnode|]. apply existsb_exists. exists node. split; [exact Hfol | apply N.eqb_refl]. }
  (* every fresh entry for (node, n) carries v, and there is at least one; stale entries of following nodes are dropped *)
  assert (Hall : forall c, In c fresh -> P c = true -> snd c = v).
  { intros c Hc Hp. unfold fresh in Hc. apply in_flat_map in Hc. destruct Hc as [nd [_ Hc]]. apply in_flat_map in Hc.
    destruct Hc as [n0 [_ Hc]]. destruct (lookup n0 (update n v ps)) eqn:L; [|destruct Hc].
    destruct Hc as [Hc|[]]. subst c. unfold P in Hp. simpl in Hp. apply andb_true_iff in Hp. destruct Hp as [_ Hp].
    apply N.eqb_eq in Hp. subst n0. rewrite lookup_update in L by exact Hh. inversion L. reflexivity. }
  assert (Hex : exists c, In c fresh /\ P c = true).
  { exists (node, n, v). split.
    - unfold fresh. apply in_flat_map. exists (node, names). split; [exact Hin|]. apply in_flat_map. exists n. split; [exact Hn|].
      simpl. rewrite lookup_update by exact Hh. left. reflexivity.
    - unfold P. simpl. rewrite !N.eqb_refl. reflexivity. }
  rewrite filter_app.
  destruct (filter P fresh) as [|c cs] eqn:F.
  - destruct Hex as [c [Hc Hp]]. assert (In c (filter P fresh)) by (apply filter_In; split; assumption). rewrite F in H. destruct H.
  - simpl. f_equal. assert (Hc : In c (filter P fresh)) by (rewrite F; left; reflexivity).
    apply filter_In in Hc. destruct Hc as [Hc Hp]. apply Hall; assumption.
Qed.
