(* C19: the SymPy -> CasADi converter model preserves meaning, threads its symbol table consistently and
   rejects what it cannot represent *)
From Coq Require Import Reals List NArith ZArith Bool Lia Lra.
From Cyecca Require Import Model.Conv.
Import ListNotations.
Local Open Scope R_scope.

Section Sound.
Variable env : N -> R.
Variable ufun : N -> R -> R.
Variable powR : R -> R -> R.
Notation eS := (evalS env ufun powR).
Notation eC := (evalC env ufun powR).

Lemma fold_add acc cs : eC (fold_left CAdd cs acc) = eC acc + fold_right (fun c a => eC c + a) 0 cs.
Proof. revert acc. induction cs as [|c cs IH]; intro acc; simpl; [lra|]. rewrite IH. simpl. lra. Qed.
Lemma fold_mul acc cs : eC (fold_left CMul cs acc) = eC acc * fold_right (fun c a => eC c * a) 1 cs.
Proof. revert acc. induction cs as [|c cs IH]; intro acc; simpl; [lra|]. rewrite IH. simpl. lra. Qed.

(* whenever the conversion succeeds, the result evaluates like the source, at every environment, for every
   interpretation of the user functions and of the power function *)
Theorem conv_sound fdict fuel : forall s t c t', conv fdict fuel s t = Some (c, t') -> eC c = eS s.
Proof.
  induction fuel as [|f IH]; intros s t c t' H; [discriminate|].
  assert (L : forall l t cs t', (fix conv_list (l : list sy) (t : symtab) : option (list ca * symtab) :=
              match l with
              | [] => Some ([], t)
              | a :: r => match conv fdict f a t with
                          | None => None
                          | Some (c, t1) => match conv_list r t1 with None => None | Some (cs, t2) => Some (c :: cs, t2) end
                          end
              end) l t = Some (cs, t') ->
            fold_right (fun c a => eC c + a) 0 cs = fold_right (fun a acc => eS a + acc) 0 l /\
            fold_right (fun c a => eC c * a) 1 cs = fold_right (fun a acc => eS a * acc) 1 l).
  { induction l as [|a l IHl]; intros t0 cs t0' Hl.
    - inversion Hl. split; reflexivity.
    - destruct (conv fdict f a t0) as [[c0 t1]|] eqn:E; [|discriminate].
      match type of Hl with match ?X with _ => _ end = _ => destruct X as [[cs1 t2]|] eqn:E2; [|discriminate] end.
      inversion Hl; subst. simpl. destruct (IHl _ _ _ E2) as [A B]. rewrite (IH _ _ _ _ E), A, B. split; reflexivity. }
  destruct s as [z|p q|m e| |x|args|args|b e|h a|tag]; simpl in H.
  - inversion H. reflexivity.
  - inversion H. reflexivity.
  - inversion H. reflexivity.
  - inversion H. reflexivity.
  - inversion H. reflexivity.
  - match type of H with match ?X with _ => _ end = _ => destruct X as [[cs t1]|] eqn:E; [|discriminate] end.
    inversion H; subst. rewrite fold_add. simpl. destruct (L _ _ _ _ E) as [A _]. rewrite A. lra.
  - match type of H with match ?X with _ => _ end = _ => destruct X as [[cs t1]|] eqn:E; [|discriminate] end.
    inversion H; subst. rewrite fold_mul. simpl. destruct (L _ _ _ _ E) as [_ B]. rewrite B. lra.
  - destruct (conv fdict f b t) as [[cb t1]|] eqn:Eb; [|discriminate].
    destruct e; try (destruct (conv fdict f _ t1) as [[ce t2]|] eqn:Ee; [|discriminate]; inversion H; subst; simpl;
                     rewrite (IH _ _ _ _ Eb), (IH _ _ _ _ Ee); reflexivity).
    inversion H; subst. simpl. rewrite (IH _ _ _ _ Eb). reflexivity.
  - destruct (N.ltb h 4 || existsb (N.eqb h) fdict)%bool; [|discriminate].
    destruct (conv fdict f a t) as [[c0 t1]|] eqn:E; [|discriminate]. inversion H; subst. simpl. rewrite (IH _ _ _ _ E). reflexivity.
  - discriminate.
Qed.
End Sound.

(* constructs outside the grammar raise instead of being altered *)
Theorem unsupported_raises fdict fuel tag t : conv fdict fuel (SOther tag) t = None.
Proof. destruct fuel; reflexivity. Qed.
Theorem unknown_function_raises fdict fuel h a t : (4 <= h)%N -> existsb (N.eqb h) fdict = false -> conv fdict fuel (SFun h a) t = None.
Proof.
  intros H1 H2. destruct fuel; [reflexivity|]. simpl. rewrite H2.
  destruct (N.ltb_spec h 4); [lia|reflexivity].
Qed.

(* symbol table: only ever extended, a name is bound at most once *)
Lemma bind_ext x t : exists ext, bind x t = t ++ ext.
Proof. unfold bind. destruct (existsb (N.eqb x) t); [exists []; rewrite app_nil_r; reflexivity | eexists; reflexivity]. Qed.
Lemma bind_nodup x t : NoDup t -> NoDup (bind x t).
Proof.
  intro H. unfold bind. destruct (existsb (N.eqb x) t) eqn:E; [exact H|].
  assert (Hx : ~ In x t).
  { intro Hin. assert (existsb (N.eqb x) t = true) by (apply existsb_exists; exists x; split; [exact Hin | apply N.eqb_refl]). congruence. }
  clear E. induction t as [|a t IHt]; simpl; [constructor; [intros []|constructor]|].
  inversion H; subst. constructor.
  - rewrite in_app_iff. intros [Hi|[Hi|[]]]; [contradiction | subst; apply Hx; left; reflexivity].
  - apply IHt; [assumption | intro; apply Hx; right; assumption].
Qed.

Theorem symtab_consistent fdict fuel : forall s t c t', conv fdict fuel s t = Some (c, t') ->
  (exists ext, t' = t ++ ext) /\ (NoDup t -> NoDup t').
Proof.
  induction fuel as [|f IH]; intros s t c t' H; [discriminate|].
  assert (L : forall l t cs t', (fix conv_list (l : list sy) (t : symtab) : option (list ca * symtab) :=
              match l with
              | [] => Some ([], t)
              | a :: r => match conv fdict f a t with
                          | None => None
                          | Some (c, t1) => match conv_list r t1 with None => None | Some (cs, t2) => Some (c :: cs, t2) end
                          end
              end) l t = Some (cs, t') -> (exists ext, t' = t ++ ext) /\ (NoDup t -> NoDup t')).
  { induction l as [|a l IHl]; intros t0 cs t0' Hl.
    - inversion Hl. split; [exists []; rewrite app_nil_r; reflexivity | auto].
    - destruct (conv fdict f a t0) as [[c0 t1]|] eqn:E; [|discriminate].
      match type of Hl with match ?X with _ => _ end = _ => destruct X as [[cs1 t2]|] eqn:E2; [|discriminate] end.
      inversion Hl; subst. destruct (IH _ _ _ _ E) as [[e1 A1] B1]. destruct (IHl _ _ _ E2) as [[e2 A2] B2].
      split; [exists (e1 ++ e2); rewrite A2, A1, app_assoc; reflexivity | auto]. }
  assert (Triv : (exists ext, t = t ++ ext) /\ (NoDup t -> NoDup t)) by (split; [exists []; rewrite app_nil_r; reflexivity | auto]).
  destruct s as [z|p q|m e| |x|args|args|b e|h a|tag]; simpl in H; try (inversion H; subst; exact Triv).
  - inversion H; subst. split; [apply bind_ext | apply bind_nodup].
  - match type of H with match ?X with _ => _ end = _ => destruct X as [[cs t1]|] eqn:E; [|discriminate] end.
    inversion H; subst. exact (L _ _ _ _ E).
  - match type of H with match ?X with _ => _ end = _ => destruct X as [[cs t1]|] eqn:E; [|discriminate] end.
    inversion H; subst. exact (L _ _ _ _ E).
  - destruct (conv fdict f b t) as [[cb t1]|] eqn:Eb; [|discriminate]. destruct (IH _ _ _ _ Eb) as [X1 B1].
    assert (G : forall e', match conv fdict f e' t1 with Some (ce, t2) => Some (CPow cb ce, t2) | None => None end = Some (c, t') ->
                (exists ext, t' = t ++ ext) /\ (NoDup t -> NoDup t')).
    { intros e' H'. destruct (conv fdict f e' t1) as [[ce t2]|] eqn:Ee; [|discriminate]. inversion H'; subst.
      destruct (IH _ _ _ _ Ee) as [[e2 A2] B2]. destruct X1 as [e1 A1].
      split; [exists (e1 ++ e2); rewrite A2, A1, app_assoc; reflexivity | auto]. }
    destruct e; try exact (G _ H); try (inversion H; subst; split; [exact X1 | exact B1]).
  - destruct (N.ltb h 4 || existsb (N.eqb h) fdict)%bool; [|discriminate].
    destruct (conv fdict f a t) as [[c0 t1]|] eqn:E; [|discriminate]. inversion H; subst. exact (IH _ _ _ _ E).
Qed.
