(* C05: se(3) Jacobians are block upper-triangular [[J, Q], [0, J]] with J the so(3) Jacobian and Q the Barfoot block,
   on the regenerated units, for every input *)
From Coq Require Import Reals List Lra Lia.
From Cyecca Require Import Base.Ops Base.Tactics Spec.Mat Gen.so3 Gen.se3.
Import ListNotations.
Local Open Scope R_scope.
(* 3x3 block (bi, bj) of a 6x6 column-major matrix *)
Definition blk (M : list R) (bi bj : nat) : list R := mbuild 3 3 (fun i j => mget 6 M (i + 3 * bi) (j + 3 * bj)).
Lemma se3_jl_blocks u0 u1 u2 w0 w1 w2 :
  let J := se3_left_jacobian u0 u1 u2 w0 w1 w2 in
  blk J 0 0 = so3_left_jacobian w0 w1 w2 /\ blk J 1 1 = so3_left_jacobian w0 w1 w2 /\
  blk J 1 0 = mzero 3 3 /\ blk J 0 1 = se3_left_Q u0 u1 u2 w0 w1 w2.
Proof.
  cbv zeta. cbv beta iota zeta delta [se3_left_jacobian so3_left_jacobian se3_left_Q blk]. mat_cbv.
  repeat split; list_eq; congr_ring.
Qed.
Lemma se3_jr_blocks u0 u1 u2 w0 w1 w2 :
  let J := se3_right_jacobian u0 u1 u2 w0 w1 w2 in
  blk J 0 0 = so3_right_jacobian w0 w1 w2 /\ blk J 1 1 = so3_right_jacobian w0 w1 w2 /\
  blk J 1 0 = mzero 3 3 /\ blk J 0 1 = se3_right_Q u0 u1 u2 w0 w1 w2.
Proof.
  cbv zeta. cbv beta iota zeta delta [se3_right_jacobian so3_right_jacobian se3_right_Q blk]. mat_cbv.
  repeat split; list_eq; congr_ring.
Qed.
