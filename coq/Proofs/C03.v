(* C03: the logarithm, on units regenerated from cyecca/lie/group_so3.py *)
From Coq Require Import Reals List Lra Lia.
From Cyecca Require Import Base.Ops Base.Tactics Spec.Mat Gen.Series Gen.SO2 Gen.SE2 Gen.SO3Quat Gen.SO3Mrp Gen.SO3Dcm Proofs.SeriesFacts Proofs.C02.
Import ListNotations.
Local Open Scope R_scope.

(* ---------- quaternion log: structure, for every input ---------- *)
Definition qsign (q0 n : R) : R := if Rlt_dec (q0 / n) 0 then -1 else 1.
Lemma quat_log_struct q0 q1 q2 q3 :
  SO3Quat_log q0 q1 q2 q3 =
  let n := sqrt (q0 * q0 + q1 * q1 + q2 * q2 + q3 * q3) in
  let s := qsign q0 n in
  let A := hd 0 (series_2 (acos (s * (q0 / n)))) in
  [2 * (s * (q1 / n) * A); 2 * (s * (q2 / n) * A); 2 * (s * (q3 / n) * A)].
Proof.
  cbv beta iota zeta delta [SO3Quat_log series_2 hd qsign].
  set (n := sqrt (q0 * q0 + q1 * q1 + q2 * q2 + q3 * q3)).
  destruct (Rlt_dec (q0 / n) 0) as [L|L].
  - rewrite (op_lt_true _ _ L). rewrite ?op_not_1, ?op_ifz_0, ?op_ifz_1, ?Rplus_0_r.
    replace (-1 * (q0 / n)) with (- (q0 / n)) by ring. list_eq; congr_ring.
  - apply Rnot_lt_le in L. rewrite (op_lt_false _ _ L). rewrite ?op_not_0, ?op_ifz_0, ?op_ifz_1, ?Rplus_0_l.
    replace (1 * (q0 / n)) with (q0 / n) by ring. list_eq; congr_ring.
Qed.

(* q and -q have the same logarithm (exactly), whenever the scalar part is non-zero *)
Lemma quat_log_sign q0 q1 q2 q3 : q0 <> 0 ->
  SO3Quat_log (- q0) (- q1) (- q2) (- q3) = SO3Quat_log q0 q1 q2 q3.
Proof.
  intro H0. rewrite !quat_log_struct. cbv zeta.
  replace (- q0 * - q0 + - q1 * - q1 + - q2 * - q2 + - q3 * - q3) with (q0 * q0 + q1 * q1 + q2 * q2 + q3 * q3) by ring.
  set (n := sqrt (q0 * q0 + q1 * q1 + q2 * q2 + q3 * q3)).
  assert (Hn : 0 < n). { apply sqrt_lt_R0. assert (0 < q0 * q0) by nra. nra. }
  assert (Hq : q0 / n <> 0). { unfold Rdiv. apply Rmult_integral_contrapositive_currified; [exact H0 | apply Rinv_neq_0_compat; lra]. }
  assert (E : qsign (- q0) n = - qsign q0 n).
  { unfold qsign. replace (- q0 / n) with (- (q0 / n)) by (field; lra).
    destruct (Rlt_dec (- (q0 / n)) 0), (Rlt_dec (q0 / n) 0); lra. }
  rewrite E. replace (- qsign q0 n * (- q0 / n)) with (qsign q0 n * (q0 / n)) by (field; lra).
  list_eq; field; lra.
Qed.

Lemma quat_log_identity : SO3Quat_log 1 0 0 0 = [0; 0; 0].
Proof.
  rewrite quat_log_struct. cbv zeta. replace (1 * 1 + 0 * 0 + 0 * 0 + 0 * 0) with 1 by ring. rewrite sqrt_1.
  list_eq; field.
Qed.

(* log (exp v) = v outside the small-angle cell, for rotation angles below pi *)
Lemma quat_log_exp_large v0 v1 v2 : 4 * eps <= nsq v0 v1 v2 -> sqrt (nsq v0 v1 v2) < PI ->
  SO3Quat_log_v (SO3Quat_exp v0 v1 v2) = [v0; v1; v2].
Proof.
  intros H Hpi. set (th := sqrt (nsq v0 v1 v2)) in *.
  assert (Hp : 0 < nsq v0 v1 v2) by (unfold eps in H; lra).
  assert (Hth : 0 < th) by (apply sqrt_lt_R0; exact Hp).
  assert (Hsq : th * th = v0 * v0 + v1 * v1 + v2 * v2) by (unfold th; rewrite sqrt_sqrt by lra; reflexivity).
  rewrite quat_exp_large by exact H. fold th. cbv [SO3Quat_log_v nth]. rewrite quat_log_struct. cbv zeta.
  set (c := cos (th / 2)). set (s := sin (th / 2)).
  assert (Hu : c * c + s * s = 1) by (unfold s, c; pose proof (sin2_cos2 (th / 2)) as Q; unfold Rsqr in Q; lra).
  assert (Hn : c * c + s / th * v0 * (s / th * v0) + s / th * v1 * (s / th * v1) + s / th * v2 * (s / th * v2) = 1).
  { replace (c * c + s / th * v0 * (s / th * v0) + s / th * v1 * (s / th * v1) + s / th * v2 * (s / th * v2))
      with (c * c + s * s * ((v0 * v0 + v1 * v1 + v2 * v2) / (th * th))) by (field; lra).
    rewrite <- Hsq. replace (th * th / (th * th)) with 1 by (field; lra). lra. }
  rewrite Hn, sqrt_1.
  assert (Hc : 0 < c) by (unfold c; apply cos_gt_0; lra).
  assert (Hs : 0 < s) by (unfold s; apply sin_gt_0; lra).
  unfold qsign. destruct (Rlt_dec (c / 1) 0) as [L|L]; [exfalso; unfold Rdiv in L; rewrite Rinv_1 in L; lra|].
  replace (1 * (c / 1)) with c by field. unfold c. rewrite acos_cos by lra.
  assert (Hl : eps <= Rabs (th / 2)).
  { rewrite Rabs_pos_eq by lra. unfold eps in *.
    assert (Q : (2 * (1152921504606847 / 1152921504606846976)) * (2 * (1152921504606847 / 1152921504606846976)) <= th * th) by (rewrite Hsq; unfold nsq in H; lra).
    assert (2 * (1152921504606847 / 1152921504606846976) <= th) by nra. lra. }
  rewrite xsin_large by exact Hl. cbv [hd]. fold s. list_eq; field; lra.
Qed.

(* ---------- DCM log ---------- *)
(* log (R^T) = - log R exactly, for every matrix *)
Lemma dcm_log_transpose a0 a1 a2 a3 a4 a5 a6 a7 a8 :
  SO3Dcm_log_v (mtrans 3 3 [a0; a1; a2; a3; a4; a5; a6; a7; a8]) = mscale (-1) (SO3Dcm_log a0 a1 a2 a3 a4 a5 a6 a7 a8).
Proof.
  cbv beta iota zeta delta [SO3Dcm_log_v SO3Dcm_log]. mat_cbv.
  replace (a0 + a4 + a8 - 1) with (a0 + a4 + a8 - 1) by reflexivity.
  list_eq; match goal with |- ?x * ?A = -1 * (?y * ?B) => replace x with (- y) by ring; ring_simplify; reflexivity end.
Qed.

Definition pi_double := 884279719003555 / 281474976710656.
Definition dcm_angle (e1 : R) : R := if Rlt_dec 1 e1 then 0 else if Rlt_dec e1 (-1) then pi_double else acos e1.
Lemma dcm_log_struct a0 a1 a2 a3 a4 a5 a6 a7 a8 :
  SO3Dcm_log a0 a1 a2 a3 a4 a5 a6 a7 a8 =
  let th := dcm_angle ((a0 + a4 + a8 - 1) / 2) in
  let C := hd 0 (series_2 th) / 2 in
  [(a5 - a7) * C; (a6 - a2) * C; (a1 - a3) * C].
Proof.
  cbv beta iota zeta delta [SO3Dcm_log series_2 hd dcm_angle pi_double].
  set (e1 := (a0 + a4 + a8 - 1) / 2).
  destruct (Rlt_dec 1 e1) as [L|L].
  - rewrite (op_lt_true _ _ L). rewrite ?op_not_1, ?op_ifz_0. reflexivity.
  - apply Rnot_lt_le in L. rewrite (op_lt_false _ _ L). rewrite ?op_not_0, ?op_ifz_1.
    destruct (Rlt_dec e1 (-1)) as [M|M].
    + rewrite (op_lt_true _ _ M). rewrite ?op_not_1, ?op_ifz_0, ?op_ifz_1, ?Rplus_0_r. reflexivity.
    + apply Rnot_lt_le in M. rewrite (op_lt_false _ _ M). rewrite ?op_not_0, ?op_ifz_0, ?op_ifz_1, ?Rplus_0_l. reflexivity.
Qed.

(* log (exp v) = v for the DCM, outside the small-angle cell and below pi *)
Lemma dcm_log_exp_large v0 v1 v2 : eps <= nsq v0 v1 v2 -> sqrt (nsq v0 v1 v2) < PI ->
  SO3Dcm_log_v (SO3Dcm_exp v0 v1 v2) = [v0; v1; v2].
Proof.
  intros H Hpi. set (th := sqrt (nsq v0 v1 v2)) in *.
  assert (Hp : 0 < nsq v0 v1 v2) by (unfold eps in H; lra).
  assert (Hth : 0 < th) by (apply sqrt_lt_R0; exact Hp).
  assert (Hsq : th * th = v0 * v0 + v1 * v1 + v2 * v2) by (unfold th; rewrite sqrt_sqrt by lra; reflexivity).
  rewrite (dcm_exp_large v0 v1 v2 H). fold th. unfold rod. mat_cbv. cbv [SO3Dcm_log_v nth]. rewrite dcm_log_struct. cbv zeta.
  match goal with |- context [dcm_angle ?e] => assert (E : e = cos th) end.
  { apply Rminus_diag_uniq. field_simplify_eq; [|lra]. cbn [pow].
    replace (th * (th * 1)) with (v0 * (v0 * 1) + v1 * (v1 * 1) + v2 * (v2 * 1)) by lra. ring. }
  rewrite E.
  assert (Hcb := COS_bound th).
  unfold dcm_angle. destruct (Rlt_dec 1 (cos th)); [lra|]. destruct (Rlt_dec (cos th) (-1)); [lra|].
  rewrite acos_cos by lra.
  assert (Hs : 0 < sin th) by (apply sin_gt_0; lra).
  assert (Hl : eps <= Rabs th).
  { rewrite Rabs_pos_eq by lra. unfold eps in *. unfold nsq in H.
    assert (1152921504606847 / 1152921504606846976 <= th * th) by lra.
    destruct (Rle_dec (1152921504606847 / 1152921504606846976) th); [assumption|]. exfalso. nra. }
  rewrite xsin_large by exact Hl. cbv [hd]. list_eq; field; lra.
Qed.

(* ---------- MRP log ---------- *)
Lemma mrp_log_struct r0 r1 r2 :
  SO3Mrp_log r0 r1 r2 = let A := hd 0 (sq_series_17 (nsq r0 r1 r2)) in [A * r0; A * r1; A * r2].
Proof. cbv beta iota zeta delta [SO3Mrp_log sq_series_17 hd nsq]. list_eq; congr_ring. Qed.
Lemma mrp_log_neg r0 r1 r2 : SO3Mrp_log (- r0) (- r1) (- r2) = mscale (-1) (SO3Mrp_log r0 r1 r2).
Proof.
  rewrite !mrp_log_struct. cbv zeta. replace (nsq (- r0) (- r1) (- r2)) with (nsq r0 r1 r2) by (unfold nsq; ring).
  mat_cbv. list_eq; ring.
Qed.
Lemma sq_atan_large u : eps <= u -> sq_series_17 u = [4 * atan (sqrt u) / sqrt u].
Proof.
  intro H. assert (0 < u) by (unfold eps in H; lra). cbv beta iota zeta delta [sq_series_17].
  large_cell H. rewrite pow_neg_half by assumption. f_equal. unfold Rdiv. ring.
Qed.
(* canonical MRPs (norm at most 1) have a principal logarithm: |log r| = 4 atan |r| <= pi *)
Lemma mrp_log_principal r0 r1 r2 : eps <= nsq r0 r1 r2 -> nsq r0 r1 r2 <= 1 ->
  let w := SO3Mrp_log r0 r1 r2 in
  nsq (nth 0 w 0) (nth 1 w 0) (nth 2 w 0) = (4 * atan (sqrt (nsq r0 r1 r2))) * (4 * atan (sqrt (nsq r0 r1 r2))) /\
  0 <= 4 * atan (sqrt (nsq r0 r1 r2)) <= PI.
Proof.
  intros H H1. cbv zeta. rewrite mrp_log_struct. cbv zeta. rewrite sq_atan_large by exact H. cbv [hd nth].
  set (n := sqrt (nsq r0 r1 r2)).
  assert (Hp : 0 < nsq r0 r1 r2) by (unfold eps in H; lra).
  assert (Hn : 0 < n) by (apply sqrt_lt_R0; exact Hp).
  assert (Hsq : n * n = nsq r0 r1 r2) by (unfold n; rewrite sqrt_sqrt by lra; reflexivity).
  split.
  - unfold nsq at 1. unfold nsq in Hsq.
    replace (4 * atan n / n * r0 * (4 * atan n / n * r0) + 4 * atan n / n * r1 * (4 * atan n / n * r1) + 4 * atan n / n * r2 * (4 * atan n / n * r2))
      with ((4 * atan n) * (4 * atan n) * ((r0 * r0 + r1 * r1 + r2 * r2) / (n * n))) by (field; lra).
    rewrite <- Hsq. replace (n * n / (n * n)) with 1 by (field; lra). ring.
  - assert (Hn1 : n <= 1). { destruct (Rle_dec n 1); [assumption|]. exfalso. nra. }
    assert (A0 : 0 < atan n) by (rewrite <- atan_0; apply atan_increasing; exact Hn).
    assert (A1 : atan n <= PI / 4).
    { rewrite <- atan_1. destruct (Req_dec n 1) as [->|Hne]; [lra|]. left. apply atan_increasing. lra. }
    lra.
Qed.

(* ---------- the quaternion log is principal: for a unit quaternion of either sign, |log q| = 2 acos |q0| <= pi ---------- *)
Lemma acos_nonneg_le_half_pi x : 0 <= x <= 1 -> 0 <= acos x <= PI / 2.
Proof.
  intro H. assert (B := acos_bound x). split; [lra|].
  destruct (Rle_dec (acos x) (PI / 2)) as [L|L]; [exact L|]. exfalso. apply Rnot_le_lt in L.
  assert (C : cos (acos x) < 0) by (apply cos_lt_0; lra).
  rewrite cos_acos in C by lra. lra.
Qed.
Lemma quat_log_principal q0 q1 q2 q3 : q0 * q0 + q1 * q1 + q2 * q2 + q3 * q3 = 1 -> eps <= acos (Rabs q0) ->
  let w := SO3Quat_log q0 q1 q2 q3 in
  nsq (nth 0 w 0) (nth 1 w 0) (nth 2 w 0) = (2 * acos (Rabs q0)) * (2 * acos (Rabs q0)) /\ 0 <= 2 * acos (Rabs q0) <= PI.
Proof.
  intros Hu Hl. cbv zeta. rewrite quat_log_struct. cbv zeta. rewrite Hu, sqrt_1.
  assert (Hq0 : Rabs q0 <= 1).
  { apply Rabs_le. assert (q0 * q0 <= 1) by nra. split; nra. }
  assert (Hs : qsign q0 1 * (q0 / 1) = Rabs q0).
  { unfold qsign. replace (q0 / 1) with q0 by field. destruct (Rlt_dec q0 0).
    - rewrite Rabs_left by lra. ring.
    - rewrite Rabs_pos_eq by lra. ring. }
  rewrite Hs. set (phi := acos (Rabs q0)) in *.
  assert (Hb : 0 <= phi <= PI / 2) by (apply acos_nonneg_le_half_pi; split; [apply Rabs_pos | exact Hq0]).
  assert (Hphi : 0 < phi) by (unfold eps in Hl; lra).
  rewrite xsin_large by (rewrite Rabs_pos_eq; lra). cbv [hd nth].
  assert (Hsin : sin phi * sin phi = q1 * q1 + q2 * q2 + q3 * q3).
  { unfold phi. rewrite sin_acos by (split; [pose proof (Rabs_pos q0); lra | exact Hq0]).
    rewrite sqrt_sqrt; [| assert (Rabs q0 * Rabs q0 <= 1) by (pose proof (Rabs_pos q0); nra); unfold Rsqr; lra].
    unfold Rsqr. replace (Rabs q0 * Rabs q0) with (q0 * q0) by (unfold Rabs; destruct (Rcase_abs q0); ring). lra. }
  assert (Hsp : 0 < sin phi) by (apply sin_gt_0; lra).
  assert (Hss : qsign q0 1 * qsign q0 1 = 1) by (unfold qsign; destruct (Rlt_dec (q0 / 1) 0); ring).
  split; [|lra]. unfold nsq.
  replace (2 * (qsign q0 1 * (q1 / 1) * (phi / sin phi)) * (2 * (qsign q0 1 * (q1 / 1) * (phi / sin phi))) +
           2 * (qsign q0 1 * (q2 / 1) * (phi / sin phi)) * (2 * (qsign q0 1 * (q2 / 1) * (phi / sin phi))) +
           2 * (qsign q0 1 * (q3 / 1) * (phi / sin phi)) * (2 * (qsign q0 1 * (q3 / 1) * (phi / sin phi))))
    with (4 * (qsign q0 1 * qsign q0 1) * (phi * phi) * ((q1 * q1 + q2 * q2 + q3 * q3) / (sin phi * sin phi))) by (field; lra).
  rewrite <- Hsin, Hss. field. lra.
Qed.

(* ---------- SE(2) ---------- *)
(* log: translation through the inverse of V(theta) built from the same two series coefficients, heading returned as given *)
Lemma se2_log_struct x y th :
  SE2_log x y th = let a := hd 0 (series_1 th) in let b := hd 0 (series_3 th) in
                   [a / (a * a + b * b) * x + b / (a * a + b * b) * y; a / (a * a + b * b) * y - b / (a * a + b * b) * x; th].
Proof. cbv beta iota zeta delta [SE2_log series_1 series_3 hd]. list_eq; try reflexivity; congr_ring. Qed.
(* log (exp v) = v for every heading and translation (both cells of the series), as long as V(theta) is invertible *)
Lemma se2_log_exp x y th : hd 0 (series_1 th) * hd 0 (series_1 th) + hd 0 (series_3 th) * hd 0 (series_3 th) <> 0 ->
  SE2_log_v (SE2_exp x y th) = [x; y; th].
Proof.
  intro H. rewrite se2_exp_struct. cbv zeta. cbv [SE2_log_v nth]. rewrite se2_log_struct. cbv zeta.
  revert H. generalize (hd 0 (series_1 th)) (hd 0 (series_3 th)). intros a b H. list_eq; try reflexivity; field; exact H.
Qed.
