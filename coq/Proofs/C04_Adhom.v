(* C04: Ad is a homomorphism (quaternion-based groups, SE2, DCM) *)
From Coq Require Import Reals List Lra Lia.
From Cyecca Require Import Base.Ops Base.Tactics Spec.Mat Spec.Rot
  Gen.SO2 Gen.SE2 Gen.Rn Gen.SO3Quat Gen.SO3Dcm Gen.SE3Quat Gen.SE23Quat
  Proofs.C01_SO3Quat Proofs.C01_SE3 Proofs.C01_SO3Dcm.
Import ListNotations.
Local Open Scope R_scope.

Lemma SO3Quat_Ad_hom a b : len4 a -> len4 b ->
  SO3Quat_Ad_v (SO3Quat_product_v a b) = mmul 3 3 3 (SO3Quat_Ad_v a) (SO3Quat_Ad_v b).
Proof. unfold len4. intros. explode. SO3Quat_unfold. mat_cbv. list_eq; ring. Qed.

Lemma SO3Quat_Ad_inv a : unitq a ->
  mmul 3 3 3 (SO3Quat_Ad_v (SO3Quat_inverse_v a)) (SO3Quat_Ad_v a) = mid 3.
Proof.
  intros [Ha Hn]. explode. revert Hn. mat_cbv. rewrite Rplus_0_r. intro Hn.
  SO3Quat_unfold. mat_cbv. list_eq; nsatzR.
Qed.

Lemma SE2_Ad_hom a b : length a = 3%nat -> length b = 3%nat ->
  SE2_Ad_v (SE2_product_v a b) = mmul 3 3 3 (SE2_Ad_v a) (SE2_Ad_v b).
Proof. intros. explode. SE2_unfold. mat_cbv. rewrite ?cos_plus, ?sin_plus. list_eq; ring. Qed.

Lemma SO3Dcm_Ad_hom a b : len9 a -> len9 b ->
  SO3Dcm_Ad_v (SO3Dcm_product_v a b) = mmul 3 3 3 (SO3Dcm_Ad_v a) (SO3Dcm_Ad_v b).
Proof. unfold len9. intros. explode. SO3Dcm_unfold. mat_cbv. list_eq; ring. Qed.

Lemma SE3Quat_Ad_hom a b : unit7 a -> unit7 b ->
  SE3Quat_Ad_v (SE3Quat_product_v a b) = mmul 6 6 6 (SE3Quat_Ad_v a) (SE3Quat_Ad_v b).
Proof.
  intros [Ha Na] [Hb Nb]. explode. revert Na Nb. cbn [skipn]. mat_cbv. intros Na Nb.
  SE3Quat_unfold. mat_cbv. list_eq; try ring; timeout 60 nsatzR.
Qed.
