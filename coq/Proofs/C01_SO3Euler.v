(* C01 for the Euler-angle group (3-2-1): structure of the group operations on the regenerated code.
   The Euler group has no closed-form product: cyecca multiplies through the rotation matrices. These lemmas pin
   exactly that down -- product = from_Matrix (M a * M b), inverse = from_Matrix (M a ^T), M identity = I -- for ALL
   angle triples; together with C07_euler_matrix_valid (M e is a proper rotation) and the DCM closure theorem they
   reduce the Euler group laws to the single statement "from_Matrix is a right inverse of to_Matrix on proper
   rotations outside the gimbal band", which stays with the numeric search. *)
From Coq Require Import Reals List Lra.
From Cyecca Require Import Base.Ops Base.Tactics Spec.Mat Spec.Rot Gen.SO3Euler.
Import ListNotations.
Local Open Scope R_scope.

Lemma euler_identity_matrix : SO3Euler_to_Matrix_v SO3Euler_identity_v = mid 3.
Proof. SO3Euler_unfold. mat_cbv. rewrite ?cos_0, ?sin_0. list_eq; ring. Qed.

Lemma euler_product_through_matrices a b : length a = 3%nat -> length b = 3%nat ->
  SO3Euler_product_v a b = SO3Euler_from_Matrix_v (mmul 3 3 3 (SO3Euler_to_Matrix_v a) (SO3Euler_to_Matrix_v b)).
Proof. intros Ha Hb. explode. SO3Euler_unfold. mat_cbv. 
  list_eq; timeout 60 congr_ring. Qed.

Lemma euler_inverse_through_matrices a : length a = 3%nat ->
  SO3Euler_inverse_v a = SO3Euler_from_Matrix_v (mtrans 3 3 (SO3Euler_to_Matrix_v a)).
Proof. intros Ha. explode. SO3Euler_unfold. mat_cbv. list_eq; timeout 60 congr_ring. Qed.
