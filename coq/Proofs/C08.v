(* C08: strapdown INS propagation, on the unit regenerated from rdd2.derive_strapdown_ins_propagation()
   (x0 = (p, v, q), specific force a, body rate w, gravity g, step dt). *)
From Coq Require Import Reals List Lra Lia.
From Cyecca Require Import Base.Ops Base.Tactics Spec.Mat Gen.Series Gen.SO3Quat Gen.Rdd2 Proofs.SeriesFacts Proofs.C02.
Import ListNotations.
Local Open Scope R_scope.

(* theta^2 of the step, in the form the unit computes it *)
Definition usq (dt w0 w1 w2 : R) : R := dt * w0 * (dt * w0) + dt * w1 * (dt * w1) + dt * w2 * (dt * w2).

Lemma strapdown_struct p0 p1 p2 v0 v1 v2 q0 q1 q2 q3 a0 a1 a2 w0 w1 w2 g dt :
  rdd2_strapdown_ins_propagate p0 p1 p2 v0 v1 v2 q0 q1 q2 q3 a0 a1 a2 w0 w1 w2 g dt =
  let u := usq dt w0 w1 w2 in
  let C1 := hd 0 (sq_series_4 u) in let C2 := hd 0 (sq_series_5 u) in let C3 := hd 0 (sq_series_8 u) in
  let R := SO3Quat_to_Matrix q0 q1 q2 q3 in
  let a := [a0; a1; a2] in let w := [w0; w1; w2] in
  let wa := cross3 w a in let wwa := cross3 w wa in
  let dv := madd (mscale dt a) (madd (mscale (C1 * dt * dt) wa) (mscale (C2 * dt * dt * dt) wwa)) in
  let dp := madd (mscale (dt * dt / 2) a) (madd (mscale (C2 * dt * dt * dt) wa) (mscale (C3 * dt * dt * dt * dt) wwa)) in
  madd [p0 + v0 * dt; p1 + v1 * dt; p2 + v2 * dt - g * dt * dt / 2] (mvec 3 3 R dp) ++
  madd [v0; v1; v2 - g * dt] (mvec 3 3 R dv) ++
  SO3Quat_product_v [q0; q1; q2; q3] (SO3Quat_exp (dt * w0) (dt * w1) (dt * w2)).
Proof.
  cbv beta iota zeta delta [rdd2_strapdown_ins_propagate sq_series_4 sq_series_5 sq_series_8 hd usq SO3Quat_to_Matrix SO3Quat_product_v SO3Quat_product SO3Quat_exp nth].
  mat_cbv. list_eq.
  all: try congr_ring. all: try field.
Qed.

(* dt = 0 is the identity, exactly, for every state and input *)
Lemma strapdown_dt0 p0 p1 p2 v0 v1 v2 q0 q1 q2 q3 a0 a1 a2 w0 w1 w2 g :
  rdd2_strapdown_ins_propagate p0 p1 p2 v0 v1 v2 q0 q1 q2 q3 a0 a1 a2 w0 w1 w2 g 0 = [p0; p1; p2; v0; v1; v2; q0; q1; q2; q3].
Proof.
  rewrite strapdown_struct. cbv zeta. unfold usq. rewrite !Rmult_0_l.
  replace (0 * 0 + 0 * 0 + 0 * 0) with 0 by ring.
  change (SO3Quat_exp 0 0 0) with (SO3Quat_exp 0 0 0). rewrite quat_exp_zero.
  generalize (hd 0 (sq_series_4 0)) (hd 0 (sq_series_5 0)) (hd 0 (sq_series_8 0)). intros c1 c2 c3.
  cbv [SO3Quat_identity SO3Quat_product_v SO3Quat_product SO3Quat_to_Matrix nth]. mat_cbv. list_eq; field.
Qed.

(* the attitude part is q0 (x) exp(w dt): with C02 (unit exponential outside the small-angle cell) and the multiplicative
   norm of the regenerated product, the quaternion keeps its norm exactly there *)
Lemma quat_product_norm a0 a1 a2 a3 b0 b1 b2 b3 :
  norm2 (SO3Quat_product a0 a1 a2 a3 b0 b1 b2 b3) = norm2 [a0; a1; a2; a3] * norm2 [b0; b1; b2; b3].
Proof. SO3Quat_unfold. mat_cbv. ring. Qed.
Lemma strapdown_unit_norm p0 p1 p2 v0 v1 v2 q0 q1 q2 q3 a0 a1 a2 w0 w1 w2 g dt : 4 * eps <= usq dt w0 w1 w2 ->
  let r := rdd2_strapdown_ins_propagate p0 p1 p2 v0 v1 v2 q0 q1 q2 q3 a0 a1 a2 w0 w1 w2 g dt in
  norm2 [nth 6 r 0; nth 7 r 0; nth 8 r 0; nth 9 r 0] = norm2 [q0; q1; q2; q3].
Proof.
  intros H r. unfold r. rewrite strapdown_struct. cbv zeta.
  assert (Hn : nsq (dt * w0) (dt * w1) (dt * w2) = usq dt w0 w1 w2) by (unfold nsq, usq; ring).
  assert (H' : 4 * eps <= nsq (dt * w0) (dt * w1) (dt * w2)) by (rewrite Hn; exact H).
  destruct (quat_exp_large_qcl _ _ _ H') as [E U]. rewrite E. clear E.
  set (th := sqrt (nsq (dt * w0) (dt * w1) (dt * w2))) in *.
  set (n0 := dt * w0 / th) in *. set (n1 := dt * w1 / th) in *. set (n2 := dt * w2 / th) in *.
  match goal with |- context [madd ?a ?b ++ madd ?c ?d ++ ?q] =>
    assert (L1 : length (madd a b) = 3%nat) by (mat_cbv; reflexivity);
    assert (L2 : length (madd c d) = 3%nat) by (mat_cbv; reflexivity);
    generalize dependent (madd a b); intros l1 L1; generalize dependent (madd c d); intros l2 L2 end.
  destruct l1 as [|x1 [|x2 [|x3 [|]]]]; try discriminate. destruct l2 as [|y1 [|y2 [|y3 [|]]]]; try discriminate.
  cbv [app nth]. unfold qcl. cbv [SO3Quat_product_v nth].
  pose proof (quat_product_norm q0 q1 q2 q3 (cos (th / 2)) (sin (th / 2) * n0) (sin (th / 2) * n1) (sin (th / 2) * n2)) as N.
  remember (SO3Quat_product q0 q1 q2 q3 (cos (th / 2)) (sin (th / 2) * n0) (sin (th / 2) * n1) (sin (th / 2) * n2)) as pr.
  assert (Lp : length pr = 4%nat) by (subst pr; reflexivity).
  destruct pr as [|z0 [|z1 [|z2 [|z3 [|]]]]]; try discriminate. cbv [nth].
  rewrite N. pose proof (sin2_cos2 (th / 2)) as Q. unfold Rsqr in Q.
  cbv [norm2 dot combine map fold_right fst snd] in *.
  replace (cos (th / 2) * cos (th / 2) + (sin (th / 2) * n0 * (sin (th / 2) * n0) + (sin (th / 2) * n1 * (sin (th / 2) * n1) + (sin (th / 2) * n2 * (sin (th / 2) * n2) + 0))))
    with (cos (th / 2) * cos (th / 2) + sin (th / 2) * sin (th / 2) * (n0 * n0 + n1 * n1 + n2 * n2)) by ring.
  rewrite U. nra.
Qed.
