(* C20: the uros logger writes one row per logging period (Model/Sched.v), including logger/dt updates while running *)
From Coq Require Import List ZArith NArith Bool Lia.
From Cyecca Require Import Model.Node Model.Sched Proofs.C20_node.
Import ListNotations.
Local Open Scope Z_scope.

(* ---- one row per logging period ---- *)
Definition lq (lp : nat) (q : list ev) : list ev := filter (fun e => Nat.eqb (e_pid e) lp) q.
(* consecutive row stamps differ by the wait scheduled after the earlier row *)
Fixpoint chain (ts ws : list Z) : Prop :=
  match ts, ws with
  | t1 :: ((t2 :: _) as r), w :: ws' => t2 = t1 + w /\ chain r ws'
  | _, _ => True
  end.
(* when the logger will run next: last stamp + last wait *)
Fixpoint next_log (ts ws : list Z) : list Z :=
  match ts, ws with
  | [t], [w] => [t + w]
  | _ :: r, _ :: ws' => next_log r ws'
  | _, _ => []
  end.

Lemma lq_insert_other lp e q : Nat.eqb (e_pid e) lp = false -> lq lp (insert e q) = lq lp q.
Proof.
  intro H. induction q as [|x q IH]; simpl; [rewrite H; reflexivity|].
  destruct (Z.leb (e_t x) (e_t e)); simpl; [rewrite IH; reflexivity | rewrite H; reflexivity].
Qed.
Lemma lq_insert_self lp e q : Nat.eqb (e_pid e) lp = true -> lq lp q = [] -> lq lp (insert e q) = [e].
Proof.
  intros H. induction q as [|x q IH]; simpl; intro Hq; [rewrite H; reflexivity|].
  destruct (Nat.eqb (e_pid x) lp) eqn:Ex; [discriminate Hq|].
  destruct (Z.leb (e_t x) (e_t e)); simpl; [rewrite Ex; apply IH, Hq | rewrite H, Ex, Hq; reflexivity].
Qed.

Lemma next_log_snoc ts ws t w : length ts = length ws -> next_log (ts ++ [t]) (ws ++ [w]) = [t + w].
Proof.
  revert ws. induction ts as [|a ts IH]; intros [|b ws] H; simpl in *; try discriminate; [reflexivity|].
  injection H as H. specialize (IH ws H).
  destruct ts as [|a' ts]; destruct ws as [|b' ws]; simpl in *; try discriminate; [reflexivity | exact IH].
Qed.
Lemma chain_snoc ts ws t w : length ts = length ws -> chain ts ws -> (ts = [] \/ next_log ts ws = [t]) ->
  chain (ts ++ [t]) (ws ++ [w]).
Proof.
  revert ws. induction ts as [|a ts IH]; intros [|b ws] H Hc Hn; simpl in *; try discriminate; [exact I|].
  injection H as H.
  destruct ts as [|a' ts]; destruct ws as [|b' ws]; simpl in *; try discriminate.
  - destruct Hn as [Hn|Hn]; [discriminate Hn|]. injection Hn as Hn. split; [lia | exact I].
  - destruct Hc as [Hc1 Hc2]. split; [exact Hc1|]. apply (IH (b' :: ws)); [simpl; lia | exact Hc2 |].
    right. destruct Hn as [Hn|Hn]; [discriminate Hn | exact Hn].
Qed.

(* logger invariant: as many waits as rows, stamps chained by the waits, first stamp 0, and the only pending logger event
   is at last stamp + last wait *)
Definition linv (lp : nat) (s : sstate) : Prop :=
  length (map fst (rows s)) = length (waits s) /\ chain (map fst (rows s)) (waits s) /\
  map e_t (lq lp (queue s)) = next_log (map fst (rows s)) (waits s) /\
  (forall t, hd_error (map fst (rows s)) = Some t -> t = 0).
Definition linv' (lp : nat) (s : sstate) (q : list ev) : Prop :=
  length (map fst (rows s)) = length (waits s) /\ chain (map fst (rows s)) (waits s) /\
  map e_t (lq lp q) = next_log (map fst (rows s)) (waits s) /\
  (forall t, hd_error (map fst (rows s)) = Some t -> t = 0).

Lemma fire_linv_other ps lp s t pid q :
  (forall pid p, nth_error ps pid = Some p -> kind p = PLog -> pid = lp) -> pid <> lp ->
  linv' lp s q -> linv' lp (fire ps s t pid q) (queue (fire ps s t pid q)).
Proof.
  intros Hu Hne (Hl & Hc & Hq & Hh). unfold fire.
  assert (Eb : Nat.eqb pid lp = false) by (apply Nat.eqb_neq; exact Hne).
  destruct (nth_error ps pid) as [p|] eqn:E; [|unfold linv'; simpl; repeat split; assumption].
  destruct (kind p) eqn:K.
  - unfold linv'; simpl. rewrite lq_insert_other by (simpl; exact Eb). repeat split; assumption.
  - exfalso. apply Hne. apply (Hu pid p E K).
  - unfold linv'; simpl. rewrite lq_insert_other by (simpl; exact Eb). repeat split; assumption.
Qed.

Lemma fire_linv_self ps lp p0 s t q :
  nth_error ps lp = Some p0 -> kind p0 = PLog ->
  length (map fst (rows s)) = length (waits s) -> chain (map fst (rows s)) (waits s) ->
  lq lp q = [] -> (rows s = [] /\ t = 0 \/ next_log (map fst (rows s)) (waits s) = [t]) ->
  (forall t, hd_error (map fst (rows s)) = Some t -> t = 0) ->
  linv' lp (fire ps s t lp q) (queue (fire ps s t lp q)).
Proof.
  intros E K Hl Hc Hq Hn Hh. unfold fire. rewrite E, K. unfold linv'; simpl.
  rewrite map_app. simpl. repeat split.
  - rewrite !app_length, Hl. reflexivity.
  - apply chain_snoc; [exact Hl | exact Hc |]. destruct Hn as [[Hn _]|Hn]; [left; rewrite Hn; reflexivity | right; exact Hn].
  - rewrite lq_insert_self; [| simpl; apply Nat.eqb_refl | exact Hq]. simpl. rewrite next_log_snoc by exact Hl. reflexivity.
  - intros t0 H0. destruct Hn as [[Hn Ht]|Hn].
    + rewrite Hn in H0. simpl in H0. injection H0 as <-. exact Ht.
    + destruct (map fst (rows s)) as [|a r] eqn:Er; [discriminate Hn|]. simpl in H0. apply Hh. simpl. exact H0.
Qed.

Lemma next_log_short ts ws : next_log ts ws = [] \/ exists x, next_log ts ws = [x].
Proof.
  revert ws. induction ts as [|a ts IH]; intros ws0; [left; reflexivity|].
  destruct ws0 as [|b ws1]; [left; destruct ts; reflexivity|].
  destruct ts as [|a' ts]; [destruct ws1; [right; eexists; reflexivity | left; reflexivity]|].
  apply (IH ws1).
Qed.

Lemma fire_other_rows ps lp s t pid q :
  (forall pid p, nth_error ps pid = Some p -> kind p = PLog -> pid = lp) -> pid <> lp ->
  rows (fire ps s t pid q) = rows s /\ lq lp (queue (fire ps s t pid q)) = lq lp q.
Proof.
  intros Hu Hne. unfold fire.
  assert (Eb : Nat.eqb pid lp = false) by (apply Nat.eqb_neq; exact Hne).
  destruct (nth_error ps pid) as [p|] eqn:E; [|simpl; split; reflexivity].
  destruct (kind p) eqn:K; simpl.
  - rewrite lq_insert_other by (simpl; exact Eb). split; reflexivity.
  - exfalso. apply Hne. apply (Hu pid p E K).
  - rewrite lq_insert_other by (simpl; exact Eb). split; reflexivity.
Qed.

Lemma srun_linv ps lp p0 tf fuel :
  nth_error ps lp = Some p0 -> kind p0 = PLog ->
  (forall pid p, nth_error ps pid = Some p -> kind p = PLog -> pid = lp) ->
  forall s, linv' lp s (queue s) -> linv' lp (srun ps tf fuel s) (queue (srun ps tf fuel s)).
Proof.
  intros E K Hu. induction fuel as [|f IH]; intros s H; simpl; [exact H|].
  destruct (queue s) as [|e q] eqn:Q; [rewrite Q; exact H|].
  destruct (Z.ltb (e_t e) tf); [|rewrite Q; exact H].
  apply IH. destruct H as (Hl & Hc & Hq & Hh).
  destruct (Nat.eqb (e_pid e) lp) eqn:Ee.
  - apply Nat.eqb_eq in Ee. rewrite Ee.
    unfold lq in Hq. simpl in Hq. rewrite <- Ee, Nat.eqb_refl in Hq. simpl in Hq.
    destruct (next_log_short (map fst (rows s)) (waits s)) as [Hn|[x Hn]]; rewrite Hn in Hq; [discriminate Hq|].
    injection Hq as Hq1 Hq2. apply map_eq_nil in Hq2.
    apply (fire_linv_self ps lp p0 s (e_t e) q E K Hl Hc); [rewrite Ee in Hq2; exact Hq2 | right; rewrite Hn, Hq1; reflexivity | exact Hh].
  - apply fire_linv_other; [exact Hu | apply Nat.eqb_neq; exact Ee |].
    unfold linv'. repeat split; try assumption.
    rewrite <- Hq. unfold lq. simpl. rewrite Ee. reflexivity.
Qed.

Lemma start_linv all lp p0 :
  nth_error all lp = Some p0 -> kind p0 = PLog ->
  (forall pid p, nth_error all pid = Some p -> kind p = PLog -> pid = lp) ->
  forall ps pid s, linv' lp s (queue s) -> ((pid <= lp)%nat -> rows s = [] /\ lq lp (queue s) = []) ->
  linv' lp (start ps all pid s) (queue (start ps all pid s)).
Proof.
  intros E K Hu. induction ps as [|p ps IH]; intros pid s H Hpre; simpl; [exact H|].
  destruct (Nat.eq_dec pid lp) as [->|Hne].
  - apply IH; [|intro Hle; lia].
    destruct H as (Hl & Hc & Hq & Hh). destruct (Hpre (le_n lp)) as [Hr Hq0].
    apply (fire_linv_self all lp p0 s 0 (queue s) E K Hl Hc Hq0); [left; split; [exact Hr|reflexivity] | exact Hh].
  - apply IH; [apply fire_linv_other; [exact Hu | exact Hne | exact H]|].
    intro Hle. destruct (fire_other_rows all lp s 0 pid (queue s) Hu Hne) as [R1 R2]. rewrite R1, R2.
    apply Hpre. lia.
Qed.

(* one row per logging period: for every process table with one logger, every horizon and every sequence of logger/dt
   updates, there are as many scheduled waits as rows, the first row is stamped 0 and each later row is stamped exactly
   one wait after the previous one *)
Theorem logger_one_row_per_period ps tf fuel lp p0 :
  nth_error ps lp = Some p0 -> kind p0 = PLog ->
  (forall pid p, nth_error ps pid = Some p -> kind p = PLog -> pid = lp) ->
  let s := final ps tf fuel in
  length (map fst (rows s)) = length (waits s) /\ chain (map fst (rows s)) (waits s) /\
  (forall t, hd_error (map fst (rows s)) = Some t -> t = 0).
Proof.
  intros E K Hu s.
  assert (H : linv' lp s (queue s)).
  { unfold s, final. apply (srun_linv ps lp p0 tf fuel E K Hu). apply (start_linv ps lp p0 E K Hu).
    - unfold linv', s0; simpl. repeat split; try reflexivity. intros t Ht; discriminate Ht.
    - intros _. split; reflexivity. }
  destruct H as (Hl & Hc & _ & Hh). repeat split; assumption.
Qed.

(* the waits are configured logging periods: the period set before the run or a value some process set logger/dt to *)
Definition cfg (ps : list proc) (d0 w : Z) : Prop := w = d0 \/ exists p, In p ps /\ kind p = PSet w.
Definition winv (ps : list proc) (d0 : Z) (s : sstate) : Prop :=
  (forall d, log_dt s = Some d -> exists p, In p ps /\ kind p = PSet d) /\ Forall (cfg ps d0) (waits s).

Lemma fire_winv ps d0 s t pid q :
  (forall pid p, nth_error ps pid = Some p -> kind p = PLog -> period p = d0) ->
  winv ps d0 s -> winv ps d0 (fire ps s t pid q).
Proof.
  intros Hd [Hl Hw]. unfold fire.
  destruct (nth_error ps pid) as [p|] eqn:E; [|split; assumption].
  destruct (kind p) eqn:K; unfold winv; simpl.
  - split; assumption.
  - split; [exact Hl|]. apply Forall_app. split; [exact Hw|]. constructor; [|constructor].
    destruct (log_dt s) as [d|] eqn:Ed; [right; apply Hl; reflexivity | left; apply (Hd pid p E K)].
  - split; [|exact Hw]. intros d Ed. injection Ed as <-. exists p. split; [eapply nth_error_In; exact E | exact K].
Qed.
Lemma srun_winv ps d0 tf fuel :
  (forall pid p, nth_error ps pid = Some p -> kind p = PLog -> period p = d0) ->
  forall s, winv ps d0 s -> winv ps d0 (srun ps tf fuel s).
Proof.
  intro Hd. induction fuel as [|f IH]; intros s H; simpl; [exact H|].
  destruct (queue s) as [|e q]; [exact H|]. destruct (Z.ltb (e_t e) tf); [|exact H].
  apply IH, fire_winv; assumption.
Qed.
Lemma start_winv all d0 :
  (forall pid p, nth_error all pid = Some p -> kind p = PLog -> period p = d0) ->
  forall ps pid s, winv all d0 s -> winv all d0 (start ps all pid s).
Proof.
  intro Hd. induction ps as [|p ps IH]; intros pid s H; simpl; [exact H|]. apply IH, fire_winv; assumption.
Qed.
Theorem logger_waits_are_configured ps tf fuel d0 :
  (forall pid p, nth_error ps pid = Some p -> kind p = PLog -> period p = d0) ->
  Forall (cfg ps d0) (waits (final ps tf fuel)).
Proof.
  intro Hd. apply (srun_winv ps d0 tf fuel Hd), (start_winv ps d0 Hd).
  split; [intros d Ed; discriminate Ed | constructor].
Qed.

Lemma chain_arith d : forall ts ws a, length ts = length ws -> chain ts ws -> Forall (fun w => w = d) ws ->
  hd_error ts = Some a -> forall i t, nth_error ts i = Some t -> t = a + Z.of_nat i * d.
Proof.
  induction ts as [|x ts IH]; intros ws a Hl Hc Hw Hh i t Hi; [destruct i; discriminate Hi|].
  simpl in Hh. injection Hh as ->.
  destruct i as [|i]; [simpl in Hi; injection Hi as <-; lia|].
  destruct ws as [|w ws]; [discriminate Hl|]. simpl in Hl. injection Hl as Hl.
  inversion Hw as [|w' ws' Hw1 Hw2]; subst.
  destruct ts as [|y ts]; [destruct i; discriminate Hi|].
  simpl in Hc. destruct Hc as [Hc1 Hc2].
  simpl in Hi. rewrite (IH ws y Hl Hc2 Hw2 eq_refl i t Hi). rewrite Hc1. lia.
Qed.

(* without parameter updates the i-th row is stamped exactly i logging periods after 0 *)
Theorem logger_rows_at_multiples ps tf fuel lp p0 :
  nth_error ps lp = Some p0 -> kind p0 = PLog ->
  (forall pid p, nth_error ps pid = Some p -> kind p = PLog -> pid = lp) ->
  (forall p v, In p ps -> kind p <> PSet v) ->
  forall i t, nth_error (map fst (simulate ps tf fuel)) i = Some t -> t = Z.of_nat i * period p0.
Proof.
  intros E K Hu Hn i t Hi. unfold simulate in Hi.
  destruct (logger_one_row_per_period ps tf fuel lp p0 E K Hu) as (Hl & Hc & Hh).
  assert (Hd : forall pid p, nth_error ps pid = Some p -> kind p = PLog -> period p = period p0).
  { intros pid p Ep Kp. rewrite (Hu pid p Ep Kp) in Ep. rewrite E in Ep. injection Ep as <-. reflexivity. }
  assert (Hw : Forall (fun w => w = period p0) (waits (final ps tf fuel))).
  { eapply Forall_impl; [|apply (logger_waits_are_configured ps tf fuel (period p0) Hd)].
    intros w [Hw|[p [Hp Kp]]]; [exact Hw | exfalso; apply (Hn p w Hp Kp)]. }
  destruct (map fst (rows (final ps tf fuel))) as [|a r] eqn:Er; [destruct i; discriminate Hi|].
  rewrite (chain_arith (period p0) (a :: r) _ a Hl Hc Hw eq_refl i t Hi).
  rewrite (Hh a eq_refl). lia.
Qed.
