(* C04: Ad is conjugation, on generated code.
   Stated in intertwining form  hat(Ad_X y) * M(X) = M(X) * hat(y)  (M(X) is invertible by C01). *)
From Coq Require Import Reals List Lra Lia.
From Cyecca Require Import Base.Ops Base.Tactics Spec.Mat Spec.Rot
  Gen.SO2 Gen.SE2 Gen.Rn Gen.so3 Gen.se3 Gen.se23 Gen.SO3Quat Gen.SO3Mrp Gen.SO3Dcm Gen.SE3Quat Gen.SE3Mrp Gen.SE23Quat Gen.SE23Mrp
  Proofs.C01_SO3Quat Proofs.C01_SO3Mrp Proofs.C01_SE3.
Import ListNotations.
Local Open Scope R_scope.

Section Law.
Variables (n m r : nat).
Variables (Ad toM : list R -> list R) (hat : list R -> list R).
Variable valid : list R -> Prop.
Definition Ad_conj := forall X y, valid X -> length y = m ->
  mmul r r r (hat (mvec m m (Ad X) y)) (toM X) = mmul r r r (toM X) (hat y).
Definition Ad_square := forall X, valid X -> length (Ad X) = (m * m)%nat.
End Law.

Ltac conj0 U := unfold Ad_conj, Ad_square; intros; explode; U; mat_cbv; try reflexivity.

(* abelian / planar *)
Lemma SO2_Ad_conj : Ad_conj 1 2 SO2_Ad_v SO2_to_Matrix_v so2_hat_v (fun X => length X = 1%nat).
Proof. conj0 SO2_unfold. list_eq; ring. Qed.
Lemma SE2_Ad_conj : Ad_conj 3 3 SE2_Ad_v SE2_to_Matrix_v se2_hat_v (fun X => length X = 3%nat).
Proof.
  conj0 SE2_unfold. pose proof (sin2_cos2 r1) as P. unfold Rsqr in P. list_eq; nsatzR.
Qed.
Lemma R2_Ad_conj : Ad_conj 2 3 R2_Ad_v R2_to_Matrix_v r2_hat_v (fun X => length X = 2%nat).
Proof. conj0 Rn_unfold. list_eq; ring. Qed.
Lemma R3_Ad_conj : Ad_conj 3 4 R3_Ad_v R3_to_Matrix_v r3_hat_v (fun X => length X = 3%nat).
Proof. conj0 Rn_unfold. list_eq; ring. Qed.
Lemma R2_Ad_sq : Ad_square 2 R2_Ad_v (fun X => length X = 2%nat).  Proof. conj0 Rn_unfold. Qed.
Lemma R3_Ad_sq : Ad_square 3 R3_Ad_v (fun X => length X = 3%nat).  Proof. conj0 Rn_unfold. Qed.

(* quaternion based *)
Lemma SO3Quat_Ad_conj : Ad_conj 3 3 SO3Quat_Ad_v SO3Quat_to_Matrix_v so3_hat_v unitq.
Proof.
  intros X y [HX Hn] Hy. explode. revert Hn. mat_cbv. rewrite Rplus_0_r. intro Hn.
  SO3Quat_unfold. so3_unfold. mat_cbv. list_eq; nsatzR.
Qed.
Lemma SE3Quat_Ad_conj : Ad_conj 6 4 SE3Quat_Ad_v SE3Quat_to_Matrix_v se3_hat_v unit7.
Proof.
  intros X y [HX Hn] Hy. explode. revert Hn. cbn [skipn]. mat_cbv. intro Hn.
  SE3Quat_unfold. se3_unfold. mat_cbv. list_eq; nsatzR.
Qed.
Lemma SE23Quat_Ad_conj : Ad_conj 9 5 SE23Quat_Ad_v SE23Quat_to_Matrix_v se23_hat_v unit10.
Proof.
  intros X y [HX Hn] Hy. explode. revert Hn. cbn [skipn]. mat_cbv. intro Hn.
  SE23Quat_unfold. se23_unfold. mat_cbv. list_eq; nsatzR.
Qed.

(* MRP based: through the quaternion of the MRP *)
Definition sig (r : list R) := SO3Quat_from_Mrp_v r.

Lemma SO3Mrp_Ad_is_matrix r : len3 r -> SO3Mrp_Ad_v r = SO3Mrp_to_Matrix_v r.
Proof. unfold len3. intro. explode. SO3Mrp_unfold. reflexivity. Qed.

Lemma SO3Mrp_Ad_conj : Ad_conj 3 3 SO3Mrp_Ad_v SO3Mrp_to_Matrix_v so3_hat_v len3.
Proof.
  intros X y HX Hy. rewrite (SO3Mrp_Ad_is_matrix X HX), (mrp_matrix_via_quat X HX).
  pose proof (SO3Quat_Ad_conj (SO3Quat_from_Mrp_v X) y (quat_of_mrp_unit X HX) Hy) as H.
  replace (SO3Quat_Ad_v (SO3Quat_from_Mrp_v X)) with (SO3Quat_to_Matrix_v (SO3Quat_from_Mrp_v X)) in H; [exact H|].
  unfold len3 in HX. explode. SO3Quat_unfold. reflexivity.
Qed.

Ltac mrp_bridge U1 U2 :=
  intros; explode; U1; U2; SO3Quat_unfold; cbn [app];
  match goal with |- _ => idtac end;
  list_eq; try reflexivity; field; mrp_side.

Lemma SE3Mrp_Ad_bridge p0 p1 p2 r0 r1 r2 :
  SE3Mrp_Ad_v [p0; p1; p2; r0; r1; r2] = SE3Quat_Ad_v ([p0; p1; p2] ++ sig [r0; r1; r2]).
Proof. unfold sig. pose proof (sq_pos3 r0 r1 r2). SE3Mrp_unfold. SE3Quat_unfold. SO3Quat_unfold. cbn [app]. SE3Quat_unfold. list_eq; try reflexivity; field; mrp_side. Qed.
Lemma SE3Mrp_toM_bridge p0 p1 p2 r0 r1 r2 :
  SE3Mrp_to_Matrix_v [p0; p1; p2; r0; r1; r2] = SE3Quat_to_Matrix_v ([p0; p1; p2] ++ sig [r0; r1; r2]).
Proof. unfold sig. pose proof (sq_pos3 r0 r1 r2). SE3Mrp_unfold. SE3Quat_unfold. SO3Quat_unfold. cbn [app]. SE3Quat_unfold. list_eq; try reflexivity; field; mrp_side. Qed.
Lemma SE23Mrp_Ad_bridge p0 p1 p2 v0 v1 v2 r0 r1 r2 :
  SE23Mrp_Ad_v [p0; p1; p2; v0; v1; v2; r0; r1; r2] = SE23Quat_Ad_v ([p0; p1; p2; v0; v1; v2] ++ sig [r0; r1; r2]).
Proof. unfold sig. pose proof (sq_pos3 r0 r1 r2). SE23Mrp_unfold. SE23Quat_unfold. SO3Quat_unfold. cbn [app]. SE23Quat_unfold. list_eq; try reflexivity; field; mrp_side. Qed.
Lemma SE23Mrp_toM_bridge p0 p1 p2 v0 v1 v2 r0 r1 r2 :
  SE23Mrp_to_Matrix_v [p0; p1; p2; v0; v1; v2; r0; r1; r2] = SE23Quat_to_Matrix_v ([p0; p1; p2; v0; v1; v2] ++ sig [r0; r1; r2]).
Proof. unfold sig. pose proof (sq_pos3 r0 r1 r2). SE23Mrp_unfold. SE23Quat_unfold. SO3Quat_unfold. cbn [app]. SE23Quat_unfold. list_eq; try reflexivity; field; mrp_side. Qed.

Lemma SE3Mrp_Ad_conj : Ad_conj 6 4 SE3Mrp_Ad_v SE3Mrp_to_Matrix_v se3_hat_v (fun X => length X = 6%nat).
Proof.
  intros X y HX Hy. explode_with X HX.
  rewrite SE3Mrp_Ad_bridge, SE3Mrp_toM_bridge.
  apply SE3Quat_Ad_conj; [|exact Hy].
  destruct (quat_of_mrp_unit [r2; r3; r4] eq_refl) as [L N].
  unfold sig. remember (SO3Quat_from_Mrp_v [r2; r3; r4]) as q. clear Heqq. explode.
  split; [reflexivity | exact N].
Qed.
Lemma SE23Mrp_Ad_conj : Ad_conj 9 5 SE23Mrp_Ad_v SE23Mrp_to_Matrix_v se23_hat_v (fun X => length X = 9%nat).
Proof.
  intros X y HX Hy. explode_with X HX.
  rewrite SE23Mrp_Ad_bridge, SE23Mrp_toM_bridge.
  apply SE23Quat_Ad_conj; [|exact Hy].
  destruct (quat_of_mrp_unit [r5; r6; r7] eq_refl) as [L N].
  unfold sig. remember (SO3Quat_from_Mrp_v [r5; r6; r7]) as q. clear Heqq. explode.
  split; [reflexivity | exact N].
Qed.
