(* C01 for SO(3) in MRP form, on generated code; goes through the quaternion of an MRP
   (the generated unit SO3Quat.from_Mrp), which keeps every rational identity small *)
From Coq Require Import Reals List Lra Lia.
From Cyecca Require Import Base.Ops Base.Tactics Spec.Mat Spec.Rot Gen.SO3Mrp Gen.SO3Quat Proofs.C01_SO3Quat.
Import ListNotations.
Local Open Scope R_scope.

Definition len3 (a : list R) : Prop := length a = 3%nat.
(* the product is singular exactly at a composite rotation of 360 degrees *)
Definition mrp_den (a b : list R) : R := 1 + norm2 a * norm2 b - 2 * dot b a.

Lemma sq_pos3 x y z : 0 < 1 + (x * x + (y * y + z * z)).
Proof. nra. Qed.

Ltac mrp_side :=
  repeat match goal with
  | |- _ /\ _ => split
  | |- ?e <> 0 => first [ assumption | apply Rgt_not_eq; unfold Rgt; nra | nra ]
  end.

(* F1: the MRP matrix is the matrix of its quaternion *)
Lemma mrp_matrix_via_quat a : len3 a ->
  SO3Mrp_to_Matrix_v a = SO3Quat_to_Matrix_v (SO3Quat_from_Mrp_v a).
Proof.
  unfold len3. intro Ha. explode. SO3Mrp_unfold. SO3Quat_unfold.
  pose proof (sq_pos3 r r0 r1) as Pa.
  list_eq; field; mrp_side.
Qed.

(* the quaternion of an MRP is a unit quaternion *)
Lemma quat_of_mrp_unit a : len3 a -> unitq (SO3Quat_from_Mrp_v a).
Proof.
  unfold len3. intro Ha. explode. split; [reflexivity|]. SO3Quat_unfold. mat_cbv.
  pose proof (sq_pos3 r r0 r1) as Pa. field; mrp_side.
Qed.

(* F2: the MRP product is the quaternion product *)
Lemma mrp_product_via_quat a b : len3 a -> len3 b -> mrp_den a b <> 0 ->
  SO3Quat_from_Mrp_v (SO3Mrp_product_v a b) = SO3Quat_product_v (SO3Quat_from_Mrp_v a) (SO3Quat_from_Mrp_v b).
Proof.
  unfold len3, mrp_den. intros Ha Hb. explode. mat_cbv. rewrite !Rplus_0_r. intro Hd.
  SO3Mrp_unfold. SO3Quat_unfold.
  pose proof (sq_pos3 r r0 r1) as Pa. pose proof (sq_pos3 r2 r3 r4) as Pb.
  list_eq; field; mrp_side.
Qed.

Lemma mrp_product_len a b : len3 a -> len3 b -> len3 (SO3Mrp_product_v a b).
Proof. unfold len3. intros. explode. reflexivity. Qed.

Lemma mrp_hom a b : len3 a -> len3 b -> mrp_den a b <> 0 ->
  SO3Mrp_to_Matrix_v (SO3Mrp_product_v a b) = mmul 3 3 3 (SO3Mrp_to_Matrix_v a) (SO3Mrp_to_Matrix_v b).
Proof.
  intros Ha Hb Hd.
  rewrite (mrp_matrix_via_quat _ (mrp_product_len _ _ Ha Hb)), (mrp_product_via_quat _ _ Ha Hb Hd).
  rewrite (mrp_matrix_via_quat a Ha), (mrp_matrix_via_quat b Hb).
  apply quat_hom; apply quat_of_mrp_unit; assumption.
Qed.

Lemma mrp_matrix_proper a : len3 a -> proper_rotation (SO3Mrp_to_Matrix_v a).
Proof. intro Ha. rewrite (mrp_matrix_via_quat a Ha). apply quat_matrix_proper, quat_of_mrp_unit, Ha. Qed.

Lemma mrp_inv : inv_law 3 SO3Mrp_inverse_v SO3Mrp_to_Matrix_v len3.
Proof.
  intros a Ha. unfold len3 in *. explode.
  pose proof (sq_pos3 r r0 r1) as Pa.
  SO3Mrp_unfold. mat_cbv. split; list_eq; field; mrp_side.
Qed.

Lemma mrp_id : id_law 3 SO3Mrp_product_v SO3Mrp_identity_v SO3Mrp_to_Matrix_v len3.
Proof.
  split; [|split].
  - SO3Mrp_unfold. mat_cbv. list_eq; field.
  - reflexivity.
  - intros a Ha. unfold len3 in *. explode. pose proof (sq_pos3 r r0 r1) as Pa.
    SO3Mrp_unfold. split; list_eq; field; mrp_side.
Qed.

Lemma mrp_id_param : id_param_law SO3Mrp_product_v SO3Mrp_identity_v len3.
Proof. intros a Ha. unfold len3 in *. explode. SO3Mrp_unfold. split; list_eq; field. Qed.

(* associativity as matrices, wherever the three products involved are defined *)
Lemma mrp_assoc a b c : len3 a -> len3 b -> len3 c ->
  mrp_den a b <> 0 -> mrp_den (SO3Mrp_product_v a b) c <> 0 -> mrp_den b c <> 0 -> mrp_den a (SO3Mrp_product_v b c) <> 0 ->
  SO3Mrp_to_Matrix_v (SO3Mrp_product_v (SO3Mrp_product_v a b) c) = SO3Mrp_to_Matrix_v (SO3Mrp_product_v a (SO3Mrp_product_v b c)).
Proof.
  intros Ha Hb Hc D1 D2 D3 D4.
  pose proof (mrp_product_len _ _ Ha Hb) as Hab. pose proof (mrp_product_len _ _ Hb Hc) as Hbc.
  rewrite (mrp_matrix_via_quat _ (mrp_product_len _ _ Hab Hc)), (mrp_matrix_via_quat _ (mrp_product_len _ _ Ha Hbc)).
  rewrite (mrp_product_via_quat _ _ Hab Hc D2), (mrp_product_via_quat _ _ Ha Hb D1).
  rewrite (mrp_product_via_quat _ _ Ha Hbc D4), (mrp_product_via_quat _ _ Hb Hc D3).
  rewrite quat_assoc_param; [reflexivity | | | ]; apply quat_of_mrp_unit; assumption.
Qed.
