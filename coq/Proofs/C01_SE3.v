(* C01 for SE(3) and SE_2(3), quaternion and MRP rotation parts: the generated units are the generic
   semidirect constructions of Spec/Semidirect.v applied to the generated SO(3) units *)
From Coq Require Import Reals List Lra Lia.
From Cyecca Require Import Base.Ops Base.Tactics Spec.Mat Spec.Rot Spec.Semidirect
  Gen.SO3Quat Gen.SO3Mrp Gen.SE3Quat Gen.SE3Mrp Gen.SE23Quat Gen.SE23Mrp
  Proofs.C01_SO3Quat Proofs.C01_SO3Mrp.
Import ListNotations.
Local Open Scope R_scope.

Ltac sd_unfold := unfold se3_prod, se3_inv, se3_toM, se3_id, se3_p, se3_R, se23_prod, se23_toM, se23_p, se23_v, se23_R, vadd, vneg;
  cbn [firstn skipn app].

(* ---------- bridges: quaternion ---------- *)
Lemma SE3Quat_product_bridge a b : length a = 7%nat -> length b = 7%nat ->
  SE3Quat_product_v a b = se3_prod SO3Quat_product_v SO3Quat_to_Matrix_v a b.
Proof. intros Ha Hb. explode. sd_unfold. SE3Quat_unfold. SO3Quat_unfold. mat_cbv. list_eq; ring. Qed.
Lemma SE3Quat_to_Matrix_bridge a : length a = 7%nat ->
  SE3Quat_to_Matrix_v a = se3_toM SO3Quat_to_Matrix_v a.
Proof. intros Ha. explode. sd_unfold. SE3Quat_unfold. SO3Quat_unfold. mat_cbv. list_eq; ring. Qed.
Lemma SE3Quat_inverse_bridge a : length a = 7%nat ->
  SE3Quat_inverse_v a = se3_inv SO3Quat_inverse_v SO3Quat_to_Matrix_v a.
Proof. intros Ha. explode. sd_unfold. SE3Quat_unfold. SO3Quat_unfold. mat_cbv. list_eq; ring. Qed.

Lemma SE23Quat_product_bridge a b : length a = 10%nat -> length b = 10%nat ->
  SE23Quat_product_v a b = se23_prod SO3Quat_product_v SO3Quat_to_Matrix_v a b.
Proof. intros Ha Hb. explode. sd_unfold. SE23Quat_unfold. SO3Quat_unfold. mat_cbv. list_eq; ring. Qed.
Lemma SE23Quat_to_Matrix_bridge a : length a = 10%nat ->
  SE23Quat_to_Matrix_v a = se23_toM SO3Quat_to_Matrix_v a.
Proof. intros Ha. explode. sd_unfold. SE23Quat_unfold. SO3Quat_unfold. mat_cbv. list_eq; ring. Qed.

(* ---------- bridges: MRP ---------- *)
Lemma SE3Mrp_product_bridge a b : length a = 6%nat -> length b = 6%nat ->
  SE3Mrp_product_v a b = se3_prod SO3Mrp_product_v SO3Mrp_to_Matrix_v a b.
Proof. intros Ha Hb. explode. sd_unfold. SE3Mrp_unfold. SO3Mrp_unfold. mat_cbv. list_eq; try reflexivity; ring. Qed.
Lemma SE3Mrp_to_Matrix_bridge a : length a = 6%nat ->
  SE3Mrp_to_Matrix_v a = se3_toM SO3Mrp_to_Matrix_v a.
Proof. intros Ha. explode. sd_unfold. SE3Mrp_unfold. SO3Mrp_unfold. mat_cbv. list_eq; try reflexivity; ring. Qed.
Lemma SE3Mrp_inverse_bridge a : length a = 6%nat ->
  SE3Mrp_inverse_v a = se3_inv SO3Mrp_inverse_v SO3Mrp_to_Matrix_v a.
Proof. intros Ha. explode. sd_unfold. SE3Mrp_unfold. SO3Mrp_unfold. mat_cbv. list_eq; try reflexivity; ring. Qed.
Lemma SE23Mrp_product_bridge a b : length a = 9%nat -> length b = 9%nat ->
  SE23Mrp_product_v a b = se23_prod SO3Mrp_product_v SO3Mrp_to_Matrix_v a b.
Proof. intros Ha Hb. explode. sd_unfold. SE23Mrp_unfold. SO3Mrp_unfold. mat_cbv. list_eq; try reflexivity; ring. Qed.
Lemma SE23Mrp_to_Matrix_bridge a : length a = 9%nat ->
  SE23Mrp_to_Matrix_v a = se23_toM SO3Mrp_to_Matrix_v a.
Proof. intros Ha. explode. sd_unfold. SE23Mrp_unfold. SO3Mrp_unfold. mat_cbv. list_eq; try reflexivity; ring. Qed.

(* ---------- laws ---------- *)
Lemma quat_toM_len x : len4 x -> length (SO3Quat_to_Matrix_v x) = 9%nat.
Proof. unfold len4. intro. explode. reflexivity. Qed.
Lemma mrp_toM_len x : len3 x -> length (SO3Mrp_to_Matrix_v x) = 9%nat.
Proof. unfold len3. intro. explode. reflexivity. Qed.

Lemma se3_valid_of_len n (validR : list R -> Prop) a :
  (forall x, length x = n -> validR x) -> length a = (3 + n)%nat -> se3_valid validR a.
Proof.
  intros Hv Ha. split.
  - unfold se3_p. rewrite firstn_length, Ha. lia.
  - apply Hv. unfold se3_R. rewrite skipn_length, Ha. lia.
Qed.
Lemma se23_valid_of_len n (validR : list R -> Prop) a :
  (forall x, length x = n -> validR x) -> length a = (6 + n)%nat -> se23_valid validR a.
Proof.
  intros Hv Ha. split; [|split].
  - unfold se23_p. rewrite firstn_length, Ha. lia.
  - unfold se23_v. rewrite firstn_length, skipn_length, Ha. lia.
  - apply Hv. unfold se23_R. rewrite skipn_length, Ha. lia.
Qed.

Theorem SE3Quat_hom a b : length a = 7%nat -> length b = 7%nat ->
  SE3Quat_to_Matrix_v (SE3Quat_product_v a b) = mmul 4 4 4 (SE3Quat_to_Matrix_v a) (SE3Quat_to_Matrix_v b).
Proof.
  intros Ha Hb.
  assert (Hab : length (SE3Quat_product_v a b) = 7%nat) by (explode; reflexivity).
  rewrite (SE3Quat_to_Matrix_bridge _ Hab), (SE3Quat_to_Matrix_bridge _ Ha), (SE3Quat_to_Matrix_bridge _ Hb), (SE3Quat_product_bridge _ _ Ha Hb).
  pose proof (se3_valid_of_len 4 len4 a (fun x H => H) Ha) as Va.
  pose proof (se3_valid_of_len 4 len4 b (fun x H => H) Hb) as Vb.
  apply (se3_hom SO3Quat_product_v SO3Quat_to_Matrix_v len4 quat_toM_len a b Va Vb).
  apply quat_hom; [apply Va | apply Vb].
Qed.

Theorem SE23Quat_hom a b : length a = 10%nat -> length b = 10%nat ->
  SE23Quat_to_Matrix_v (SE23Quat_product_v a b) = mmul 5 5 5 (SE23Quat_to_Matrix_v a) (SE23Quat_to_Matrix_v b).
Proof.
  intros Ha Hb.
  assert (Hab : length (SE23Quat_product_v a b) = 10%nat) by (explode; reflexivity).
  rewrite (SE23Quat_to_Matrix_bridge _ Hab), (SE23Quat_to_Matrix_bridge _ Ha), (SE23Quat_to_Matrix_bridge _ Hb), (SE23Quat_product_bridge _ _ Ha Hb).
  pose proof (se23_valid_of_len 4 len4 a (fun x H => H) Ha) as Va.
  pose proof (se23_valid_of_len 4 len4 b (fun x H => H) Hb) as Vb.
  apply (se23_hom SO3Quat_product_v SO3Quat_to_Matrix_v len4 quat_toM_len a b Va Vb).
  apply quat_hom; [apply Va | apply Vb].
Qed.

(* MRP: away from the 360-degree singularity of the rotation parts *)
Theorem SE3Mrp_hom a b : length a = 6%nat -> length b = 6%nat -> mrp_den (skipn 3 a) (skipn 3 b) <> 0 ->
  SE3Mrp_to_Matrix_v (SE3Mrp_product_v a b) = mmul 4 4 4 (SE3Mrp_to_Matrix_v a) (SE3Mrp_to_Matrix_v b).
Proof.
  intros Ha Hb Hd.
  assert (Hab : length (SE3Mrp_product_v a b) = 6%nat) by (explode; reflexivity).
  rewrite (SE3Mrp_to_Matrix_bridge _ Hab), (SE3Mrp_to_Matrix_bridge _ Ha), (SE3Mrp_to_Matrix_bridge _ Hb), (SE3Mrp_product_bridge _ _ Ha Hb).
  pose proof (se3_valid_of_len 3 len3 a (fun x H => H) Ha) as Va.
  pose proof (se3_valid_of_len 3 len3 b (fun x H => H) Hb) as Vb.
  apply (se3_hom SO3Mrp_product_v SO3Mrp_to_Matrix_v len3 mrp_toM_len a b Va Vb).
  apply mrp_hom; [apply Va | apply Vb | exact Hd].
Qed.

Theorem SE23Mrp_hom a b : length a = 9%nat -> length b = 9%nat -> mrp_den (skipn 6 a) (skipn 6 b) <> 0 ->
  SE23Mrp_to_Matrix_v (SE23Mrp_product_v a b) = mmul 5 5 5 (SE23Mrp_to_Matrix_v a) (SE23Mrp_to_Matrix_v b).
Proof.
  intros Ha Hb Hd.
  assert (Hab : length (SE23Mrp_product_v a b) = 9%nat) by (explode; reflexivity).
  rewrite (SE23Mrp_to_Matrix_bridge _ Hab), (SE23Mrp_to_Matrix_bridge _ Ha), (SE23Mrp_to_Matrix_bridge _ Hb), (SE23Mrp_product_bridge _ _ Ha Hb).
  pose proof (se23_valid_of_len 3 len3 a (fun x H => H) Ha) as Va.
  pose proof (se23_valid_of_len 3 len3 b (fun x H => H) Hb) as Vb.
  apply (se23_hom SO3Mrp_product_v SO3Mrp_to_Matrix_v len3 mrp_toM_len a b Va Vb).
  apply mrp_hom; [apply Va | apply Vb | exact Hd].
Qed.

(* inverses, identities: directly on the generated code *)
Definition unit7 (a : list R) : Prop := length a = 7%nat /\ norm2 (skipn 3 a) = 1.
Definition unit10 (a : list R) : Prop := length a = 10%nat /\ norm2 (skipn 6 a) = 1.

Theorem SE3Quat_inv : inv_law 4 SE3Quat_inverse_v SE3Quat_to_Matrix_v unit7.
Proof.
  intros a [Ha Hn]. explode. revert Hn. cbn [skipn]. mat_cbv. intro Hn.
  SE3Quat_unfold. mat_cbv. split; list_eq; nsatzR.
Qed.
Theorem SE23Quat_inv : inv_law 5 SE23Quat_inverse_v SE23Quat_to_Matrix_v unit10.
Proof.
  intros a [Ha Hn]. explode. revert Hn. cbn [skipn]. mat_cbv. intro Hn.
  SE23Quat_unfold. mat_cbv. split; list_eq; nsatzR.
Qed.
