(* C08 (ideal layer + link): outside the small-angle cell the regenerated strapdown step is exactly the closed-form flow
     R(t) = R0 rodt(t),  v(t) = v0 - g t e3 + R0 (tjl(t) a),  p(t) = p0 + v0 t - g t^2/2 e3 + R0 (ttjl(t) a)
   evaluated at t = dt, and that flow satisfies p' = v, v' = R a - g e3, R' = R [w]x with the right initial values.
   With uniqueness of ODE solutions (classical, cited) this is "the exact solution for every dt". *)
From Coq Require Import Reals List Lra Lia.
From Coquelicot Require Import Coquelicot.
From Cyecca Require Import Base.Ops Base.Tactics Spec.Mat Gen.Series Gen.SO3Quat Gen.Rdd2 Proofs.SeriesFacts Proofs.C02 Proofs.C02_ode Proofs.C05_ode Proofs.C08.
Import ListNotations.
Local Open Scope R_scope.

Definition ttjl (th w0 w1 w2 t : R) : list R :=
  madd (mscale (t * t / 2) (mid 3)) (madd (mscale ((t * th - sin (t * th)) / (th * th * th)) (hat3 [w0; w1; w2]))
        (mscale ((t * th * (t * th) / 2 + cos (t * th) - 1) / (th * th * th * th)) (mmul 3 3 3 (hat3 [w0; w1; w2]) (hat3 [w0; w1; w2])))).

Lemma ttjl_derivative th w0 w1 w2 t k : th <> 0 -> (k < 9)%nat ->
  is_derive (fun s => nth k (ttjl th w0 w1 w2 s) 0) t (nth k (tjl th w0 w1 w2 t) 0).
Proof.
  intros Hth Hk.
  do 9 (destruct k as [|k]; [ unfold ttjl, tjl; mat_cbv; auto_derive; [exact I|]; field; exact Hth |]). lia.
Qed.
Lemma ttjl_0 th w0 w1 w2 : th <> 0 -> ttjl th w0 w1 w2 0 = mzero 3 3.
Proof. intro H. unfold ttjl. rewrite !Rmult_0_l, sin_0, cos_0. mat_cbv. list_eq; field; exact H. Qed.

(* R' = R [w]x as well as [w]x R: [w]x commutes with Rodrigues' formula *)
Lemma rodt_ode_right th w0 w1 w2 t k : th <> 0 -> th * th = w0 * w0 + w1 * w1 + w2 * w2 -> (k < 9)%nat ->
  is_derive (fun s => nth k (rodt th w0 w1 w2 s) 0) t (nth k (mmul 3 3 3 (rodt th w0 w1 w2 t) (hat3 [w0; w1; w2])) 0).
Proof.
  intros Hth Hsq Hk.
  do 9 (destruct k as [|k]; [ unfold rodt, rod; mat_cbv; auto_derive; [exact I|];
    generalize (sin (t * th)) (cos (t * th)); intros s c; field_simplify_eq; [|exact Hth]; cbn [pow];
    revert Hsq; generalize th; clear; intros; nsatzR |]). lia.
Qed.

(* link: the regenerated step at dt > 0 outside the small-angle cell is the closed-form flow at t = dt *)
Lemma strapdown_is_flow p0 p1 p2 v0 v1 v2 q0 q1 q2 q3 a0 a1 a2 w0 w1 w2 g dt th :
  0 < dt -> 0 < th -> th * th = w0 * w0 + w1 * w1 + w2 * w2 -> 4 * eps <= (th * dt) * (th * dt) ->
  rdd2_strapdown_ins_propagate p0 p1 p2 v0 v1 v2 q0 q1 q2 q3 a0 a1 a2 w0 w1 w2 g dt =
  let R := SO3Quat_to_Matrix q0 q1 q2 q3 in
  madd [p0 + v0 * dt; p1 + v1 * dt; p2 + v2 * dt - g * dt * dt / 2] (mvec 3 3 R (mvec 3 3 (ttjl th w0 w1 w2 dt) [a0; a1; a2])) ++
  madd [v0; v1; v2 - g * dt] (mvec 3 3 R (mvec 3 3 (tjl th w0 w1 w2 dt) [a0; a1; a2])) ++
  SO3Quat_product_v [q0; q1; q2; q3] (qcl (th * dt) (w0 / th) (w1 / th) (w2 / th)).
Proof.
  intros Hdt Hth Hsq Hl. rewrite strapdown_struct. cbv zeta.
  assert (Hu : usq dt w0 w1 w2 = (th * dt) * (th * dt)) by (unfold usq; nra).
  assert (Hs : sqrt (usq dt w0 w1 w2) = th * dt) by (rewrite Hu; apply sqrt_square; nra).
  assert (He : eps <= usq dt w0 w1 w2) by (rewrite Hu; unfold eps in *; lra).
  rewrite sq_cosm_large, sq_sinm_large, sq_c3_large by exact He. cbv [hd]. rewrite Hs.
  assert (Hn : nsq (dt * w0) (dt * w1) (dt * w2) = usq dt w0 w1 w2) by (unfold nsq, usq; ring).
  assert (H' : 4 * eps <= nsq (dt * w0) (dt * w1) (dt * w2)) by (rewrite Hn, Hu; exact Hl).
  destruct (quat_exp_large_qcl _ _ _ H') as [E _]. rewrite E, Hn, Hs. clear E.
  rewrite Hu.
  replace (dt * w0 / (th * dt)) with (w0 / th) by (field; lra).
  replace (dt * w1 / (th * dt)) with (w1 / th) by (field; lra).
  replace (dt * w2 / (th * dt)) with (w2 / th) by (field; lra).
  f_equal; [|f_equal].
  - unfold ttjl. replace (dt * th) with (th * dt) by ring. generalize (sin (th * dt)) (cos (th * dt)). intros s c.
    cbv [SO3Quat_to_Matrix]. mat_cbv. list_eq; field; lra.
  - unfold tjl. replace (dt * th) with (th * dt) by ring. generalize (sin (th * dt)) (cos (th * dt)). intros s c.
    cbv [SO3Quat_to_Matrix]. mat_cbv. list_eq; field; lra.
Qed.
