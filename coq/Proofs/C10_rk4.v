(* C10: the Runge-Kutta step on generated instances *)
From Coq Require Import Reals List Lra Lia.
From Cyecca Require Import Base.Ops Base.Tactics Spec.Mat Gen.Util.
Import ListNotations.
Local Open Scope R_scope.

(* the classical RK4 tableau as a higher-order function (scalar state) *)
Definition rk4M (f : R -> R -> R) (t y h : R) : R :=
  let k1 := h * f t y in
  let k2 := h * f (t + h / 2) (y + k1 / 2) in
  let k3 := h * f (t + h / 2) (y + k2 / 2) in
  let k4 := h * f (t + h) (y + k3) in
  y + (k1 + 2 * k2 + 2 * k3 + k4) / 6.

(* the generated instances are that tableau applied to their vector field *)
Lemma rk4_cubic_is_tableau a0 a1 a2 a3 t y h :
  rk4_cubic a0 a1 a2 a3 t y h = [rk4M (fun s _ => a0 + a1 * s + a2 * s ^ 2 + a3 * s ^ 3) t y h].
Proof. Util_unfold. unfold rk4M. list_eq; try field. Qed.
Lemma rk4_lin_is_tableau lam t y h : rk4_lin lam t y h = [rk4M (fun _ x => lam * x) t y h].
Proof. Util_unfold. unfold rk4M. list_eq; try field. Qed.
Lemma rk4_affine_is_tableau c0 c1 c2 t y h : rk4_affine c0 c1 c2 t y h = [rk4M (fun s x => c0 + c1 * s + c2 * x) t y h].
Proof. Util_unfold. unfold rk4M. list_eq; try field. Qed.

(* exact when the derivative is a cubic polynomial in time: the step is y + integral of f over [t, t+h] *)
Lemma rk4_exact_cubic a0 a1 a2 a3 t y h :
  rk4_cubic a0 a1 a2 a3 t y h =
  [y + a0 * h + a1 * ((t + h) ^ 2 - t ^ 2) / 2 + a2 * ((t + h) ^ 3 - t ^ 3) / 3 + a3 * ((t + h) ^ 4 - t ^ 4) / 4].
Proof. Util_unfold. list_eq; try field. Qed.

(* fourth-order consistency on y' = lam y: the degree-4 Taylor polynomial of exp(lam h) *)
Lemma rk4_lin_taylor lam t y h :
  rk4_lin lam t y h = [y * (1 + lam * h + (lam * h) ^ 2 / 2 + (lam * h) ^ 3 / 6 + (lam * h) ^ 4 / 24)].
Proof. Util_unfold. list_eq; try field. Qed.

(* linear system y' = A y, 2 x 2: y1 = (I + hA + (hA)^2/2 + (hA)^3/6 + (hA)^4/24) y *)
Lemma rk4_lin2_taylor a00 a10 a01 a11 t y0 y1 h :
  let A := mscale h [a00; a10; a01; a11] in
  let A2 := mmul 2 2 2 A A in let A3 := mmul 2 2 2 A2 A in let A4 := mmul 2 2 2 A3 A in
  rk4_lin2 a00 a10 a01 a11 t y0 y1 h =
  mvec 2 2 (madd (madd (madd (madd (mid 2) A) (mscale (/ 2) A2)) (mscale (/ 6) A3)) (mscale (/ 24) A4)) [y0; y1].
Proof. Util_unfold. mat_cbv. list_eq; field. Qed.
