(* C11: step contracts of the MRP attitude estimator, on the predicate-transformer forms regenerated from
   cyecca/estimate/attitude/algorithms/mrp.py *)
From Coq Require Import Reals List Lra Lia.
From Cyecca Require Import Base.Ops Base.Tactics Base.Slice Spec.Mat Gen.Mrp Gen.SO3Mrp Gen.SO3Quat.
Import ListNotations.
Local Open Scope R_scope.

Ltac code_false :=
  repeat match goal with
  | Hc : ?c <> 0, H : ?v = op_eq ?c 0 |- _ => rewrite (op_eq_false c 0 Hc) in H
  end; simp_bools.
Ltac reject_tac f :=
  wpe_intro f; match goal with H : _ <> 0 |- _ => cbv beta iota delta [nth] in H end;
  mat_cbv2; cbv beta iota delta [nth firstn app];
  slice_goal 3%nat; drop_rest; code_false; list_eq; try reflexivity; reslice 3%nat; lra.
Ltac code_true :=
  repeat match goal with
  | Hc : ?c = 0, H : ?v = op_eq ?c 0 |- _ => rewrite (op_eq_true c 0 Hc) in H
  end; simp_bools.

(* correct_accel outputs: x_accel[0:6], W_accel[6:42] (dense 6x6, column major), beta[42], r[43:45], r_std[45:47], error_code[47] *)
Lemma accel_reject_unchanged x0 x1 x2 x3 x4 x5 w0 w1 w2 w3 w4 w5 w6 w7 w8 w9 w10 w11 w12 w13 w14 w15 w16 w17 w18 w19 w20
    y0 y1 y2 g o0 o1 o2 sa sao bc :
  mrp_correct_accel_wpe x0 x1 x2 x3 x4 x5 w0 w1 w2 w3 w4 w5 w6 w7 w8 w9 w10 w11 w12 w13 w14 w15 w16 w17 w18 w19 w20 y0 y1 y2 g o0 o1 o2 sa sao bc
   (fun r => nth 47 r 0 <> 0 ->
      firstn 42 r = [x0; x1; x2; x3; x4; x5] ++
        dense_lower 6 [w0; w1; w2; w3; w4; w5; w6; w7; w8; w9; w10; w11; w12; w13; w14; w15; w16; w17; w18; w19; w20]).
Proof. reject_tac mrp_correct_accel_wpe. Qed.

(* correct_mag outputs: x_mag[0:6], W_mag[6:42], beta[42], r[43], r_std[44], error_code[45] *)
Lemma mag_reject_unchanged x0 x1 x2 x3 x4 x5 w0 w1 w2 w3 w4 w5 w6 w7 w8 w9 w10 w11 w12 w13 w14 w15 w16 w17 w18 w19 w20
    y0 y1 y2 decl sm bc :
  mrp_correct_mag_wpe x0 x1 x2 x3 x4 x5 w0 w1 w2 w3 w4 w5 w6 w7 w8 w9 w10 w11 w12 w13 w14 w15 w16 w17 w18 w19 w20 y0 y1 y2 decl sm bc
   (fun r => nth 45 r 0 <> 0 ->
      firstn 42 r = [x0; x1; x2; x3; x4; x5] ++
        dense_lower 6 [w0; w1; w2; w3; w4; w5; w6; w7; w8; w9; w10; w11; w12; w13; w14; w15; w16; w17; w18; w19; w20]).
Proof. reject_tac mrp_correct_mag_wpe. Qed.

(* gating: the accelerometer correction is accepted exactly when | |y| - g | <= 1 *)
Lemma accel_gate x0 x1 x2 x3 x4 x5 w0 w1 w2 w3 w4 w5 w6 w7 w8 w9 w10 w11 w12 w13 w14 w15 w16 w17 w18 w19 w20
    y0 y1 y2 g o0 o1 o2 sa sao bc :
  mrp_correct_accel_wpe x0 x1 x2 x3 x4 x5 w0 w1 w2 w3 w4 w5 w6 w7 w8 w9 w10 w11 w12 w13 w14 w15 w16 w17 w18 w19 w20 y0 y1 y2 g o0 o1 o2 sa sao bc
   (fun r => (nth 47 r 0 = 0 <-> Rabs (sqrt (y0 * y0 + y1 * y1 + y2 * y2) - g) <= 1) /\ (nth 47 r 0 = 0 \/ nth 47 r 0 = 1)).
Proof.
  wpe_intro mrp_correct_accel_wpe. cbv beta iota delta [nth]. slice_goal 8%nat. drop_rest. subst.
  destruct (Rlt_dec 1 (Rabs (sqrt (y0 * y0 + y1 * y1 + y2 * y2) - g))) as [L|L].
  - rewrite (op_lt_true _ _ L), op_ifz_1. split; [split; intro; lra | right; reflexivity].
  - apply Rnot_lt_le in L. rewrite (op_lt_false _ _ L), op_ifz_0. split; [split; intro; [exact L | reflexivity] | left; reflexivity].
Qed.

(* magnetometer gating: code 1 when the predicted field is too close to vertical for the projection uncertainty,
   code 2 when the roll/pitch standard deviations exceed 0.1 in norm, 0 otherwise *)
Definition tenth := 3602879701896397 / 36028797018963968.      (* the double 0.1 *)
Definition fifth := 3602879701896397 / 18014398509481984.      (* the double 0.2 *)
Definition milli := 1152921504606847 / 1152921504606846976.    (* the double 1e-3 *)
Definition mag_n (w0 w6 : R) := sqrt (w0 * w0 + w6 * w6).
Definition mag_h (c : R) := Rmax (sin (acos c)) milli.
Lemma mag_gate x0 x1 x2 x3 x4 x5 w0 w1 w2 w3 w4 w5 w6 w7 w8 w9 w10 w11 w12 w13 w14 w15 w16 w17 w18 w19 w20
    y0 y1 y2 decl sm bc :
  mrp_correct_mag_wpe x0 x1 x2 x3 x4 x5 w0 w1 w2 w3 w4 w5 w6 w7 w8 w9 w10 w11 w12 w13 w14 w15 w16 w17 w18 w19 w20 y0 y1 y2 decl sm bc
   (fun r => exists c,
      (nth 45 r 0 = 1 <-> mag_h c < (sm + fifth * mag_n w0 w6) / 2) /\
      (nth 45 r 0 = 2 <-> ~ mag_h c < (sm + fifth * mag_n w0 w6) / 2 /\ tenth < mag_n w0 w6) /\
      (nth 45 r 0 = 0 <-> ~ mag_h c < (sm + fifth * mag_n w0 w6) / 2 /\ ~ tenth < mag_n w0 w6)).
Proof.
  wpe_intro mrp_correct_mag_wpe. cbv beta iota zeta delta [nth].
  match goal with |- exists c, (?code = 1 <-> _) /\ _ => slice code 12%nat end. drop_rest.
  match goal with H : ?v = acos ?c |- _ => exists c; try match goal with H2 : c = _ |- _ => clear H2 end end.
  unfold mag_h, mag_n, milli, fifth, tenth. subst.
  match goal with |- context [op_lt ?a ?b] => destruct (Rlt_dec a b) as [L|L];
    [rewrite (op_lt_true _ _ L) | rewrite (op_lt_false _ _ (Rnot_lt_le _ _ L))] end;
  rewrite ?op_ifz_1, ?op_ifz_0, ?op_not_1, ?op_not_0, ?op_ifz_1, ?op_ifz_0.
  - repeat split; intros; intuition lra.
  - match goal with |- context [op_lt ?a ?b] => destruct (Rlt_dec a b) as [L2|L2];
      [rewrite (op_lt_true _ _ L2) | rewrite (op_lt_false _ _ (Rnot_lt_le _ _ L2))] end;
    rewrite ?op_ifz_1, ?op_ifz_0; repeat split; intros; intuition lra.
Qed.

(* ---------- shadow switch: |-p/|p|^2|^2 = 1/|p|^2 ---------- *)
Lemma ball_shadow a b c : 1 < a * a + b * b + c * c ->
  let n := a * a + b * b + c * c in
  (- (a / n)) * (- (a / n)) + (- (b / n)) * (- (b / n)) + (- (c / n)) * (- (c / n)) <= 1.
Proof.
  intros H n. replace (- (a / n) * - (a / n) + - (b / n) * - (b / n) + - (c / n) * - (c / n)) with (/ n).
  - rewrite <- Rinv_1. apply Rinv_le_contravar; unfold n; lra.
  - unfold n. field. lra.
Qed.

(* turn the three outputs of a shadow switch into the two cases; p0 p1 p2 are cut first so that what feeds the
   switch stays opaque *)
Ltac cut_eq v := match goal with H : Eqn v _ |- _ => clear H end.
(* outputs that are plain copies of another variable *)
Ltac subst_outputs := repeat match goal with H : ?v = ?w |- _ => is_var v; is_var w; subst v end.
Ltac shadow_cut :=
  slice_goal 2%nat;
  repeat match goal with H : _ = op_ifz ?nc ?p, Hn : Eqn ?nc (op_not _) |- _ => cut_eq p end;
  repeat match goal with H : ?v = _ |- _ => is_var v; apply Eqn_intro in H end;
  slice_goal 8%nat; drop_rest.

(* predict outputs: x1[0:6], W1[6:42] (dense 6x6) *)
Lemma predict_in_ball t x0 x1 x2 x3 x4 x5 w0 w1 w2 w3 w4 w5 w6 w7 w8 w9 w10 w11 w12 w13 w14 w15 w16 w17 w18 w19 w20 o0 o1 o2 sg srw dt :
  mrp_predict_wpe t x0 x1 x2 x3 x4 x5 w0 w1 w2 w3 w4 w5 w6 w7 w8 w9 w10 w11 w12 w13 w14 w15 w16 w17 w18 w19 w20 o0 o1 o2 sg srw dt
    (fun r => nth 0 r 0 * nth 0 r 0 + nth 1 r 0 * nth 1 r 0 + nth 2 r 0 * nth 2 r 0 <= 1).
Proof.
  wpe_intro mrp_predict_wpe. cbv beta iota delta [nth]. shadow_cut. cases.
  - subst. rewrite ?Rplus_0_r. apply ball_shadow. lra.
  - subst. lra.
Qed.

Lemma predict_bias_constant t x0 x1 x2 x3 x4 x5 w0 w1 w2 w3 w4 w5 w6 w7 w8 w9 w10 w11 w12 w13 w14 w15 w16 w17 w18 w19 w20 o0 o1 o2 sg srw dt :
  mrp_predict_wpe t x0 x1 x2 x3 x4 x5 w0 w1 w2 w3 w4 w5 w6 w7 w8 w9 w10 w11 w12 w13 w14 w15 w16 w17 w18 w19 w20 o0 o1 o2 sg srw dt
    (fun r => [nth 3 r 0; nth 4 r 0; nth 5 r 0] = [x3; x4; x5] /\ is_lower 6 (firstn 36 (skipn 6 r))).
Proof.
  wpe_intro mrp_predict_wpe. cbv beta iota delta [nth firstn skipn]. split; [reflexivity|].
  intros i j Hij Hj.
  destruct j as [|[|[|[|[|[|j]]]]]]; try lia; destruct i as [|[|[|[|[|i]]]]]; try lia; reflexivity.
Qed.

(* ---------- initialize: outputs x0[0:6], error_code[6] ---------- *)
Definition g_nominal := 2758454771764429 / 281474976710656.   (* the double 9.8 *)
Lemma init_codes g0 g1 g2 b0 b1 b2 decl :
  mrp_initialize_wpe g0 g1 g2 b0 b1 b2 decl (fun r =>
    (nth 6 r 0 = 0 \/ nth 6 r 0 = 1 \/ nth 6 r 0 = 2 \/ nth 6 r 0 = 3) /\
    (nth 6 r 0 = 1 <-> 1 < Rabs (sqrt (g0 * g0 + g1 * g1 + g2 * g2) - g_nominal)) /\
    (nth 6 r 0 = 2 -> sqrt (b0 * b0 + b1 * b1 + b2 * b2) <= 0) /\
    (nth 6 r 0 <> 0 -> firstn 6 r = [0; 0; 0; 0; 0; 0])).
Proof.
  wpe_intro mrp_initialize_wpe. cbv beta iota zeta delta [nth firstn]. unfold g_nominal.
  match goal with |- (?code = 0 \/ _) /\ _ => slice code 12%nat end.
  slice_goal 2%nat. drop_rest.
  cases.
  all: subst; rewrite ?Rplus_0_r, ?Rplus_0_l.
  all: repeat match goal with |- context [op_eq ?a 0] => first [rewrite (op_eq_false a 0) by lra | rewrite (op_eq_true a 0) by lra] end; rewrite ?op_ifz_0.
  all: repeat split; intros; try lra; try (exfalso; lra); try reflexivity; try assumption.
  all: try solve [first [left; lra | right; left; lra | right; right; left; lra | right; right; right; lra]].
Qed.

Lemma init_in_ball g0 g1 g2 b0 b1 b2 decl :
  mrp_initialize_wpe g0 g1 g2 b0 b1 b2 decl (fun r =>
    nth 0 r 0 * nth 0 r 0 + nth 1 r 0 * nth 1 r 0 + nth 2 r 0 * nth 2 r 0 <= 1).
Proof.
  wpe_intro mrp_initialize_wpe. cbv beta iota delta [nth]. slice_goal 2%nat.
  match goal with H : _ = op_eq ?c 0 |- _ => cut_eq c; destruct (Req_dec c 0) as [Hc|Hc] end.
  - code_true. subst_outputs.
    repeat match goal with H : ?v = _ |- _ => is_var v; apply Eqn_intro in H end.
    shadow_cut. cases.
    + subst. rewrite ?Rplus_0_r. apply ball_shadow. lra.
    + subst. lra.
  - code_false. drop_rest. subst. lra.
Qed.

(* ---------- the measurement the current estimate predicts leaves the state where it is ---------- *)
Ltac zero_step :=
  repeat match goal with H : ?v = 0 |- _ => is_var v; subst v end;
  rewrite ?Rmult_0_l, ?Rmult_0_r, ?Rplus_0_l, ?Rplus_0_r, ?Rminus_0_r, ?Rabs_R0, ?sqrt_0, ?Ropp_0, ?op_ifz_zero, ?op_ifz_0, ?op_ifz_1, ?op_not_0, ?op_not_1, ?op_and_0l, ?op_and_0r in *;
  repeat match goal with H : _ = 0 / _ |- _ => unfold Rdiv in H; rewrite Rmult_0_l in H end.

Ltac zprop := repeat (progress (zero_step; decide_cmps)).
Lemma accel_fixed_point x0 x1 x2 x3 x4 x5 w0 w1 w2 w3 w4 w5 w6 w7 w8 w9 w10 w11 w12 w13 w14 w15 w16 w17 w18 w19 w20
    y0 y1 y2 g o0 o1 o2 sa sao bc :
  [y0; y1; y2] = mvec 3 3 (mtrans 3 3 (SO3Mrp_to_Matrix x0 x1 x2)) [0; 0; - g] ->
  mrp_correct_accel_wpe x0 x1 x2 x3 x4 x5 w0 w1 w2 w3 w4 w5 w6 w7 w8 w9 w10 w11 w12 w13 w14 w15 w16 w17 w18 w19 w20 y0 y1 y2 g o0 o1 o2 sa sao bc
   (fun r => nth 43 r 0 = 0 /\ nth 44 r 0 = 0 /\ firstn 6 r = [x0; x1; x2; x3; x4; x5]).
Proof.
  SO3Mrp_unfold. mat_cbv. intro Hy. injection Hy as Hy0 Hy1 Hy2.
  wpe_intro mrp_correct_accel_wpe. cbv beta iota delta [nth firstn].
  assert (D : (1 + (x0 * x0 + x1 * x1 + x2 * x2)) * (1 + (x0 * x0 + x1 * x1 + x2 * x2)) <> 0) by (apply Rgt_not_eq; nra).
  (* the two horizontal components of C y vanish *)
  match goal with |- ?r0 = 0 /\ _ => slice r0 7%nat end.
  match goal with H : ?a = ?p / ?q, H2 : ?b = ?a * ?a, H3 : ?c = ?p2 / ?q, H4 : ?d = ?c * ?c, H5 : _ = ?b + ?d |- _ =>
    assert (Z1 : p = 0) by (slice p 12%nat; drop_rest; subst; field; apply Rgt_not_eq; nra);
    assert (Z2 : p2 = 0) by (slice p2 12%nat; drop_rest; subst; field; apply Rgt_not_eq; nra) end.
  zprop.
  slice_goal 14%nat. drop_rest.
  zprop.
  split; [reflexivity|split; [reflexivity|]].
  reslice 14%nat.
  match goal with H : _ = op_eq ?c 0 |- _ => try cut_eq c; destruct (Req_dec c 0) as [Hc|Hc] end.
  - code_true. zprop. do 2 (reslice 25%nat; zprop). list_eq; subst; try lra; field; lra.
  - code_false. zprop. reslice 5%nat. list_eq; subst; lra.
Qed.


(* get_state: the quaternion is the SO3Quat.from_Mrp conversion of the MRP part, the rest is copied *)
Lemma get_state_ok x0 x1 x2 x3 x4 x5 :
  mrp_get_state x0 x1 x2 x3 x4 x5 = SO3Quat_from_Mrp x0 x1 x2 ++ [x0; x1; x2; x3; x4; x5].
Proof. cbv beta iota zeta delta [mrp_get_state SO3Quat_from_Mrp app]. list_eq; try reflexivity; field_simplify_eq; try reflexivity. Qed.
