(* The series layer shared by C02/C03/C05/C06/C08: facts about the units regenerated from cyecca.symbolic.SERIES and
   SQUARED_SERIES (Gen/Series.v; series_i / sq_series_i follow the order of the table in symbolic.py). *)
From Coq Require Import Reals List Lra Lia.
From Interval Require Import Tactic.
From Cyecca Require Import Base.Ops Base.Tactics Gen.Series.
Import ListNotations.
Local Open Scope R_scope.

Definition eps := 1152921504606847 / 1152921504606846976.      (* the double 1e-3 *)

Lemma pow_neg_half x : 0 < x -> op_pow x (-1 / 2) = / sqrt x.
Proof.
  intro H. rewrite op_pow_pos by exact H. replace (-1 / 2) with (- / 2) by field.
  rewrite Rpower_Ropp, Rpower_sqrt by exact H. reflexivity.
Qed.
Lemma pow_neg_three_half x : 0 < x -> op_pow x (-3 / 2) = / (sqrt x * sqrt x * sqrt x).
Proof.
  intro H. rewrite op_pow_pos by exact H. replace (-3 / 2) with (- (1 + / 2)) by field.
  rewrite Rpower_Ropp, Rpower_plus, Rpower_1, Rpower_sqrt by exact H.
  rewrite <- (sqrt_sqrt x) at 1 by lra. reflexivity.
Qed.

(* which cell: the selector is |x| < 1e-3, symmetric in x *)
Ltac large_cell H :=
  match goal with |- context [op_lt (Rabs ?x) ?e] =>
    rewrite (op_lt_false (Rabs x) e) by (unfold eps in H; exact H || (apply Rle_trans with (2 := Rle_abs _); lra) || lra) end;
  rewrite ?op_not_0, ?op_ifz_0, ?op_ifz_1, ?Rplus_0_l.
Ltac small_cell H :=
  match goal with |- context [op_lt (Rabs ?x) ?e] =>
    rewrite (op_lt_true (Rabs x) e) by (unfold eps in H; exact H || lra) end;
  rewrite ?op_not_1, ?op_ifz_0, ?op_ifz_1, ?Rplus_0_r.

(* ---------- closed forms in the large cell ---------- *)
Lemma sq_cos_large u : eps <= Rabs u -> sq_series_0 u = [cos (sqrt u)].
Proof. intro H. cbv beta iota zeta delta [sq_series_0]. large_cell H. reflexivity. Qed.

Lemma sq_sinc_large u : eps <= u -> sq_series_1 u = [sin (sqrt u) / sqrt u].
Proof.
  intro H. assert (0 < u) by (unfold eps in H; lra). cbv beta iota zeta delta [sq_series_1].
  large_cell H. rewrite pow_neg_half by assumption. f_equal. unfold Rdiv. ring.
Qed.

Lemma sq_cosm_large u : eps <= u -> sq_series_4 u = [(1 - cos (sqrt u)) / u].
Proof. intro H. cbv beta iota zeta delta [sq_series_4]. large_cell H. reflexivity. Qed.

Lemma sq_sinm_large u : eps <= u -> sq_series_5 u = [(sqrt u - sin (sqrt u)) / (sqrt u * sqrt u * sqrt u)].
Proof.
  intro H. assert (0 < u) by (unfold eps in H; lra). cbv beta iota zeta delta [sq_series_5].
  large_cell H. rewrite pow_neg_three_half by assumption. f_equal. unfold Rdiv. ring.
Qed.

Lemma sq_c3_large u : eps <= u -> sq_series_8 u = [(u / 2 + cos (sqrt u) - 1) / (u * u)].
Proof. intro H. cbv beta iota zeta delta [sq_series_8]. large_cell H. f_equal. unfold Rdiv. ring. Qed.

Lemma sinc_large x : eps <= Rabs x -> series_1 x = [sin x / x].
Proof. intro H. cbv beta iota zeta delta [series_1]. large_cell H. reflexivity. Qed.
Lemma xsin_large x : eps <= Rabs x -> series_2 x = [x / sin x].
Proof. intro H. cbv beta iota zeta delta [series_2]. large_cell H. reflexivity. Qed.
Lemma cosm1_large x : eps <= Rabs x -> series_3 x = [(1 - cos x) / x].
Proof. intro H. cbv beta iota zeta delta [series_3]. large_cell H. reflexivity. Qed.

(* ---------- values at zero: the limits, not 0/0 ---------- *)
Ltac at_zero f := cbv beta iota zeta delta [f]; rewrite Rabs_R0;
  rewrite (op_lt_true 0 _) by lra; rewrite ?op_not_1, ?op_ifz_0, ?op_ifz_1; f_equal; ring.
Lemma sq_cos_0 : sq_series_0 0 = [1].  Proof. at_zero sq_series_0. Qed.
Lemma sq_sinc_0 : sq_series_1 0 = [1].  Proof. at_zero sq_series_1. Qed.
Lemma sq_cosm_0 : sq_series_4 0 = [1 / 2].  Proof. at_zero sq_series_4. Qed.
Lemma sinc_0 : series_1 0 = [1].  Proof. at_zero series_1. Qed.
Lemma xsin_0 : series_2 0 = [1].  Proof. at_zero series_2. Qed.
Lemma cosm1_0 : series_3 0 = [0].  Proof. at_zero series_3. Qed.
