(* C12: component theorems about the simulator's sensor models (noise sample 0), on generated code *)
From Coq Require Import Reals List Lra Lia.
From Cyecca Require Import Base.Ops Base.Tactics Spec.Mat Spec.Rot Gen.Sim Gen.SO3Mrp Proofs.C01_SO3Mrp.
Import ListNotations.
Local Open Scope R_scope.

(* gyro reads true rate plus bias *)
Lemma gyro_model r0 r1 r2 b0 b1 b2 w0 w1 w2 sd :
  sim_measure_gyro r0 r1 r2 b0 b1 b2 w0 w1 w2 sd 0 0 0 = [w0 + b0; w1 + b1; w2 + b2].
Proof. Sim_unfold. list_eq; ring. Qed.

(* accelerometer: the gravity reaction -g e3 seen from the body, y = M(r)^T (0,0,-g); hence |y| = g, for every attitude *)
Lemma accel_model r0 r1 r2 b0 b1 b2 g sd :
  mvec 3 3 (SO3Mrp_to_Matrix_v [r0; r1; r2]) (sim_measure_accel r0 r1 r2 b0 b1 b2 g sd 0 0 0) = [0; 0; - g].
Proof.
  pose proof (sq_pos3 r0 r1 r2). Sim_unfold. SO3Mrp_unfold. mat_cbv. list_eq; field; mrp_side.
Qed.
Lemma accel_magnitude r0 r1 r2 b0 b1 b2 g sd :
  norm2 (sim_measure_accel r0 r1 r2 b0 b1 b2 g sd 0 0 0) = g * g.
Proof.
  pose proof (sq_pos3 r0 r1 r2). Sim_unfold. mat_cbv. field; mrp_side.
Qed.

(* magnetometer: the reading rotates with the true attitude: M(r) y(r) = y(0) (the field in the navigation frame),
   whatever the declination, inclination and strength; hence the magnitude does not depend on the attitude *)
Lemma mag_rotates_with_attitude r0 r1 r2 b0 b1 b2 str decl incl sd :
  mvec 3 3 (SO3Mrp_to_Matrix_v [r0; r1; r2]) (sim_measure_mag r0 r1 r2 b0 b1 b2 str decl incl sd 0 0 0) =
  sim_measure_mag 0 0 0 b0 b1 b2 str decl incl sd 0 0 0.
Proof.
  pose proof (sq_pos3 r0 r1 r2). Sim_unfold. SO3Mrp_unfold. mat_cbv.
  list_eq; abstract_ifz; field; mrp_side.
Qed.
