(* C10: LDL^T and UDU^T factorizations on generated code, n = 1..5 *)
From Coq Require Import Reals List Lra Lia.
From Cyecca Require Import Base.Ops Base.Tactics Spec.Mat Gen.Util.
Import ListNotations.
Local Open Scope R_scope.

(* outputs: L (n x n dense) then D (n x n dense) *)
Definition ldl_ok (n : nat) (f : list R -> list R) : Prop :=
  forall P, length P = (n * (n + 1) / 2)%nat ->
  let r := f P in let L := firstn (n * n) r in let D := skipn (n * n) r in
  (forall k, (k < n)%nat -> mget n D k k <> 0) ->
  mmul n n n L (mmul n n n D (mtrans n n L)) = dense_sym n P.

Ltac nz_hyps H n :=
  (* instantiate the pivot hypothesis for k = 0..n-1 *)
  let rec go k := lazymatch k with
    | O => idtac
    | S ?k' => let Hk := fresh "Hp" in pose proof (H k' ltac:(lia)) as Hk; go k'
    end in go n.

(* name every pivot and solve its defining equation for the diagonal entry it starts with, so that all
   denominators become variables with a non-zero hypothesis *)
Ltac leftmost e k :=
  lazymatch e with
  | ?a - _ => leftmost a k
  | _ => k e
  end.
Ltac abstract_pivots :=
  repeat match goal with
  | H : ?e <> 0 |- _ =>
      lazymatch e with ?a - ?b => idtac end;
      leftmost e ltac:(fun p =>
        is_var p;
        let F := eval pattern p in e in
        lazymatch F with
        | ?g _ =>
            let X0 := eval cbv beta in (g 0) in
            let d := fresh "d" in let E := fresh "E" in
            set (d := e) in *;
            assert (E : p = d - X0) by (unfold d; ring);
            clearbody d; subst p
        end)
  end.

Ltac fact U n :=
  intros P HP r L D Hnz; subst r L D; simpl in HP; explode;
  nz_hyps Hnz n; clear Hnz;
  repeat match goal with H : mget _ _ _ _ <> 0 |- _ => revert H end;
  U; mat_cbv2; intros;
  abstract_pivots;
  list_eq; field; repeat split; assumption.

Lemma ldl_1_ok : ldl_ok 1 ldl_1_v.  Proof. fact Util_unfold 1%nat. Qed.
Lemma ldl_2_ok : ldl_ok 2 ldl_2_v.  Proof. fact Util_unfold 2%nat. Qed.
Lemma ldl_3_ok : ldl_ok 3 ldl_3_v.  Proof. fact Util_unfold 3%nat. Qed.
Lemma ldl_4_ok : ldl_ok 4 ldl_4_v.  Proof. fact Util_unfold 4%nat. Qed.
Lemma udu_1_ok : ldl_ok 1 udu_1_v.  Proof. fact Util_unfold 1%nat. Qed.
Lemma udu_2_ok : ldl_ok 2 udu_2_v.  Proof. fact Util_unfold 2%nat. Qed.
Lemma ldl_5_ok : ldl_ok 5 ldl_5_v.  Proof. fact Util_unfold 5%nat. Qed.
Lemma udu_3_ok : ldl_ok 3 udu_3_v.  Proof. fact Util_unfold 3%nat. Qed.
Lemma udu_4_ok : ldl_ok 4 udu_4_v.  Proof. fact Util_unfold 4%nat. Qed.
Lemma udu_5_ok : ldl_ok 5 udu_5_v.  Proof. fact Util_unfold 5%nat. Qed.

(* shapes (n = 3 written out; column-major): unit lower / upper triangular factor, diagonal D *)
Lemma ldl_3_shape P : length P = 6%nat ->
  let r := ldl_3_v P in
  (nth 3 r 0 = 0 /\ nth 6 r 0 = 0 /\ nth 7 r 0 = 0) /\ (nth 0 r 0 = 1 /\ nth 4 r 0 = 1 /\ nth 8 r 0 = 1) /\
  (nth 10 r 0 = 0 /\ nth 11 r 0 = 0 /\ nth 12 r 0 = 0 /\ nth 14 r 0 = 0 /\ nth 15 r 0 = 0 /\ nth 16 r 0 = 0).
Proof. intro H. explode. Util_unfold. repeat split; reflexivity. Qed.
Lemma udu_3_shape P : length P = 6%nat ->
  let r := udu_3_v P in
  (nth 1 r 0 = 0 /\ nth 2 r 0 = 0 /\ nth 5 r 0 = 0) /\ (nth 0 r 0 = 1 /\ nth 4 r 0 = 1 /\ nth 8 r 0 = 1) /\
  (nth 10 r 0 = 0 /\ nth 11 r 0 = 0 /\ nth 12 r 0 = 0 /\ nth 14 r 0 = 0 /\ nth 15 r 0 = 0 /\ nth 16 r 0 = 0).
Proof. intro H. explode. Util_unfold. repeat split; reflexivity. Qed.
