(* C05 (ideal layer): the closed form of the so(3) left Jacobian is the integral of the rotation:
   d/dt [ t J_l(t x) ] = R(t x), with J_l(t x) t = t I + (1 - cos(t th))/th^2 [v]x + (t th - sin(t th))/th^3 [v]x^2.
   Hence J_l(x) = int_0^1 exp(s [x]x) ds, the defining property of the left Jacobian of exp. *)
From Coq Require Import Reals List Lra Lia.
From Coquelicot Require Import Coquelicot.
From Cyecca Require Import Base.Ops Base.Tactics Spec.Mat Proofs.C02 Proofs.C02_ode.
Import ListNotations.
Local Open Scope R_scope.

Definition tjl (th v0 v1 v2 t : R) : list R :=
  madd (mscale t (mid 3)) (madd (mscale ((1 - cos (t * th)) / (th * th)) (hat3 [v0; v1; v2]))
        (mscale ((t * th - sin (t * th)) / (th * th * th)) (mmul 3 3 3 (hat3 [v0; v1; v2]) (hat3 [v0; v1; v2])))).

(* t J_l(t x) written with the closed-form coefficients of J_l at the scaled vector t x (theta scales to t theta) *)
Lemma tjl_is_scaled_jl th v0 v1 v2 t : th <> 0 -> t <> 0 ->
  tjl th v0 v1 v2 t =
  mscale t (rod ((1 - cos (t * th)) / ((t * th) * (t * th))) ((t * th - sin (t * th)) / ((t * th) * (t * th) * (t * th))) [t * v0; t * v1; t * v2]).
Proof. intros Hth Ht. unfold tjl, rod. mat_cbv. list_eq; field; split; assumption. Qed.

Lemma tjl_derivative th v0 v1 v2 t k : th <> 0 -> (k < 9)%nat ->
  is_derive (fun s => nth k (tjl th v0 v1 v2 s) 0) t (nth k (rodt th v0 v1 v2 t) 0).
Proof.
  intros Hth Hk.
  do 9 (destruct k as [|k]; [ unfold tjl, rodt, rod; mat_cbv; auto_derive; [exact I|]; field; exact Hth |]). lia.
Qed.
Lemma tjl_0 th v0 v1 v2 : th <> 0 -> tjl th v0 v1 v2 0 = mzero 3 3.
Proof. intro H. unfold tjl. rewrite Rmult_0_l, sin_0, cos_0. mat_cbv. list_eq; field; exact H. Qed.
