(* C05: Jacobians, on units regenerated from cyecca/lie/group_so3.py *)
From Coq Require Import Reals List Lra Lia.
From Cyecca Require Import Base.Ops Base.Tactics Spec.Mat Gen.Series Gen.so3 Gen.SO3Quat Gen.SO3Mrp Proofs.SeriesFacts Proofs.C02.
Import ListNotations.
Local Open Scope R_scope.

(* ---------- so(3): structure for every input ---------- *)
Lemma so3_jl_struct v0 v1 v2 :
  so3_left_jacobian v0 v1 v2 = rod (hd 0 (sq_series_4 (nsq v0 v1 v2))) (hd 0 (sq_series_5 (nsq v0 v1 v2))) [v0; v1; v2].
Proof. cbv beta iota zeta delta [so3_left_jacobian sq_series_4 sq_series_5 hd nsq]. unfold rod. mat_cbv. list_eq; congr_ring. Qed.
Lemma so3_jr_struct v0 v1 v2 :
  so3_right_jacobian v0 v1 v2 = rod (- hd 0 (sq_series_4 (nsq v0 v1 v2))) (hd 0 (sq_series_5 (nsq v0 v1 v2))) [v0; v1; v2].
Proof. cbv beta iota zeta delta [so3_right_jacobian sq_series_4 sq_series_5 hd nsq]. unfold rod. mat_cbv. list_eq; congr_ring. Qed.
Lemma so3_jli_struct v0 v1 v2 :
  so3_left_jacobian_inv v0 v1 v2 = rod (- (1 / 2)) (hd 0 (sq_series_11 (nsq v0 v1 v2))) [v0; v1; v2].
Proof. cbv beta iota zeta delta [so3_left_jacobian_inv sq_series_11 hd nsq]. unfold rod. mat_cbv. list_eq; congr_ring. Qed.
Lemma so3_jri_struct v0 v1 v2 :
  so3_right_jacobian_inv v0 v1 v2 = rod (1 / 2) (hd 0 (sq_series_11 (nsq v0 v1 v2))) [v0; v1; v2].
Proof. cbv beta iota zeta delta [so3_right_jacobian_inv sq_series_11 hd nsq]. unfold rod. mat_cbv. list_eq; congr_ring. Qed.

(* J_l(x) = J_r(-x) = J_r(x)^T, exactly, for every x *)
Lemma so3_jl_is_jr_neg v0 v1 v2 : so3_left_jacobian v0 v1 v2 = so3_right_jacobian (- v0) (- v1) (- v2).
Proof.
  rewrite so3_jl_struct, so3_jr_struct. replace (nsq (- v0) (- v1) (- v2)) with (nsq v0 v1 v2) by (unfold nsq; ring).
  generalize (hd 0 (sq_series_4 (nsq v0 v1 v2))) (hd 0 (sq_series_5 (nsq v0 v1 v2))). intros a b. unfold rod. mat_cbv. list_eq; ring.
Qed.
Lemma so3_jl_is_jr_trans v0 v1 v2 : so3_left_jacobian v0 v1 v2 = mtrans 3 3 (so3_right_jacobian v0 v1 v2).
Proof.
  rewrite so3_jl_struct, so3_jr_struct.
  generalize (hd 0 (sq_series_4 (nsq v0 v1 v2))) (hd 0 (sq_series_5 (nsq v0 v1 v2))). intros a b. unfold rod. mat_cbv. list_eq; ring.
Qed.
Lemma so3_jli_is_jri_neg v0 v1 v2 : so3_left_jacobian_inv v0 v1 v2 = so3_right_jacobian_inv (- v0) (- v1) (- v2).
Proof.
  rewrite so3_jli_struct, so3_jri_struct. replace (nsq (- v0) (- v1) (- v2)) with (nsq v0 v1 v2) by (unfold nsq; ring).
  generalize (hd 0 (sq_series_11 (nsq v0 v1 v2))). intros a. unfold rod. mat_cbv. list_eq; ring.
Qed.

(* outside the small-angle cell: closed forms *)
Lemma so3_jl_large v0 v1 v2 : eps <= nsq v0 v1 v2 ->
  let th := sqrt (nsq v0 v1 v2) in
  so3_left_jacobian v0 v1 v2 = rod ((1 - cos th) / (th * th)) ((th - sin th) / (th * th * th)) [v0; v1; v2].
Proof.
  intros H th. assert (Hp : 0 < nsq v0 v1 v2) by (unfold eps in H; lra).
  rewrite so3_jl_struct, sq_cosm_large, sq_sinm_large by exact H. cbv [hd]. fold th.
  replace (nsq v0 v1 v2) with (th * th) by (unfold th; rewrite sqrt_sqrt by lra; reflexivity). reflexivity.
Qed.

(* J_l = Ad_exp(x) J_r: with Ad = the rotation matrix (Rodrigues' formula, C02), outside the small-angle cell *)
Lemma rod_jl_is_R_jr th v0 v1 v2 : th <> 0 -> th * th = v0 * v0 + v1 * v1 + v2 * v2 ->
  rod ((1 - cos th) / (th * th)) ((th - sin th) / (th * th * th)) [v0; v1; v2] =
  mmul 3 3 3 (rod (sin th / th) ((1 - cos th) / (th * th)) [v0; v1; v2])
             (rod (- ((1 - cos th) / (th * th))) ((th - sin th) / (th * th * th)) [v0; v1; v2]).
Proof.
  intros Hth Hsq. pose proof (sin2_cos2 th) as Q. unfold Rsqr in Q.
  revert Q. generalize (sin th) (cos th). intros s c Q. unfold rod. mat_cbv.
  list_eq; field_simplify_eq; try exact Hth; cbn [pow]; revert Hsq Q; generalize th; clear; intros; nsatzR.
Qed.
Lemma so3_jl_is_Ad_jr v0 v1 v2 : 4 * eps <= nsq v0 v1 v2 ->
  so3_left_jacobian v0 v1 v2 = mmul 3 3 3 (SO3Quat_to_Matrix_v (SO3Quat_exp v0 v1 v2)) (so3_right_jacobian v0 v1 v2).
Proof.
  intro H. assert (H1 : eps <= nsq v0 v1 v2) by (unfold eps in *; lra).
  assert (Hp : 0 < nsq v0 v1 v2) by (unfold eps in H; lra).
  set (th := sqrt (nsq v0 v1 v2)).
  assert (Hth : th <> 0) by (apply Rgt_not_eq, sqrt_lt_R0; exact Hp).
  assert (Hsq : th * th = v0 * v0 + v1 * v1 + v2 * v2) by (unfold th; rewrite sqrt_sqrt by lra; reflexivity).
  rewrite quat_exp_is_rodrigues by exact H. rewrite (so3_jl_large v0 v1 v2 H1). fold th.
  rewrite so3_jr_struct, sq_cosm_large, sq_sinm_large by exact H1. cbv [hd]. fold th.
  replace (nsq v0 v1 v2) with (th * th) by (unfold th; rewrite sqrt_sqrt by lra; reflexivity).
  apply rod_jl_is_R_jr; assumption.
Qed.

(* the inverse Jacobian coefficient outside the cell, and J_l^-1 J_l = I there (theta not a multiple of 2 pi) *)
Lemma sq_jinv_large u : eps <= u -> sq_series_11 u = [/ u + sin (sqrt u) / (2 * sqrt u * (cos (sqrt u) - 1))].
Proof.
  intro H. assert (0 < u) by (unfold eps in H; lra). cbv beta iota zeta delta [sq_series_11].
  large_cell H. rewrite pow_neg_half by assumption. f_equal. f_equal.
  unfold Rdiv. rewrite !Rinv_mult. replace (-1 + cos (sqrt u)) with (cos (sqrt u) - 1) by ring. ring.
Qed.
Lemma rod_jli_jl th v0 v1 v2 : th <> 0 -> cos th - 1 <> 0 -> th * th = v0 * v0 + v1 * v1 + v2 * v2 ->
  mmul 3 3 3 (rod (- (1 / 2)) (/ (th * th) + sin th / (2 * th * (cos th - 1))) [v0; v1; v2])
             (rod ((1 - cos th) / (th * th)) ((th - sin th) / (th * th * th)) [v0; v1; v2]) = mid 3.
Proof.
  intros Hth Hc Hsq. pose proof (sin2_cos2 th) as Q. unfold Rsqr in Q.
  revert Q Hc. generalize (sin th) (cos th). intros s c Q Hc. unfold rod. mat_cbv.
  list_eq; field_simplify_eq; try (split; assumption); cbn [pow]; revert Hsq Q; generalize th; clear; intros; nsatzR.
Qed.
Lemma so3_jli_jl_large v0 v1 v2 : eps <= nsq v0 v1 v2 -> cos (sqrt (nsq v0 v1 v2)) - 1 <> 0 ->
  mmul 3 3 3 (so3_left_jacobian_inv v0 v1 v2) (so3_left_jacobian v0 v1 v2) = mid 3.
Proof.
  intros H Hc. assert (Hp : 0 < nsq v0 v1 v2) by (unfold eps in H; lra).
  set (th := sqrt (nsq v0 v1 v2)) in *.
  assert (Hth : th <> 0) by (apply Rgt_not_eq, sqrt_lt_R0; exact Hp).
  assert (Hsq : th * th = v0 * v0 + v1 * v1 + v2 * v2) by (unfold th; rewrite sqrt_sqrt by lra; reflexivity).
  rewrite (so3_jl_large v0 v1 v2 H). fold th. rewrite so3_jli_struct, sq_jinv_large by exact H. cbv [hd]. fold th.
  replace (nsq v0 v1 v2) with (th * th) by (unfold th; rewrite sqrt_sqrt by lra; reflexivity).
  apply rod_jli_jl; assumption.
Qed.

(* ---------- quaternion kinematic Jacobians: qdot = J w ---------- *)
(* along qdot = J_r w the (unnormalised) rotation matrix M(q) moves by M(q) [w]x, along J_l w by [w]x M(q):
   M(q + e p) = M(q) + e * (first-order term) + e^2 M(p) is a polynomial identity in e *)
Lemma quat_right_kinematics q0 q1 q2 q3 w0 w1 w2 e :
  let p := mmul 4 3 1 (SO3Quat_right_jacobian q0 q1 q2 q3) [w0; w1; w2] in
  let M := SO3Quat_to_Matrix_v in
  M (madd [q0; q1; q2; q3] (mscale e p)) =
  madd (M [q0; q1; q2; q3]) (madd (mscale e (mmul 3 3 3 (M [q0; q1; q2; q3]) (hat3 [w0; w1; w2]))) (mscale (e * e) (M p))).
Proof. cbv zeta. SO3Quat_unfold. mat_cbv. list_eq; field. Qed.
Lemma quat_left_kinematics q0 q1 q2 q3 w0 w1 w2 e :
  let p := mmul 4 3 1 (SO3Quat_left_jacobian q0 q1 q2 q3) [w0; w1; w2] in
  let M := SO3Quat_to_Matrix_v in
  M (madd [q0; q1; q2; q3] (mscale e p)) =
  madd (M [q0; q1; q2; q3]) (madd (mscale e (mmul 3 3 3 (hat3 [w0; w1; w2]) (M [q0; q1; q2; q3]))) (mscale (e * e) (M p))).
Proof. cbv zeta. SO3Quat_unfold. mat_cbv. list_eq; field. Qed.
(* the quaternion norm is conserved: q . (J w) = 0 for both Jacobians *)
Lemma quat_kinematics_norm q0 q1 q2 q3 w0 w1 w2 :
  dot [q0; q1; q2; q3] (mmul 4 3 1 (SO3Quat_right_jacobian q0 q1 q2 q3) [w0; w1; w2]) = 0 /\
  dot [q0; q1; q2; q3] (mmul 4 3 1 (SO3Quat_left_jacobian q0 q1 q2 q3) [w0; w1; w2]) = 0.
Proof. SO3Quat_unfold. mat_cbv. split; field. Qed.

(* ---------- MRP kinematic Jacobian: B(r)/4 with B = (1 - |r|^2) I + 2 [r]x + 2 r r^T, for every r (no shadowing) ---------- *)
Lemma mrp_right_jacobian_struct r0 r1 r2 :
  SO3Mrp_right_jacobian r0 r1 r2 =
  let n := r0 * r0 + r1 * r1 + r2 * r2 in
  mscale (1 / 4) (madd (mscale (1 - n) (mid 3)) (madd (mscale 2 (hat3 [r0; r1; r2]))
                    (mscale 2 (mmul 3 1 3 [r0; r1; r2] [r0; r1; r2])))).
Proof. cbv zeta. SO3Mrp_unfold. mat_cbv. list_eq; field. Qed.
