(* C01 for SO(2), SE(2), R^2, R^3 on generated code *)
From Coq Require Import Reals List Lra Lia.
From Cyecca Require Import Base.Ops Base.Tactics Spec.Mat Gen.SO2 Gen.SE2 Gen.Rn.
Import ListNotations.
Local Open Scope R_scope.

Definition len (n : nat) (a : list R) : Prop := length a = n.

Ltac trig_expand := rewrite ?cos_plus, ?sin_plus, ?cos_neg, ?sin_neg, ?cos_0, ?sin_0.
Ltac pyth x := let H := fresh "Hp" in pose proof (sin2_cos2 x) as H; unfold Rsqr in H.

(* ---------------- SO(2) ---------------- *)
Lemma SO2_hom : hom_law 2 SO2_product_v SO2_to_Matrix_v (len 1).
Proof. intros a b Ha Hb. unfold len in *. explode. SO2_unfold. mat_cbv. trig_expand. list_eq; ring. Qed.

Lemma SO2_inv : inv_law 2 SO2_inverse_v SO2_to_Matrix_v (len 1).
Proof.
  intros a Ha. unfold len in *. explode. SO2_unfold. mat_cbv. trig_expand. pyth r.
  split; list_eq; nsatzR.
Qed.

Lemma SO2_id : id_law 2 SO2_product_v SO2_identity_v SO2_to_Matrix_v (len 1).
Proof.
  split; [|split].
  - SO2_unfold. mat_cbv. trig_expand. list_eq; ring.
  - reflexivity.
  - intros a Ha. unfold len in *. explode. SO2_unfold.
    replace (0 + r) with r by ring. replace (r + 0) with r by ring. split; reflexivity.
Qed.

Lemma SO2_id_param : id_param_law SO2_product_v SO2_identity_v (len 1).
Proof. intros a Ha. unfold len in *. explode. SO2_unfold. split; list_eq; ring. Qed.

Lemma SO2_assoc_param a b c : len 1 a -> len 1 b -> len 1 c ->
  SO2_product_v (SO2_product_v a b) c = SO2_product_v a (SO2_product_v b c).
Proof. unfold len. intros. explode. SO2_unfold. list_eq; ring. Qed.

(* from_Matrix is a right inverse of to_Matrix: same group element (same matrix) back *)
Lemma atan2_sin_cos_matrix t :
  cos (op_atan2 (sin t) (cos t)) = cos t /\ sin (op_atan2 (sin t) (cos t)) = sin t.
Proof.
  pose proof (sin2_cos2 t) as P. unfold Rsqr in P.
  unfold op_atan2.
  assert (Hc : forall x, 0 < cos (atan x)) by (intro x; pose proof (atan_bound x); apply cos_gt_0; lra).
  assert (A1 : forall y x : R, x <> 0 -> cos (atan (y / x)) * cos (atan (y / x)) * (x * x + y * y) = x * x).
  { intros y x Hx. pose proof (Hc (y/x)) as Hpos.
    assert (T : tan (atan (y / x)) = y / x) by apply atan_right_inv.
    unfold tan in T. remember (atan (y / x)) as a eqn:Ea. clear Ea.
    assert (S : sin a = y / x * cos a) by (rewrite <- T; field; lra).
    pose proof (sin2_cos2 a) as Q. unfold Rsqr in Q. rewrite S in Q.
    assert (Q' : cos a * cos a * (1 + (y / x) * (y / x)) = 1) by lra.
    transitivity (cos a * cos a * (1 + y / x * (y / x)) * (x * x)); [field; assumption | rewrite Q'; ring]. }
  destruct (Rlt_dec 0 (cos t)) as [Hpos|Hnpos].
  - (* x > 0 : atan (sin/cos) *)
    pose proof (A1 (sin t) (cos t) ltac:(lra)) as E. rewrite Rplus_comm, P, Rmult_1_r in E.
    pose proof (Hc (sin t / cos t)) as Hcp.
    assert (Ec : cos (atan (sin t / cos t)) = cos t) by nra.
    split; [exact Ec|].
    assert (T : tan (atan (sin t / cos t)) = sin t / cos t) by apply atan_right_inv.
    unfold tan in T. rewrite Ec in T. apply Rmult_eq_reg_r with (/ cos t); [exact T | apply Rinv_neq_0_compat; lra].
  - destruct (Rlt_dec (cos t) 0) as [Hneg|Hnneg].
    + pose proof (A1 (sin t) (cos t) ltac:(lra)) as E. rewrite Rplus_comm, P, Rmult_1_r in E.
      pose proof (Hc (sin t / cos t)) as Hcp.
      assert (Ec : cos (atan (sin t / cos t)) = - cos t) by nra.
      assert (T : tan (atan (sin t / cos t)) = sin t / cos t) by apply atan_right_inv.
      unfold tan in T. rewrite Ec in T.
      assert (Es : sin (atan (sin t / cos t)) = - sin t).
      { remember (sin (atan (sin t / cos t))) as sa. clear Heqsa.
        assert (sa = sin t / cos t * (- cos t)) by (rewrite <- T; field; lra).
        rewrite H. field. lra. }
      destruct (Rle_dec 0 (sin t)).
      * rewrite cos_plus, sin_plus, cos_PI, sin_PI, Ec, Es. split; ring.
      * rewrite cos_minus, sin_minus, cos_PI, sin_PI, Ec, Es. split; ring.
    + assert (C0 : cos t = 0) by lra. rewrite C0 in *.
      assert (S1 : sin t = 1 \/ sin t = -1) by (assert (sin t * sin t = 1) by lra; destruct (Rlt_dec 0 (sin t)); [left|right]; nra).
      destruct (Rlt_dec 0 (sin t)).
      * rewrite cos_PI2, sin_PI2. split; lra.
      * destruct (Rlt_dec (sin t) 0); [|lra].
        replace (- PI / 2) with (- (PI / 2)) by field. rewrite cos_neg, sin_neg, cos_PI2, sin_PI2. split; lra.
Qed.

Lemma SO2_fromM a : len 1 a -> SO2_to_Matrix_v (SO2_from_Matrix_v (SO2_to_Matrix_v a)) = SO2_to_Matrix_v a.
Proof.
  unfold len. intro Ha. explode. SO2_unfold.
  destruct (atan2_sin_cos_matrix r) as [Ec Es]. rewrite Ec, Es. reflexivity.
Qed.

(* ---------------- SE(2) ---------------- *)
Lemma SE2_hom : hom_law 3 SE2_product_v SE2_to_Matrix_v (len 3).
Proof. intros a b Ha Hb. unfold len in *. explode. SE2_unfold. mat_cbv. trig_expand. list_eq; ring. Qed.

Lemma SE2_inv : inv_law 3 SE2_inverse_v SE2_to_Matrix_v (len 3).
Proof.
  intros a Ha. unfold len in *. explode. SE2_unfold. mat_cbv. trig_expand. pyth r1.
  split; list_eq; nsatzR.
Qed.

Lemma SE2_id : id_law 3 SE2_product_v SE2_identity_v SE2_to_Matrix_v (len 3).
Proof.
  split; [|split].
  - SE2_unfold. mat_cbv. trig_expand. list_eq; ring.
  - reflexivity.
  - intros a Ha. unfold len in *. explode. SE2_unfold. trig_expand.
    split; list_eq; try ring; f_equal; ring.
Qed.

Lemma SE2_assoc_param a b c : len 3 a -> len 3 b -> len 3 c ->
  SE2_product_v (SE2_product_v a b) c = SE2_product_v a (SE2_product_v b c).
Proof. unfold len. intros. explode. SE2_unfold. trig_expand. list_eq; ring. Qed.

Lemma SE2_fromM a : len 3 a -> SE2_to_Matrix_v (SE2_from_Matrix_v (SE2_to_Matrix_v a)) = SE2_to_Matrix_v a.
Proof.
  unfold len. intro Ha. explode. SE2_unfold.
  destruct (atan2_sin_cos_matrix r1) as [Ec Es]. rewrite Ec, Es. reflexivity.
Qed.

(* ---------------- R^2, R^3 ---------------- *)
Lemma R2_hom : hom_law 3 R2_product_v R2_to_Matrix_v (len 2).
Proof. intros a b Ha Hb. unfold len in *. explode. Rn_unfold. mat_cbv. list_eq; ring. Qed.
Lemma R2_inv : inv_law 3 R2_inverse_v R2_to_Matrix_v (len 2).
Proof. intros a Ha. unfold len in *. explode. Rn_unfold. mat_cbv. split; list_eq; ring. Qed.
Lemma R2_id : id_law 3 R2_product_v R2_identity_v R2_to_Matrix_v (len 2).
Proof.
  split; [|split]; [Rn_unfold; mat_cbv; list_eq; ring | reflexivity |].
  intros a Ha. unfold len in *. explode. Rn_unfold. split; list_eq; ring.
Qed.
Lemma R2_assoc_param a b c : len 2 a -> len 2 b -> len 2 c ->
  R2_product_v (R2_product_v a b) c = R2_product_v a (R2_product_v b c).
Proof. unfold len. intros. explode. Rn_unfold. list_eq; ring. Qed.

Lemma R3_hom : hom_law 4 R3_product_v R3_to_Matrix_v (len 3).
Proof. intros a b Ha Hb. unfold len in *. explode. Rn_unfold. mat_cbv. list_eq; ring. Qed.
Lemma R3_inv : inv_law 4 R3_inverse_v R3_to_Matrix_v (len 3).
Proof. intros a Ha. unfold len in *. explode. Rn_unfold. mat_cbv. split; list_eq; ring. Qed.
Lemma R3_id : id_law 4 R3_product_v R3_identity_v R3_to_Matrix_v (len 3).
Proof.
  split; [|split]; [Rn_unfold; mat_cbv; list_eq; ring | reflexivity |].
  intros a Ha. unfold len in *. explode. Rn_unfold. split; list_eq; ring.
Qed.
Lemma R3_assoc_param a b c : len 3 a -> len 3 b -> len 3 c ->
  R3_product_v (R3_product_v a b) c = R3_product_v a (R3_product_v b c).
Proof. unfold len. intros. explode. Rn_unfold. list_eq; ring. Qed.
