From Coq Require Import Reals List Lra.
From Coquelicot Require Import Coquelicot.
From Cyecca Require Import Base.Ops Base.Tactics Spec.Mat Gen.Bezier.
Import ListNotations.
Local Open Scope R_scope.


(* Bernstein polynomial of a control polygon, by Pascal's rule (no factorials) *)
Fixpoint binR (n k : nat) : R :=
  match n, k with
  | _, O => 1
  | O, S _ => 0
  | S n', S k' => binR n' k' + binR n' (S k')
  end.
Fixpoint bern_sum (n i : nat) (P : list R) (b : R) : R :=
  match P with
  | [] => 0
  | p :: P' => binR n i * b ^ i * (1 - b) ^ (n - i) * p + bern_sum n (S i) P' b
  end.
Definition bernstein (P : list R) (b : R) : R := bern_sum (length P - 1) 0 P b.
Ltac bern_cbv := cbv beta iota zeta delta [bernstein bern_sum binR length Nat.sub pow nth].

Lemma eval1_bernstein : forall p0 p1 T t, T <> 0 -> bez_eval_1_1 p0 p1 T t = [bernstein [p0; p1] (t / T)].
Proof. intros. Bezier_unfold. bern_cbv. list_eq. field. assumption. Qed.

Lemma eval1_endpoints : forall p0 p1 T, T <> 0 -> bez_eval_1_1 p0 p1 T 0 = [p0] /\ bez_eval_1_1 p0 p1 T T = [p1].
Proof. intros. Bezier_unfold. split; list_eq; field; assumption. Qed.

Lemma eval1_derivative : forall p0 p1 T t, T <> 0 -> is_derive (fun t => nth 0 (bez_eval_1_1 p0 p1 T t) 0) t (nth 0 (bez_deriv_1_1_o1 p0 p1 T) 0).
Proof. intros p0 p1 T t HT. Bezier_unfold. auto_derive; [repeat split; assumption | field; assumption]. Qed.

Lemma eval2_bernstein : forall p0 p1 p2 T t, T <> 0 -> bez_eval_2_1 p0 p1 p2 T t = [bernstein [p0; p1; p2] (t / T)].
Proof. intros. Bezier_unfold. bern_cbv. list_eq. field. assumption. Qed.

Lemma eval2_endpoints : forall p0 p1 p2 T, T <> 0 -> bez_eval_2_1 p0 p1 p2 T 0 = [p0] /\ bez_eval_2_1 p0 p1 p2 T T = [p2].
Proof. intros. Bezier_unfold. split; list_eq; field; assumption. Qed.

Lemma eval2_derivative : forall p0 p1 p2 T t, T <> 0 -> is_derive (fun t => nth 0 (bez_eval_2_1 p0 p1 p2 T t) 0) t (nth 0 (bez_eval_1_1_v (bez_deriv_2_1_o1 p0 p1 p2 T) [T] [t]) 0).
Proof. intros p0 p1 p2 T t HT. Bezier_unfold. auto_derive; [repeat split; assumption | field; assumption]. Qed.

Lemma deriv2_order2_iterates : forall p0 p1 p2 T, T <> 0 -> bez_deriv_2_1_o2 p0 p1 p2 T = bez_deriv_1_1_o1_v (bez_deriv_2_1_o1 p0 p1 p2 T) [T].
Proof. intros. Bezier_unfold. list_eq; field; assumption. Qed.

Lemma deriv2_chain2 : forall p0 p1 p2 T, T <> 0 -> bez_deriv_2_1_chain2 p0 p1 p2 T = bez_deriv_2_1_o2 p0 p1 p2 T.
Proof. intros. Bezier_unfold. list_eq; field; assumption. Qed.

Lemma eval3_bernstein : forall p0 p1 p2 p3 T t, T <> 0 -> bez_eval_3_1 p0 p1 p2 p3 T t = [bernstein [p0; p1; p2; p3] (t / T)].
Proof. intros. Bezier_unfold. bern_cbv. list_eq. field. assumption. Qed.

Lemma eval3_endpoints : forall p0 p1 p2 p3 T, T <> 0 -> bez_eval_3_1 p0 p1 p2 p3 T 0 = [p0] /\ bez_eval_3_1 p0 p1 p2 p3 T T = [p3].
Proof. intros. Bezier_unfold. split; list_eq; field; assumption. Qed.

Lemma eval3_derivative : forall p0 p1 p2 p3 T t, T <> 0 -> is_derive (fun t => nth 0 (bez_eval_3_1 p0 p1 p2 p3 T t) 0) t (nth 0 (bez_eval_2_1_v (bez_deriv_3_1_o1 p0 p1 p2 p3 T) [T] [t]) 0).
Proof. intros p0 p1 p2 p3 T t HT. Bezier_unfold. auto_derive; [repeat split; assumption | field; assumption]. Qed.

Lemma deriv3_order2_iterates : forall p0 p1 p2 p3 T, T <> 0 -> bez_deriv_3_1_o2 p0 p1 p2 p3 T = bez_deriv_2_1_o1_v (bez_deriv_3_1_o1 p0 p1 p2 p3 T) [T].
Proof. intros. Bezier_unfold. list_eq; field; assumption. Qed.

Lemma deriv3_order3_iterates : forall p0 p1 p2 p3 T, T <> 0 -> bez_deriv_3_1_o3 p0 p1 p2 p3 T = bez_deriv_1_1_o1_v (bez_deriv_3_1_o2 p0 p1 p2 p3 T) [T].
Proof. intros. Bezier_unfold. list_eq; field; assumption. Qed.

Lemma deriv3_chain2 : forall p0 p1 p2 p3 T, T <> 0 -> bez_deriv_3_1_chain2 p0 p1 p2 p3 T = bez_deriv_3_1_o2 p0 p1 p2 p3 T.
Proof. intros. Bezier_unfold. list_eq; field; assumption. Qed.

Lemma eval4_bernstein : forall p0 p1 p2 p3 p4 T t, T <> 0 -> bez_eval_4_1 p0 p1 p2 p3 p4 T t = [bernstein [p0; p1; p2; p3; p4] (t / T)].
Proof. intros. Bezier_unfold. bern_cbv. list_eq. field. assumption. Qed.

Lemma eval4_endpoints : forall p0 p1 p2 p3 p4 T, T <> 0 -> bez_eval_4_1 p0 p1 p2 p3 p4 T 0 = [p0] /\ bez_eval_4_1 p0 p1 p2 p3 p4 T T = [p4].
Proof. intros. Bezier_unfold. split; list_eq; field; assumption. Qed.

Lemma eval4_derivative : forall p0 p1 p2 p3 p4 T t, T <> 0 -> is_derive (fun t => nth 0 (bez_eval_4_1 p0 p1 p2 p3 p4 T t) 0) t (nth 0 (bez_eval_3_1_v (bez_deriv_4_1_o1 p0 p1 p2 p3 p4 T) [T] [t]) 0).
Proof. intros p0 p1 p2 p3 p4 T t HT. Bezier_unfold. auto_derive; [repeat split; assumption | field; assumption]. Qed.

Lemma deriv4_order2_iterates : forall p0 p1 p2 p3 p4 T, T <> 0 -> bez_deriv_4_1_o2 p0 p1 p2 p3 p4 T = bez_deriv_3_1_o1_v (bez_deriv_4_1_o1 p0 p1 p2 p3 p4 T) [T].
Proof. intros. Bezier_unfold. list_eq; field; assumption. Qed.

Lemma deriv4_order3_iterates : forall p0 p1 p2 p3 p4 T, T <> 0 -> bez_deriv_4_1_o3 p0 p1 p2 p3 p4 T = bez_deriv_2_1_o1_v (bez_deriv_4_1_o2 p0 p1 p2 p3 p4 T) [T].
Proof. intros. Bezier_unfold. list_eq; field; assumption. Qed.

Lemma deriv4_order4_iterates : forall p0 p1 p2 p3 p4 T, T <> 0 -> bez_deriv_4_1_o4 p0 p1 p2 p3 p4 T = bez_deriv_1_1_o1_v (bez_deriv_4_1_o3 p0 p1 p2 p3 p4 T) [T].
Proof. intros. Bezier_unfold. list_eq; field; assumption. Qed.

Lemma deriv4_chain2 : forall p0 p1 p2 p3 p4 T, T <> 0 -> bez_deriv_4_1_chain2 p0 p1 p2 p3 p4 T = bez_deriv_4_1_o2 p0 p1 p2 p3 p4 T.
Proof. intros. Bezier_unfold. list_eq; field; assumption. Qed.

Lemma eval5_bernstein : forall p0 p1 p2 p3 p4 p5 T t, T <> 0 -> bez_eval_5_1 p0 p1 p2 p3 p4 p5 T t = [bernstein [p0; p1; p2; p3; p4; p5] (t / T)].
Proof. intros. Bezier_unfold. bern_cbv. list_eq. field. assumption. Qed.

Lemma eval5_endpoints : forall p0 p1 p2 p3 p4 p5 T, T <> 0 -> bez_eval_5_1 p0 p1 p2 p3 p4 p5 T 0 = [p0] /\ bez_eval_5_1 p0 p1 p2 p3 p4 p5 T T = [p5].
Proof. intros. Bezier_unfold. split; list_eq; field; assumption. Qed.

Lemma eval5_derivative : forall p0 p1 p2 p3 p4 p5 T t, T <> 0 -> is_derive (fun t => nth 0 (bez_eval_5_1 p0 p1 p2 p3 p4 p5 T t) 0) t (nth 0 (bez_eval_4_1_v (bez_deriv_5_1_o1 p0 p1 p2 p3 p4 p5 T) [T] [t]) 0).
Proof. intros p0 p1 p2 p3 p4 p5 T t HT. Bezier_unfold. auto_derive; [repeat split; assumption | field; assumption]. Qed.

Lemma deriv5_order2_iterates : forall p0 p1 p2 p3 p4 p5 T, T <> 0 -> bez_deriv_5_1_o2 p0 p1 p2 p3 p4 p5 T = bez_deriv_4_1_o1_v (bez_deriv_5_1_o1 p0 p1 p2 p3 p4 p5 T) [T].
Proof. intros. Bezier_unfold. list_eq; field; assumption. Qed.

Lemma deriv5_order3_iterates : forall p0 p1 p2 p3 p4 p5 T, T <> 0 -> bez_deriv_5_1_o3 p0 p1 p2 p3 p4 p5 T = bez_deriv_3_1_o1_v (bez_deriv_5_1_o2 p0 p1 p2 p3 p4 p5 T) [T].
Proof. intros. Bezier_unfold. list_eq; field; assumption. Qed.

Lemma deriv5_order4_iterates : forall p0 p1 p2 p3 p4 p5 T, T <> 0 -> bez_deriv_5_1_o4 p0 p1 p2 p3 p4 p5 T = bez_deriv_2_1_o1_v (bez_deriv_5_1_o3 p0 p1 p2 p3 p4 p5 T) [T].
Proof. intros. Bezier_unfold. list_eq; field; assumption. Qed.

Lemma deriv5_chain2 : forall p0 p1 p2 p3 p4 p5 T, T <> 0 -> bez_deriv_5_1_chain2 p0 p1 p2 p3 p4 p5 T = bez_deriv_5_1_o2 p0 p1 p2 p3 p4 p5 T.
Proof. intros. Bezier_unfold. list_eq; field; assumption. Qed.

Lemma eval6_bernstein : forall p0 p1 p2 p3 p4 p5 p6 T t, T <> 0 -> bez_eval_6_1 p0 p1 p2 p3 p4 p5 p6 T t = [bernstein [p0; p1; p2; p3; p4; p5; p6] (t / T)].
Proof. intros. Bezier_unfold. bern_cbv. list_eq. field. assumption. Qed.

Lemma eval6_endpoints : forall p0 p1 p2 p3 p4 p5 p6 T, T <> 0 -> bez_eval_6_1 p0 p1 p2 p3 p4 p5 p6 T 0 = [p0] /\ bez_eval_6_1 p0 p1 p2 p3 p4 p5 p6 T T = [p6].
Proof. intros. Bezier_unfold. split; list_eq; field; assumption. Qed.

Lemma eval6_derivative : forall p0 p1 p2 p3 p4 p5 p6 T t, T <> 0 -> is_derive (fun t => nth 0 (bez_eval_6_1 p0 p1 p2 p3 p4 p5 p6 T t) 0) t (nth 0 (bez_eval_5_1_v (bez_deriv_6_1_o1 p0 p1 p2 p3 p4 p5 p6 T) [T] [t]) 0).
Proof. intros p0 p1 p2 p3 p4 p5 p6 T t HT. Bezier_unfold. auto_derive; [repeat split; assumption | field; assumption]. Qed.

Lemma deriv6_order2_iterates : forall p0 p1 p2 p3 p4 p5 p6 T, T <> 0 -> bez_deriv_6_1_o2 p0 p1 p2 p3 p4 p5 p6 T = bez_deriv_5_1_o1_v (bez_deriv_6_1_o1 p0 p1 p2 p3 p4 p5 p6 T) [T].
Proof. intros. Bezier_unfold. list_eq; field; assumption. Qed.

Lemma deriv6_order3_iterates : forall p0 p1 p2 p3 p4 p5 p6 T, T <> 0 -> bez_deriv_6_1_o3 p0 p1 p2 p3 p4 p5 p6 T = bez_deriv_4_1_o1_v (bez_deriv_6_1_o2 p0 p1 p2 p3 p4 p5 p6 T) [T].
Proof. intros. Bezier_unfold. list_eq; field; assumption. Qed.

Lemma deriv6_order4_iterates : forall p0 p1 p2 p3 p4 p5 p6 T, T <> 0 -> bez_deriv_6_1_o4 p0 p1 p2 p3 p4 p5 p6 T = bez_deriv_3_1_o1_v (bez_deriv_6_1_o3 p0 p1 p2 p3 p4 p5 p6 T) [T].
Proof. intros. Bezier_unfold. list_eq; field; assumption. Qed.

Lemma deriv6_chain2 : forall p0 p1 p2 p3 p4 p5 p6 T, T <> 0 -> bez_deriv_6_1_chain2 p0 p1 p2 p3 p4 p5 p6 T = bez_deriv_6_1_o2 p0 p1 p2 p3 p4 p5 p6 T.
Proof. intros. Bezier_unfold. list_eq; field; assumption. Qed.

Lemma eval7_bernstein : forall p0 p1 p2 p3 p4 p5 p6 p7 T t, T <> 0 -> bez_eval_7_1 p0 p1 p2 p3 p4 p5 p6 p7 T t = [bernstein [p0; p1; p2; p3; p4; p5; p6; p7] (t / T)].
Proof. intros. Bezier_unfold. bern_cbv. list_eq. field. assumption. Qed.

Lemma eval7_endpoints : forall p0 p1 p2 p3 p4 p5 p6 p7 T, T <> 0 -> bez_eval_7_1 p0 p1 p2 p3 p4 p5 p6 p7 T 0 = [p0] /\ bez_eval_7_1 p0 p1 p2 p3 p4 p5 p6 p7 T T = [p7].
Proof. intros. Bezier_unfold. split; list_eq; field; assumption. Qed.

Lemma eval7_derivative : forall p0 p1 p2 p3 p4 p5 p6 p7 T t, T <> 0 -> is_derive (fun t => nth 0 (bez_eval_7_1 p0 p1 p2 p3 p4 p5 p6 p7 T t) 0) t (nth 0 (bez_eval_6_1_v (bez_deriv_7_1_o1 p0 p1 p2 p3 p4 p5 p6 p7 T) [T] [t]) 0).
Proof. intros p0 p1 p2 p3 p4 p5 p6 p7 T t HT. Bezier_unfold. auto_derive; [repeat split; assumption | field; assumption]. Qed.

Lemma deriv7_order2_iterates : forall p0 p1 p2 p3 p4 p5 p6 p7 T, T <> 0 -> bez_deriv_7_1_o2 p0 p1 p2 p3 p4 p5 p6 p7 T = bez_deriv_6_1_o1_v (bez_deriv_7_1_o1 p0 p1 p2 p3 p4 p5 p6 p7 T) [T].
Proof. intros. Bezier_unfold. list_eq; field; assumption. Qed.

Lemma deriv7_order3_iterates : forall p0 p1 p2 p3 p4 p5 p6 p7 T, T <> 0 -> bez_deriv_7_1_o3 p0 p1 p2 p3 p4 p5 p6 p7 T = bez_deriv_5_1_o1_v (bez_deriv_7_1_o2 p0 p1 p2 p3 p4 p5 p6 p7 T) [T].
Proof. intros. Bezier_unfold. list_eq; field; assumption. Qed.

Lemma deriv7_order4_iterates : forall p0 p1 p2 p3 p4 p5 p6 p7 T, T <> 0 -> bez_deriv_7_1_o4 p0 p1 p2 p3 p4 p5 p6 p7 T = bez_deriv_4_1_o1_v (bez_deriv_7_1_o3 p0 p1 p2 p3 p4 p5 p6 p7 T) [T].
Proof. intros. Bezier_unfold. list_eq; field; assumption. Qed.

Lemma deriv7_chain2 : forall p0 p1 p2 p3 p4 p5 p6 p7 T, T <> 0 -> bez_deriv_7_1_chain2 p0 p1 p2 p3 p4 p5 p6 p7 T = bez_deriv_7_1_o2 p0 p1 p2 p3 p4 p5 p6 p7 T.
Proof. intros. Bezier_unfold. list_eq; field; assumption. Qed.

Lemma eval1_dim3_rows : forall x0 y0 z0 x1 y1 z1 T t, bez_eval_1_3 x0 y0 z0 x1 y1 z1 T t = bez_eval_1_1 x0 x1 T t ++ bez_eval_1_1 y0 y1 T t ++ bez_eval_1_1 z0 z1 T t.
Proof. intros. Bezier_unfold. reflexivity. Qed.

Lemma deriv1_dim3_rows : forall x0 y0 z0 x1 y1 z1 T, T <> 0 -> forall d i, (d < 3)%nat -> (i < 1)%nat -> nth (d + 3 * i) (bez_deriv_1_3_o1 x0 y0 z0 x1 y1 z1 T) 0 = nth i (nth d [bez_deriv_1_1_o1 x0 x1 T; bez_deriv_1_1_o1 y0 y1 T; bez_deriv_1_1_o1 z0 z1 T] []) 0.
Proof. intros x0 y0 z0 x1 y1 z1 T HT d i Hd Hi. Bezier_unfold. do 3 (destruct d as [|d]; [ do 1 (destruct i as [|i]; [ cbn [Nat.add Nat.mul nth]; field; assumption | ]); exfalso; Lia.lia | ]); exfalso; Lia.lia. Qed.

Lemma eval2_dim3_rows : forall x0 y0 z0 x1 y1 z1 x2 y2 z2 T t, bez_eval_2_3 x0 y0 z0 x1 y1 z1 x2 y2 z2 T t = bez_eval_2_1 x0 x1 x2 T t ++ bez_eval_2_1 y0 y1 y2 T t ++ bez_eval_2_1 z0 z1 z2 T t.
Proof. intros. Bezier_unfold. reflexivity. Qed.

Lemma deriv2_dim3_rows : forall x0 y0 z0 x1 y1 z1 x2 y2 z2 T, T <> 0 -> forall d i, (d < 3)%nat -> (i < 2)%nat -> nth (d + 3 * i) (bez_deriv_2_3_o1 x0 y0 z0 x1 y1 z1 x2 y2 z2 T) 0 = nth i (nth d [bez_deriv_2_1_o1 x0 x1 x2 T; bez_deriv_2_1_o1 y0 y1 y2 T; bez_deriv_2_1_o1 z0 z1 z2 T] []) 0.
Proof. intros x0 y0 z0 x1 y1 z1 x2 y2 z2 T HT d i Hd Hi. Bezier_unfold. do 3 (destruct d as [|d]; [ do 2 (destruct i as [|i]; [ cbn [Nat.add Nat.mul nth]; field; assumption | ]); exfalso; Lia.lia | ]); exfalso; Lia.lia. Qed.

Lemma deriv2_dim3_chain2 : forall x0 y0 z0 x1 y1 z1 x2 y2 z2 T, T <> 0 -> bez_deriv_2_3_chain2 x0 y0 z0 x1 y1 z1 x2 y2 z2 T = bez_deriv_2_3_o2 x0 y0 z0 x1 y1 z1 x2 y2 z2 T.
Proof. intros. Bezier_unfold. list_eq; field; assumption. Qed.

Lemma eval3_dim3_rows : forall x0 y0 z0 x1 y1 z1 x2 y2 z2 x3 y3 z3 T t, bez_eval_3_3 x0 y0 z0 x1 y1 z1 x2 y2 z2 x3 y3 z3 T t = bez_eval_3_1 x0 x1 x2 x3 T t ++ bez_eval_3_1 y0 y1 y2 y3 T t ++ bez_eval_3_1 z0 z1 z2 z3 T t.
Proof. intros. Bezier_unfold. reflexivity. Qed.

Lemma deriv3_dim3_rows : forall x0 y0 z0 x1 y1 z1 x2 y2 z2 x3 y3 z3 T, T <> 0 -> forall d i, (d < 3)%nat -> (i < 3)%nat -> nth (d + 3 * i) (bez_deriv_3_3_o1 x0 y0 z0 x1 y1 z1 x2 y2 z2 x3 y3 z3 T) 0 = nth i (nth d [bez_deriv_3_1_o1 x0 x1 x2 x3 T; bez_deriv_3_1_o1 y0 y1 y2 y3 T; bez_deriv_3_1_o1 z0 z1 z2 z3 T] []) 0.
Proof. intros x0 y0 z0 x1 y1 z1 x2 y2 z2 x3 y3 z3 T HT d i Hd Hi. Bezier_unfold. do 3 (destruct d as [|d]; [ do 3 (destruct i as [|i]; [ cbn [Nat.add Nat.mul nth]; field; assumption | ]); exfalso; Lia.lia | ]); exfalso; Lia.lia. Qed.

Lemma deriv3_dim3_chain2 : forall x0 y0 z0 x1 y1 z1 x2 y2 z2 x3 y3 z3 T, T <> 0 -> bez_deriv_3_3_chain2 x0 y0 z0 x1 y1 z1 x2 y2 z2 x3 y3 z3 T = bez_deriv_3_3_o2 x0 y0 z0 x1 y1 z1 x2 y2 z2 x3 y3 z3 T.
Proof. intros. Bezier_unfold. list_eq; field; assumption. Qed.
