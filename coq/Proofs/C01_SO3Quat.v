From Coq Require Import Reals List Lra Lia.
From Cyecca Require Import Base.Ops Base.Tactics Spec.Mat Spec.Rot Gen.SO3Quat.
Import ListNotations.
Local Open Scope R_scope.

Definition len4 (a : list R) : Prop := length a = 4%nat.
Definition unitq (a : list R) : Prop := length a = 4%nat /\ norm2 a = 1.

Ltac quat_units := SO3Quat_unfold.

Lemma quat_hom : hom_law 3 SO3Quat_product_v SO3Quat_to_Matrix_v len4.
Proof.
  intros a b Ha Hb. unfold len4 in *. explode. quat_units. mat_cbv. list_eq; ring.
Qed.

Lemma quat_closed : closed_law SO3Quat_product_v SO3Quat_inverse_v unitq.
Proof.
  split.
  - intros a b [Ha Na] [Hb Nb]. explode. split; [reflexivity|].
    revert Na Nb. quat_units. mat_cbv. intros Na Nb.
    nsatzR.
  - intros a [Ha Na]. explode. split; [reflexivity|].
    revert Na. quat_units. mat_cbv. intros Na. nsatzR.
Qed.

(* unit quaternions map to proper rotation matrices *)
Lemma quat_matrix_proper q : unitq q -> proper_rotation (SO3Quat_to_Matrix_v q).
Proof.
  intros [Hl Hn]. explode. revert Hn. quat_units. mat_cbv. rewrite Rplus_0_r. intro Hn.
  eexists _, _, _, _, _, _, _, _, _. split; [reflexivity|].
  constructor; nsatzR.
Qed.

Lemma quat_id : id_law 3 SO3Quat_product_v SO3Quat_identity_v SO3Quat_to_Matrix_v len4.
Proof.
  split; [|split].
  - quat_units. mat_cbv. list_eq; ring.
  - reflexivity.
  - intros a Ha. unfold len4 in *. explode. quat_units. mat_cbv. split; list_eq; ring.
Qed.
Lemma quat_id_param : id_param_law SO3Quat_product_v SO3Quat_identity_v len4.
Proof. intros a Ha. unfold len4 in *. explode. quat_units. split; list_eq; ring. Qed.

Lemma quat_inv : inv_law 3 SO3Quat_inverse_v SO3Quat_to_Matrix_v unitq.
Proof.
  intros a [Ha Hn]. explode. revert Hn. quat_units. mat_cbv. rewrite Rplus_0_r. intro Hn.
  assert (E2 : 1 = (r * r + (r0 * r0 + (r1 * r1 + r2 * r2))) * (r * r + (r0 * r0 + (r1 * r1 + r2 * r2)))) by (rewrite Hn; ring).
  split; list_eq; try ring; rewrite E2; ring.
Qed.

Lemma quat_assoc_param a b c : len4 a -> len4 b -> len4 c ->
  SO3Quat_product_v (SO3Quat_product_v a b) c = SO3Quat_product_v a (SO3Quat_product_v b c).
Proof. unfold len4. intros. explode. quat_units. list_eq; ring. Qed.

(* both signs of a quaternion give the same matrix *)
Lemma quat_sign a : len4 a -> SO3Quat_to_Matrix_v (map Ropp a) = SO3Quat_to_Matrix_v a.
Proof. unfold len4. intro. explode. quat_units. cbn [map]. mat_cbv. list_eq; ring. Qed.
