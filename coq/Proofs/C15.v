(* C15: controller saturations and error laws on generated code *)
From Coq Require Import Reals List Lra Lia.
From Flocq Require Import Core.Raux Core.Generic_fmt Core.Round_NE.
From Interval Require Import Tactic.
From Cyecca Require Import Base.Ops Base.Tactics Base.Slice Spec.Mat Gen.Rdd2 Gen.SO3Quat.
Import ListNotations.
Local Open Scope R_scope.

(* IEEE remainder: the result lies within half a period of zero *)
Lemma op_remainder_range x y : 0 < y -> - (y / 2) <= op_remainder x y <= y / 2.
Proof.
  intro Hy. unfold op_remainder.
  pose proof (Znearest_half (fun z => negb (Z.even z)) (x / y)) as H.
  apply Rabs_le_inv in H. destruct H as [H1 H2].
  assert (E : x - y * IZR (ZnearestE (x / y)) = y * (x / y - IZR (ZnearestE (x / y)))) by (field; lra).
  rewrite E. split; nra.
Qed.

(* ---------- rate loop ---------- *)
(* outputs: M[0:3], i1[3:6], e1[6:9], de1[9:12], alpha[12] *)
Lemma rate_integrator_bounded kp0 kp1 kp2 ki0 ki1 ki2 kd0 kd1 kd2 fc im0 im1 im2 w0 w1 w2 wr0 wr1 wr2 i00 i01 i02 e00 e01 e02 de00 de01 de02 dt :
  0 <= im0 -> 0 <= im1 -> 0 <= im2 ->
  rdd2_attitude_rate_control_wp kp0 kp1 kp2 ki0 ki1 ki2 kd0 kd1 kd2 fc im0 im1 im2 w0 w1 w2 wr0 wr1 wr2 i00 i01 i02 e00 e01 e02 de00 de01 de02 dt
    (fun r => - im0 <= nth 3 r 0 <= im0 /\ - im1 <= nth 4 r 0 <= im1 /\ - im2 <= nth 5 r 0 <= im2).
Proof.
  intros. wp_intro rdd2_attitude_rate_control_wp. cbv beta iota delta [nth]. all_eqns.
  repeat split.
  all: match goal with |- ?a <= ?b => slice a 6%nat; slice b 6%nat end; drop_rest; cases; lra.
Qed.

Lemma rate_filter_coefficient kp0 kp1 kp2 ki0 ki1 ki2 kd0 kd1 kd2 fc im0 im1 im2 w0 w1 w2 wr0 wr1 wr2 i00 i01 i02 e00 e01 e02 de00 de01 de02 dt :
  0 < dt * fc ->
  0 < nth 12 (rdd2_attitude_rate_control kp0 kp1 kp2 ki0 ki1 ki2 kd0 kd1 kd2 fc im0 im1 im2 w0 w1 w2 wr0 wr1 wr2 i00 i01 i02 e00 e01 e02 de00 de01 de02 dt) 0 < 1.
Proof.
  intro H. Rdd2_unfold.
  match goal with |- 0 < ?x / (?x + 1) < 1 =>
    assert (Hx : 0 < x) by nra;
    split; [ apply Rdiv_lt_0_compat; lra | apply Rmult_lt_reg_r with (x + 1); [lra|]; unfold Rdiv; rewrite Rmult_assoc, Rinv_l by lra; lra ]
  end.
Qed.

Lemma rate_law kp0 kp1 kp2 ki0 ki1 ki2 kd0 kd1 kd2 fc im0 im1 im2 w0 w1 w2 wr0 wr1 wr2 i00 i01 i02 e00 e01 e02 de00 de01 de02 dt :
  let r := rdd2_attitude_rate_control kp0 kp1 kp2 ki0 ki1 ki2 kd0 kd1 kd2 fc im0 im1 im2 w0 w1 w2 wr0 wr1 wr2 i00 i01 i02 e00 e01 e02 de00 de01 de02 dt in
  [nth 6 r 0; nth 7 r 0; nth 8 r 0] = [wr0 - w0; wr1 - w1; wr2 - w2] /\
  [nth 0 r 0; nth 1 r 0; nth 2 r 0] =
  [kp0 * nth 6 r 0 + ki0 * nth 3 r 0 + kd0 * nth 9 r 0; kp1 * nth 7 r 0 + ki1 * nth 4 r 0 + kd1 * nth 10 r 0; kp2 * nth 8 r 0 + ki2 * nth 5 r 0 + kd2 * nth 11 r 0] /\
  (dt <> 0 -> [nth 9 r 0; nth 10 r 0; nth 11 r 0] =
     [nth 12 r 0 * ((nth 6 r 0 - e00) / dt) + (1 - nth 12 r 0) * de00;
      nth 12 r 0 * ((nth 7 r 0 - e01) / dt) + (1 - nth 12 r 0) * de01;
      nth 12 r 0 * ((nth 8 r 0 - e02) / dt) + (1 - nth 12 r 0) * de02]).
Proof.
  intro r. subst r. Rdd2_unfold. split; [reflexivity|]. split; [list_eq; ring|].
  intro Hdt. list_eq; ring.
Qed.

(* ---------- stick inputs: linear maps with bounded outputs ---------- *)
Lemma acro_linear tt td a e t r :
  rdd2_input_acro tt td a e t r =
  [(4716158501352293 / 4503599627370496) * a; (4716158501352293 / 4503599627370496) * e; (4716158501352293 / 4503599627370496) * r; t * td + tt].
Proof. Rdd2_unfold. reflexivity. Qed.
(* sticks in [-1,1] give rates bounded by 60 deg/s (as the double constant) and thrust within trim +- delta *)
Lemma acro_bounded tt td a e t r : -1 <= a <= 1 -> -1 <= e <= 1 -> -1 <= t <= 1 -> -1 <= r <= 1 -> 0 <= td ->
  let o := rdd2_input_acro tt td a e t r in
  Rabs (nth 0 o 0) <= 4716158501352293 / 4503599627370496 /\ Rabs (nth 1 o 0) <= 4716158501352293 / 4503599627370496 /\
  Rabs (nth 2 o 0) <= 4716158501352293 / 4503599627370496 /\ tt - td <= nth 3 o 0 <= tt + td.
Proof.
  intros Ha He Ht Hr Hd o. subst o. Rdd2_unfold.
  repeat split; try (apply Rabs_le; split; nra); nra.
Qed.

(* ---------- velocity-mode input ---------- *)
(* outputs: psi_sp1[0], psi_vel_sp[1], pw_sp1[2:5], vw_sp[5:8], aw_sp[8:11], q_sp[11:15] *)
Lemma velocity_yaw_range INF dt psi p0 p1 p2 w0 w1 w2 a e t r rst :
  - PI <= nth 0 (rdd2_input_velocity INF dt psi p0 p1 p2 w0 w1 w2 a e t r rst) 0 <= PI.
Proof.
  Rdd2_unfold.
  match goal with |- - PI <= op_remainder ?x ?c <= PI =>
    destruct (op_remainder_range x c ltac:(lra)) as [L U];
    assert (Hc : c / 2 <= PI) by interval with (i_prec 60);
    split; lra end.
Qed.

Lemma velocity_reset INF dt psi p0 p1 p2 w0 w1 w2 a e t r rst : rst <> 0 ->
  let o := rdd2_input_velocity INF dt psi p0 p1 p2 w0 w1 w2 a e t r rst in
  [nth 2 o 0; nth 3 o 0; nth 4 o 0] = [w0; w1; w2].
Proof.
  intros Hr o. subst o. Rdd2_unfold.
  rewrite !(op_ifz_true rst) by assumption. rewrite !(op_not_true rst) by assumption. rewrite !op_ifz_0.
  repeat match goal with |- context [sqrt ?x] => replace x with 0 by ring end. rewrite sqrt_0.
  rewrite (op_lt_false 2 0) by lra. rewrite op_not_0, !op_ifz_0, !op_ifz_1. list_eq; ring.
Qed.

Lemma velocity_leash INF dt psi p0 p1 p2 w0 w1 w2 a e t r rst :
  rdd2_input_velocity_wp INF dt psi p0 p1 p2 w0 w1 w2 a e t r rst (fun o =>
    (nth 2 o 0 - w0) * (nth 2 o 0 - w0) + (nth 3 o 0 - w1) * (nth 3 o 0 - w1) + (nth 4 o 0 - w2) * (nth 4 o 0 - w2) <= 2 * 2).
Proof.
  wp_intro rdd2_input_velocity_wp. cbv beta iota delta [nth]. all_eqns.
  slice_goal 8%nat. drop_rest.
  (* n = sqrt q with q = x*x + y*y + z*z *)
  match goal with
  | Hs : ?n = sqrt ?q, Hq : ?q = ?s + ?zz, Hzz : ?zz = ?z * ?z, Hsum : ?s = ?xx + ?yy, Hyy : ?yy = ?y * ?y, Hxx : ?xx = ?x * ?x |- _ =>
      assert (Hq' : q = x * x + y * y + z * z) by (rewrite Hq, Hsum, Hxx, Hyy, Hzz; ring);
      assert (Hq0 : 0 <= q) by (rewrite Hq'; nra);
      assert (Hn2 : n * n = x * x + y * y + z * z) by (rewrite Hs, <- Hq'; apply sqrt_sqrt; exact Hq0);
      assert (Hn0 : 0 <= n) by (rewrite Hs; apply sqrt_pos);
      clear Hs Hq Hsum Hxx Hyy Hzz Hq' Hq0;
      (* forget how x, y, z are computed *)
      repeat match goal with H : x = _ |- _ => clear H | H : y = _ |- _ => clear H | H : z = _ |- _ => clear H end
  end.
  drop_rest.
  repeat match goal with H : ?v = _ |- _ => is_var v; lazymatch goal with |- context [v] => fail | H2 : context [v] |- _ => fail | _ => clear H end end.
  case_cmp.
  - (* farther than 2 m: rescaled to exactly 2 m *)
    repeat match goal with H : ?v = ?e |- _ => is_var v; subst v end.
    match goal with |- (?w0 + (2 * ?x / ?n + 0) - ?w0) * _ + (?w1 + (2 * ?y / ?n + 0) - ?w1) * _ + (?w2 + (2 * ?z / ?n + 0) - ?w2) * _ <= _ =>
      replace ((w0 + (2 * x / n + 0) - w0) * (w0 + (2 * x / n + 0) - w0) + (w1 + (2 * y / n + 0) - w1) * (w1 + (2 * y / n + 0) - w1) + (w2 + (2 * z / n + 0) - w2) * (w2 + (2 * z / n + 0) - w2))
        with (4 * (x * x + y * y + z * z) / (n * n)) by (field; lra);
      rewrite <- Hn2; right; field; lra
    end.
  - (* within 2 m: unchanged *)
    repeat match goal with H : ?v = ?e |- _ => is_var v; subst v end.
    match goal with |- (?w0 + (0 + ?x) - ?w0) * _ + (?w1 + (0 + ?y) - ?w1) * _ + (?w2 + (0 + ?z) - ?w2) * _ <= _ =>
      replace ((w0 + (0 + x) - w0) * (w0 + (0 + x) - w0) + (w1 + (0 + y) - w1) * (w1 + (0 + y) - w1) + (w2 + (0 + z) - w2) * (w2 + (0 + z) - w2))
        with (x * x + y * y + z * z) by ring;
      rewrite <- Hn2; nra
    end.
Qed.

(* ---------- attitude P-law: gains times the rotation vector of the attitude error ---------- *)
Lemma attitude_control_law k0 k1 k2 q0 q1 q2 q3 r0 r1 r2 r3 :
  let e := SO3Quat_log_v (SO3Quat_product_v (SO3Quat_inverse_v [q0; q1; q2; q3]) [r0; r1; r2; r3]) in
  rdd2_attitude_control k0 k1 k2 q0 q1 q2 q3 r0 r1 r2 r3 = [k0 * nth 0 e 0; k1 * nth 1 e 0; k2 * nth 2 e 0].
Proof. intro e. subst e. Rdd2_unfold. SO3Quat_unfold. list_eq; congr_ring. Qed.

(* ---------- the bounds are invariants of arbitrarily long runs ---------- *)
Lemma rate_wp_bridge kp0 kp1 kp2 ki0 ki1 ki2 kd0 kd1 kd2 fc im0 im1 im2 w0 w1 w2 wr0 wr1 wr2 i00 i01 i02 e00 e01 e02 de00 de01 de02 dt P :
  rdd2_attitude_rate_control_wp kp0 kp1 kp2 ki0 ki1 ki2 kd0 kd1 kd2 fc im0 im1 im2 w0 w1 w2 wr0 wr1 wr2 i00 i01 i02 e00 e01 e02 de00 de01 de02 dt P ->
  P (rdd2_attitude_rate_control kp0 kp1 kp2 ki0 ki1 ki2 kd0 kd1 kd2 fc im0 im1 im2 w0 w1 w2 wr0 wr1 wr2 i00 i01 i02 e00 e01 e02 de00 de01 de02 dt).
Proof. exact (fun H => H). Qed.

(* g = kp ki kd f_cut i_max (13 gains/limits), st = i e de (9 states), u = omega omega_r dt (7 inputs) *)
Definition rate_step (g : list R) (st : list R) (u : list R) : list R :=
  let r := rdd2_attitude_rate_control (nth 0 g 0) (nth 1 g 0) (nth 2 g 0) (nth 3 g 0) (nth 4 g 0) (nth 5 g 0) (nth 6 g 0) (nth 7 g 0) (nth 8 g 0) (nth 9 g 0) (nth 10 g 0) (nth 11 g 0) (nth 12 g 0) (nth 0 u 0) (nth 1 u 0) (nth 2 u 0) (nth 3 u 0) (nth 4 u 0) (nth 5 u 0) (nth 0 st 0) (nth 1 st 0) (nth 2 st 0) (nth 3 st 0) (nth 4 st 0) (nth 5 st 0) (nth 6 st 0) (nth 7 st 0) (nth 8 st 0) (nth 6 u 0) in
  [nth 3 r 0; nth 4 r 0; nth 5 r 0; nth 6 r 0; nth 7 r 0; nth 8 r 0; nth 9 r 0; nth 10 r 0; nth 11 r 0].
Definition int_in_box (g st : list R) : Prop :=
  - nth 10 g 0 <= nth 0 st 0 <= nth 10 g 0 /\ - nth 11 g 0 <= nth 1 st 0 <= nth 11 g 0 /\ - nth 12 g 0 <= nth 2 st 0 <= nth 12 g 0.

Lemma rate_step_in_box g st u : 0 <= nth 10 g 0 -> 0 <= nth 11 g 0 -> 0 <= nth 12 g 0 -> int_in_box g (rate_step g st u).
Proof.
  intros A B C. unfold rate_step, int_in_box. cbv zeta. cbn [nth].
  apply (rate_wp_bridge _ _ _ _ _ _ _ _ _ _ _ _ _ _ _ _ _ _ _ _ _ _ _ _ _ _ _ _ _ (fun r => _ <= nth 3 r 0 <= _ /\ _ <= nth 4 r 0 <= _ /\ _ <= nth 5 r 0 <= _)).
  apply rate_integrator_bounded; assumption.
Qed.

(* any run, of any length, from any initial state inside the box, with arbitrary measurements, set-points and time steps *)
Theorem rate_loop_invariant g us st : 0 <= nth 10 g 0 -> 0 <= nth 11 g 0 -> 0 <= nth 12 g 0 ->
  int_in_box g st -> int_in_box g (fold_left (rate_step g) us st).
Proof.
  intros A B C. revert st. induction us as [|u us IH]; intros st Hst; cbn [fold_left]; [exact Hst|].
  apply IH. apply rate_step_in_box; assumption.
Qed.
