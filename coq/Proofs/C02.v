(* C02: the group exponential, on units regenerated from cyecca/lie/group_so3.py etc.; series coefficients are the
   regenerated units of Gen/Series.v (facts in Proofs/SeriesFacts.v). *)
From Coq Require Import Reals List Lra Lia.
From Cyecca Require Import Base.Ops Base.Tactics Spec.Mat Gen.Series Gen.SO3Quat Gen.SO3Dcm Gen.SO3Mrp Gen.SO2 Gen.SE2 Proofs.SeriesFacts.
Import ListNotations.
Local Open Scope R_scope.

Definition nsq (v0 v1 v2 : R) := v0 * v0 + v1 * v1 + v2 * v2.

(* ---------- quaternion: structure, for every input (all cells) ---------- *)
Lemma quat_exp_struct v0 v1 v2 :
  SO3Quat_exp v0 v1 v2 =
  let u := nsq v0 v1 v2 / 4 in
  let c := hd 0 (sq_series_0 u) in let s := hd 0 (sq_series_1 u) / 2 in
  [c; s * v0; s * v1; s * v2].
Proof.
  cbv beta iota zeta delta [SO3Quat_exp sq_series_0 sq_series_1 hd nsq]. list_eq; congr_ring.
Qed.

(* exp(0) is the identity, exactly *)
Lemma quat_exp_zero : SO3Quat_exp 0 0 0 = SO3Quat_identity.
Proof.
  rewrite quat_exp_struct. cbv zeta. unfold nsq. replace ((0 * 0 + 0 * 0 + 0 * 0) / 4) with 0 by field.
  rewrite sq_cos_0, sq_sinc_0. cbv [hd SO3Quat_identity]. list_eq; field.
Qed.

(* exp(-x) is the inverse of exp(x), exactly, for every x *)
Lemma quat_exp_neg v0 v1 v2 :
  SO3Quat_exp (- v0) (- v1) (- v2) = SO3Quat_inverse_v (SO3Quat_exp v0 v1 v2).
Proof.
  rewrite !quat_exp_struct. cbv zeta. replace (nsq (- v0) (- v1) (- v2)) with (nsq v0 v1 v2) by (unfold nsq; ring).
  cbv [SO3Quat_inverse_v SO3Quat_inverse nth]. list_eq; ring.
Qed.

(* outside the small-angle cell the quaternion is (cos(theta/2), sin(theta/2) v/theta), exactly *)
Lemma sqrt_quarter t : 0 <= t -> sqrt (t / 4) = sqrt t / 2.
Proof.
  intro H. unfold Rdiv. rewrite sqrt_mult by lra. f_equal.
  replace (/ 4) with (/ 2 * / 2) by field. rewrite sqrt_square by lra. reflexivity.
Qed.
Lemma quat_exp_large v0 v1 v2 : 4 * eps <= nsq v0 v1 v2 ->
  let th := sqrt (nsq v0 v1 v2) in
  SO3Quat_exp v0 v1 v2 = [cos (th / 2); sin (th / 2) / th * v0; sin (th / 2) / th * v1; sin (th / 2) / th * v2].
Proof.
  intros H th. assert (Hp : 0 < nsq v0 v1 v2) by (unfold eps in H; lra).
  assert (Hth : 0 < th) by (apply sqrt_lt_R0; exact Hp).
  rewrite quat_exp_struct. cbv zeta.
  rewrite sq_cos_large by (rewrite Rabs_pos_eq; lra). rewrite sq_sinc_large by lra.
  cbv [hd]. rewrite sqrt_quarter by lra. fold th. list_eq; field; lra.
Qed.

(* ---------- Rodrigues' formula with coefficients (a, b): I + a [v]x + b [v]x^2 ---------- *)
Definition rod (a b : R) (v : list R) : list R :=
  madd (mid 3) (madd (mscale a (hat3 v)) (mscale b (mmul 3 3 3 (hat3 v) (hat3 v)))).

(* the rotation matrix of the large-cell quaternion is Rodrigues' formula with sin(theta)/theta, (1-cos theta)/theta^2 *)
Lemma quat_exp_is_rodrigues v0 v1 v2 : 4 * eps <= nsq v0 v1 v2 ->
  let th := sqrt (nsq v0 v1 v2) in
  SO3Quat_to_Matrix_v (SO3Quat_exp v0 v1 v2) = rod (sin th / th) ((1 - cos th) / (th * th)) [v0; v1; v2].
Proof.
  intros H th. rewrite quat_exp_large by exact H. fold th.
  assert (Hp : 0 < nsq v0 v1 v2) by (unfold eps in H; lra).
  assert (Hth : 0 < th) by (apply sqrt_lt_R0; exact Hp).
  assert (Hsq : th * th = v0 * v0 + v1 * v1 + v2 * v2) by (unfold th; rewrite sqrt_sqrt by lra; reflexivity).
  (* half-angle identities *)
  set (c := cos (th / 2)). set (s := sin (th / 2)).
  assert (Hs : sin th = 2 * s * c) by (unfold s, c; replace th with (2 * (th / 2)) at 1 by field; apply sin_2a).
  assert (Hc : cos th = 1 - 2 * s * s) by (unfold s; replace th with (2 * (th / 2)) at 1 by field; apply cos_2a_sin).
  assert (Hu : c * c + s * s = 1) by (unfold s, c; pose proof (sin2_cos2 (th / 2)) as Q; unfold Rsqr in Q; lra).
  rewrite Hs, Hc. SO3Quat_unfold. unfold rod. mat_cbv.
  list_eq; field_simplify_eq; try lra.
  all: cbn [pow]; revert Hsq Hu; generalize c s th; clear; intros; nsatzR.
Qed.

(* one-parameter subgroup of the closed form: rotations about a fixed unit axis compose by adding angles *)
Definition qcl (a n0 n1 n2 : R) : list R := [cos (a / 2); sin (a / 2) * n0; sin (a / 2) * n1; sin (a / 2) * n2].
Lemma qcl_compose a b n0 n1 n2 : n0 * n0 + n1 * n1 + n2 * n2 = 1 ->
  SO3Quat_product_v (qcl a n0 n1 n2) (qcl b n0 n1 n2) = qcl (a + b) n0 n1 n2.
Proof.
  intro Hn. unfold qcl. replace ((a + b) / 2) with (a / 2 + b / 2) by field. rewrite cos_plus, sin_plus.
  generalize (cos (a / 2)) (sin (a / 2)) (cos (b / 2)) (sin (b / 2)). intros ca sa cb sb.
  SO3Quat_unfold. list_eq; nsatzR.
Qed.
(* the large-cell quaternion is qcl theta (v/theta) *)
Lemma quat_exp_large_qcl v0 v1 v2 : 4 * eps <= nsq v0 v1 v2 ->
  let th := sqrt (nsq v0 v1 v2) in
  SO3Quat_exp v0 v1 v2 = qcl th (v0 / th) (v1 / th) (v2 / th) /\
  (v0 / th) * (v0 / th) + (v1 / th) * (v1 / th) + (v2 / th) * (v2 / th) = 1.
Proof.
  intros H th. assert (Hp : 0 < nsq v0 v1 v2) by (unfold eps in H; lra).
  assert (Hth : 0 < th) by (apply sqrt_lt_R0; exact Hp).
  assert (Hsq : th * th = v0 * v0 + v1 * v1 + v2 * v2) by (unfold th; rewrite sqrt_sqrt by lra; reflexivity).
  split.
  - rewrite quat_exp_large by exact H. fold th. unfold qcl. list_eq; field; lra.
  - field_simplify_eq; [|lra]. cbn [pow]. lra.
Qed.

(* ---------- DCM: Rodrigues with the series coefficients, for every input ---------- *)
Lemma dcm_exp_struct v0 v1 v2 :
  SO3Dcm_exp v0 v1 v2 = rod (hd 0 (sq_series_1 (nsq v0 v1 v2))) (hd 0 (sq_series_4 (nsq v0 v1 v2))) [v0; v1; v2].
Proof.
  cbv beta iota zeta delta [SO3Dcm_exp sq_series_1 sq_series_4 hd nsq]. unfold rod. mat_cbv. list_eq; congr_ring.
Qed.
Lemma dcm_exp_large v0 v1 v2 : eps <= nsq v0 v1 v2 ->
  let th := sqrt (nsq v0 v1 v2) in
  SO3Dcm_exp v0 v1 v2 = rod (sin th / th) ((1 - cos th) / (th * th)) [v0; v1; v2].
Proof.
  intros H th. assert (Hp : 0 < nsq v0 v1 v2) by (unfold eps in H; lra).
  rewrite dcm_exp_struct, sq_sinc_large, sq_cosm_large by exact H. cbv [hd]. fold th.
  replace (th * th) with (nsq v0 v1 v2) by (unfold th; rewrite sqrt_sqrt by lra; reflexivity). reflexivity.
Qed.
Lemma dcm_exp_zero : SO3Dcm_exp 0 0 0 = mid 3.
Proof.
  rewrite dcm_exp_struct. unfold nsq. replace (0 * 0 + 0 * 0 + 0 * 0) with 0 by ring.
  rewrite sq_sinc_0, sq_cosm_0. unfold rod. mat_cbv. list_eq; field.
Qed.
Lemma dcm_exp_neg v0 v1 v2 : SO3Dcm_exp (- v0) (- v1) (- v2) = mtrans 3 3 (SO3Dcm_exp v0 v1 v2).
Proof.
  rewrite !dcm_exp_struct. replace (nsq (- v0) (- v1) (- v2)) with (nsq v0 v1 v2) by (unfold nsq; ring).
  generalize (hd 0 (sq_series_1 (nsq v0 v1 v2))) (hd 0 (sq_series_4 (nsq v0 v1 v2))). intros a b.
  unfold rod. mat_cbv. list_eq; ring.
Qed.

(* ---------- SE(2): translation through V(theta) built from sin(x)/x and (1 - cos x)/x; rotation copied ---------- *)
Lemma se2_exp_struct x y th :
  SE2_exp x y th = let a := hd 0 (series_1 th) in let b := hd 0 (series_3 th) in [a * x - b * y; b * x + a * y; th].
Proof. cbv beta iota zeta delta [SE2_exp series_1 series_3 hd]. list_eq; congr_ring. Qed.
Lemma se2_exp_large x y th : eps <= Rabs th ->
  SE2_exp x y th = [sin th / th * x - (1 - cos th) / th * y; (1 - cos th) / th * x + sin th / th * y; th].
Proof. intro H. rewrite se2_exp_struct, sinc_large, cosm1_large by exact H. reflexivity. Qed.
Lemma se2_exp_zero_rotation x y : SE2_exp x y 0 = [x; y; 0].
Proof. rewrite se2_exp_struct, sinc_0, cosm1_0. cbv [hd]. list_eq; ring. Qed.

(* ---------- MRP: tan(theta/4)/theta * v, then the shadow switch ---------- *)
Lemma mrp_exp_struct v0 v1 v2 :
  SO3Mrp_exp v0 v1 v2 = let a := hd 0 (sq_series_16 (nsq v0 v1 v2)) in SO3Mrp_shadow_if_necessary (a * v0) (a * v1) (a * v2).
Proof. cbv beta iota zeta delta [SO3Mrp_exp SO3Mrp_shadow_if_necessary sq_series_16 hd nsq]. list_eq; congr_ring. Qed.
