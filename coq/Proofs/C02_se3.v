(* C02: SE(3) exponential = (J_l(omega) u, exp(omega)) on the regenerated units, for every input *)
From Coq Require Import Reals List Lra Lia.
From Cyecca Require Import Base.Ops Base.Tactics Spec.Mat Gen.so3 Gen.SO3Quat Gen.SO3Mrp Gen.SE3Quat Gen.SE3Mrp.
Import ListNotations.
Local Open Scope R_scope.

Lemma se3quat_exp_struct u0 u1 u2 w0 w1 w2 :
  SE3Quat_exp u0 u1 u2 w0 w1 w2 = mvec 3 3 (so3_left_jacobian w0 w1 w2) [u0; u1; u2] ++ SO3Quat_exp w0 w1 w2.
Proof.
  cbv beta iota zeta delta [SE3Quat_exp so3_left_jacobian SO3Quat_exp]. mat_cbv. list_eq; congr_ring.
Qed.
Lemma se3mrp_exp_struct u0 u1 u2 w0 w1 w2 :
  SE3Mrp_exp u0 u1 u2 w0 w1 w2 = mvec 3 3 (so3_left_jacobian w0 w1 w2) [u0; u1; u2] ++ SO3Mrp_exp w0 w1 w2.
Proof.
  cbv beta iota zeta delta [SE3Mrp_exp so3_left_jacobian SO3Mrp_exp]. mat_cbv. list_eq; congr_ring.
Qed.
