(* C07: SO(3) representation conversions on generated code *)
From Coq Require Import Reals List Lra Lia.
From Cyecca Require Import Base.Ops Base.Tactics Spec.Mat Spec.Rot Gen.SO3Quat Gen.SO3Mrp Gen.SO3Dcm Gen.SO3Euler
  Proofs.C01_SO3Quat Proofs.C01_SO3Mrp Proofs.C01_SO3Dcm Proofs.Shepperd Proofs.Conv.
Import ListNotations.
Local Open Scope R_scope.

(* quaternion -> DCM, MRP -> DCM: same matrix *)
Lemma dcm_from_quat q : len4 q -> SO3Dcm_to_Matrix_v (SO3Dcm_from_Quat_v q) = SO3Quat_to_Matrix_v q.
Proof. unfold len4. intro. explode. SO3Dcm_unfold. SO3Quat_unfold. list_eq; ring. Qed.
Lemma dcm_from_mrp r : len3 r -> SO3Dcm_to_Matrix_v (SO3Dcm_from_Mrp_v r) = SO3Mrp_to_Matrix_v r.
Proof.
  unfold len3. intro. explode. pose proof (sq_pos3 r0 r1 r2). SO3Dcm_unfold. SO3Mrp_unfold.
  list_eq; field; mrp_side.
Qed.
Lemma dcm_from_quat_proper q : unitq q -> proper_rotation (SO3Dcm_from_Quat_v q).
Proof.
  intro Hq. pose proof (quat_matrix_proper q Hq) as P. destruct Hq as [Hl _].
  rewrite <- (dcm_from_quat q Hl) in P. rewrite dcm_to_Matrix_id in P; [exact P|].
  unfold len4 in Hl. explode. reflexivity.
Qed.
Lemma dcm_from_mrp_proper r : len3 r -> proper_rotation (SO3Dcm_from_Mrp_v r).
Proof.
  intro Hr. pose proof (mrp_matrix_proper r Hr) as P.
  rewrite <- (dcm_from_mrp r Hr) in P. rewrite dcm_to_Matrix_id in P; [exact P|].
  unfold len3 in Hr. explode. reflexivity.
Qed.

(* DCM -> quaternion / MRP are the matrix entry points *)
Lemma quat_from_dcm R : length R = 9%nat -> SO3Quat_from_Dcm_v R = SO3Quat_from_Matrix_v R.
Proof. intro. explode. SO3Quat_unfold. reflexivity. Qed.
Lemma mrp_from_dcm R : length R = 9%nat -> SO3Mrp_from_Dcm_v R = SO3Mrp_from_Matrix_v R.
Proof. intro. explode. SO3Mrp_unfold. reflexivity. Qed.

(* 3-2-1 Euler angles: the matrix is a proper rotation ... *)
Lemma euler_matrix_proper e : length e = 3%nat -> proper_rotation (SO3Euler_to_Matrix_v e).
Proof.
  intro H. explode. SO3Euler_unfold.
  pose proof (sin2_cos2 r) as P0. pose proof (sin2_cos2 r0) as P1. pose proof (sin2_cos2 r1) as P2. unfold Rsqr in *.
  eexists _, _, _, _, _, _, _, _, _. split; [reflexivity|]. constructor; nsatzR.
Qed.
(* ... so Euler -> quaternion / MRP / DCM (all of which go through that matrix) preserve the rotation *)
Lemma quat_from_euler_factor e : length e = 3%nat -> SO3Quat_from_Euler_v e = SO3Quat_from_Matrix_v (SO3Euler_to_Matrix_v e).
Proof. intro. explode. SO3Quat_unfold. SO3Euler_unfold. list_eq; congr_ring. Qed.
Lemma mrp_from_euler_factor e : length e = 3%nat -> SO3Mrp_from_Euler_v e = SO3Mrp_from_Matrix_v (SO3Euler_to_Matrix_v e).
Proof. intro. explode. SO3Mrp_unfold. SO3Euler_unfold. list_eq; congr_ring. Qed.
Lemma dcm_from_euler_factor e : length e = 3%nat -> SO3Dcm_from_Euler_v e = SO3Dcm_from_Quat_v (SO3Quat_from_Euler_v e).
Proof. intro. explode. SO3Dcm_unfold. SO3Quat_unfold. reflexivity. Qed.

Lemma quat_from_euler e : length e = 3%nat ->
  SO3Quat_to_Matrix_v (SO3Quat_from_Euler_v e) = SO3Euler_to_Matrix_v e /\ norm2 (SO3Quat_from_Euler_v e) = 1.
Proof.
  intro H. rewrite (quat_from_euler_factor e H).
  destruct (from_Matrix_right_inverse _ (euler_matrix_proper e H)) as (A & B & _). split; assumption.
Qed.
Lemma mrp_from_euler e : length e = 3%nat ->
  SO3Mrp_to_Matrix_v (SO3Mrp_from_Euler_v e) = SO3Euler_to_Matrix_v e /\ norm2 (SO3Mrp_from_Euler_v e) <= 1.
Proof. intro H. rewrite (mrp_from_euler_factor e H). apply mrp_from_Matrix_right_inverse, euler_matrix_proper, H. Qed.
Lemma dcm_from_euler e : length e = 3%nat ->
  SO3Dcm_to_Matrix_v (SO3Dcm_from_Euler_v e) = SO3Euler_to_Matrix_v e.
Proof.
  intro H. rewrite (dcm_from_euler_factor e H).
  destruct (from_Matrix_right_inverse _ (euler_matrix_proper e H)) as (A & B & C & _).
  rewrite dcm_from_quat; [|rewrite quat_from_euler_factor by exact H; exact C].
  apply quat_from_euler, H.
Qed.

