(* C17: interface facts between the independently written allocator (rdd2) and plant (quadrotor) *)
From Coq Require Import Reals List Lra Lia.
From Cyecca Require Import Base.Ops Base.Tactics Base.Slice Spec.Mat Gen.Rdd2 Gen.Quadrotor Proofs.C16.
Import ListNotations.
Local Open Scope R_scope.

Ltac cut_at v := match goal with H : Eqn v _ |- _ => clear H end.

(* allocation outputs: omega[0:4], Fp_sum[4:8], F_moment[8:12], F_thrust[12:16], M_sat[16:19].
   The moment part of the allocation inverts the X-quad mixer on the saturated moment, sums to zero thrust,
   and the thrust part is uniform. *)
Lemma alloc_mixer_inverse F_max l Cm Ct T M0 M1 M2 : l <> 0 -> Cm <> 0 ->
  rdd2_control_allocation_wp F_max l Cm Ct T M0 M1 M2 (fun r =>
    l * (- nth 8 r 0 + nth 9 r 0 + nth 10 r 0 - nth 11 r 0) = nth 16 r 0 /\
    l * (- nth 8 r 0 + nth 9 r 0 - nth 10 r 0 + nth 11 r 0) = nth 17 r 0 /\
    Cm * (- nth 8 r 0 - nth 9 r 0 + nth 10 r 0 + nth 11 r 0) = nth 18 r 0 /\
    nth 8 r 0 + nth 9 r 0 + nth 10 r 0 + nth 11 r 0 = 0 /\
    nth 12 r 0 = nth 13 r 0 /\ nth 13 r 0 = nth 14 r 0 /\ nth 14 r 0 = nth 15 r 0).
Proof.
  intros Hl HC. wp_intro rdd2_control_allocation_wp. cbv beta iota zeta delta [nth]. all_eqns.
  match goal with |- _ = ?m0 /\ _ = ?m1 /\ _ = ?m2 /\ _ => cut_at m0; cut_at m1; cut_at m2 end.
  match goal with |- _ /\ _ /\ _ /\ _ /\ ?t0 = ?t1 /\ _ = ?t2 /\ _ = ?t3 =>
    slice t0 1%nat; slice t1 1%nat; slice t2 1%nat; slice t3 1%nat end.
  match goal with |- _ * (- ?a + ?b + ?c - ?d) = _ /\ _ => slice a 8%nat; slice b 8%nat; slice c 8%nat; slice d 8%nat end.
  drop_rest. subst. repeat split. all: try reflexivity. all: field; lra.
Qed.

(* the saturated moment and thrust the allocator works with lie in the advertised boxes *)
Lemma alloc_thrust_part F_max l Cm Ct T M0 M1 M2 : 0 <= F_max ->
  rdd2_control_allocation_wp F_max l Cm Ct T M0 M1 M2 (fun r =>
    0 <= 4 * nth 12 r 0 <= 4 * F_max /\ (0 <= T <= 4 * F_max -> 4 * nth 12 r 0 = T)).
Proof.
  intro HF. wp_intro rdd2_control_allocation_wp. cbv beta iota zeta delta [nth]. all_eqns.
  match goal with |- _ <= 4 * ?t <= _ /\ _ => slice t 8%nat end. drop_rest.
  split; [|intro HT]; cases; lra.
Qed.

(* plant side: with the X geometry (arms at -a, pi-a, a, a-pi; spin directions +,+,-,-) the rotor sum of C16
   realises the mixer the allocator inverts, scaled by sin a / cos a on roll / pitch *)
Lemma xquad_rotor_sum l CM s c T0 T1 T2 T3 Mx My Mz :
  l * (- T0 + T1 + T2 - T3) = Mx -> l * (- T0 + T1 - T2 + T3) = My -> CM * (- T0 - T1 + T2 + T3) = Mz ->
  [l * (- s) * T0 + l * s * T1 + l * s * T2 + l * (- s) * T3;
   - (l * c * T0 + l * (- c) * T1 + l * c * T2 + l * (- c) * T3);
   - CM * (1 * T0 + 1 * T1 + (-1) * T2 + (-1) * T3)] = [s * Mx; c * My; Mz].
Proof. intros <- <- <-. list_eq; ring. Qed.

(* the two halves joined on the regenerated plant: at zero body rate, with rotor thrusts T_i = CT m_i^2 that satisfy
   the allocator's mixer relations for (Mx, My, Mz), the plant's angular acceleration is J^-1 (s Mx, c My, Mz):
   same axes, same signs, positive scale. *)
Section Interface.
Variables (tau_up tau_down l th0 th1 th2 th3 CT CM Cl_p Cm_q Cn_r CD0 S rho g m Jx Jy Jz : R).
Variables (n0 n1 n2 n3 n4 n5 n6 n7 n8 n9 n10 n11 : R).
Lemma interface_alloc_plant s c px py pz vx vy vz q0 q1 q2 q3 m0 m1 m2 m3 u0 u1 u2 u3 Mx My Mz :
  Jx <> 0 -> Jy <> 0 -> Jz <> 0 ->
  sin th0 = - s -> sin th1 = s -> sin th2 = s -> sin th3 = - s ->
  cos th0 = c -> cos th1 = - c -> cos th2 = c -> cos th3 = - c ->
  let T0 := CT * (m0 * m0) in let T1 := CT * (m1 * m1) in let T2 := CT * (m2 * m2) in let T3 := CT * (m3 * m3) in
  l * (- T0 + T1 + T2 - T3) = Mx -> l * (- T0 + T1 - T2 + T3) = My -> CM * (- T0 - T1 + T2 + T3) = Mz ->
  let r := quad_f px py pz vx vy vz q0 q1 q2 q3 0 0 0 m0 m1 m2 m3 u0 u1 u2 u3
             tau_up tau_down 1 1 (-1) (-1) l l l l th0 th1 th2 th3 CT CM Cl_p Cm_q Cn_r CD0 S rho g m Jx Jy Jz
             n0 n1 n2 n3 n4 n5 n6 n7 n8 n9 n10 n11 in
  [Jx * nth 10 r 0; Jy * nth 11 r 0; Jz * nth 12 r 0] = [s * Mx; c * My; Mz].
Proof.
  intros HJx HJy HJz S0 S1 S2 S3 C0 C1 C2 C3 T0 T1 T2 T3 HMx HMy HMz r.
  rewrite <- HMx, <- HMy, <- HMz.
  repeat match goal with r := _ |- _ => subst r end.
  cbv beta iota zeta delta [quad_f nth]. rewrite S0, S1, S2, S3, C0, C1, C2, C3.
  list_eq; field; assumption.
Qed.
End Interface.

(* the moment the allocator works with is the demanded moment clamped, component by component, to [-M_max, M_max] with
   M_max = l (4 F_max) / 2 (both signs: a demand below -M_max becomes -M_max, not +M_max) *)
Definition clampR (b m : R) : R := Rmax (- b) (Rmin m b).
Lemma alloc_msat_is_clamp F_max l Cm Ct T M0 M1 M2 : 0 <= F_max -> 0 <= l ->
  rdd2_control_allocation_wp F_max l Cm Ct T M0 M1 M2 (fun r =>
    let b := l * (4 * F_max) / 2 in
    [nth 16 r 0; nth 17 r 0; nth 18 r 0] = [clampR b M0; clampR b M1; clampR b M2]).
Proof.
  intros HF Hl. wp_intro rdd2_control_allocation_wp.
  match goal with b := _ |- _ => subst b end.
  cbv beta iota zeta delta [nth]. all_eqns.
  assert (Hb : 0 <= l * (4 * F_max) / 2) by nra.
  list_eq.
  all: match goal with |- ?m = _ => slice m 8%nat end; drop_rest; cases; subst; unfold clampR, Rmin;
       match goal with |- context [Rle_dec ?a ?b] => destruct (Rle_dec a b) end; unfold Rmax;
       match goal with |- context [Rle_dec ?a ?b] => destruct (Rle_dec a b) end; lra.
Qed.
