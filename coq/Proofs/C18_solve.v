(* C18: boundary-value solvers and trajectory functions *)
From Coq Require Import Reals List Lra.
From Coquelicot Require Import Coquelicot.
From Cyecca Require Import Base.Ops Base.Tactics Spec.Mat Gen.Bezier.
Import ListNotations.
Local Open Scope R_scope.

(* cubic: position and velocity at both ends *)
Lemma bezier3_boundary a0 a1 b0 b1 T : T <> 0 ->
  let P := bezier3_solve a0 a1 b0 b1 T in
  firstn 2 (bezier3_traj_v [0] [T] P) = [a0; a1] /\ firstn 2 (bezier3_traj_v [T] [T] P) = [b0; b1].
Proof. intros HT P. subst P. Bezier_unfold. cbn [firstn]. split; list_eq; field; assumption. Qed.

(* septic: position, velocity, acceleration and jerk at both ends *)
Lemma bezier7_boundary a0 a1 a2 a3 b0 b1 b2 b3 T : T <> 0 ->
  let P := bezier7_solve a0 a1 a2 a3 b0 b1 b2 b3 T in
  firstn 4 (bezier7_traj_v [0] [T] P) = [a0; a1; a2; a3] /\ firstn 4 (bezier7_traj_v [T] [T] P) = [b0; b1; b2; b3].
Proof. intros HT P. subst P. Bezier_unfold. cbn [firstn]. split; list_eq; field; assumption. Qed.

(* the stacked multirotor trajectory is the scalar trajectories side by side *)
Lemma multirotor_is_stack t T x0 x1 x2 x3 x4 x5 x6 x7 y0 y1 y2 y3 y4 y5 y6 y7 z0 z1 z2 z3 z4 z5 z6 z7 s0 s1 s2 s3 :
  let X := bezier7_traj t T x0 x1 x2 x3 x4 x5 x6 x7 in
  let Y := bezier7_traj t T y0 y1 y2 y3 y4 y5 y6 y7 in
  let Z := bezier7_traj t T z0 z1 z2 z3 z4 z5 z6 z7 in
  let S := bezier3_traj t T s0 s1 s2 s3 in
  bezier_multirotor t T x0 x1 x2 x3 x4 x5 x6 x7 y0 y1 y2 y3 y4 y5 y6 y7 z0 z1 z2 z3 z4 z5 z6 z7 s0 s1 s2 s3 =
  [nth 0 X 0; nth 0 Y 0; nth 0 Z 0; nth 0 S 0; nth 1 S 0; nth 2 S 0;
   nth 1 X 0; nth 1 Y 0; nth 1 Z 0; nth 2 X 0; nth 2 Y 0; nth 2 Z 0;
   nth 3 X 0; nth 3 Y 0; nth 3 Z 0; nth 4 X 0; nth 4 Y 0; nth 4 Z 0].
Proof. intros. subst X Y Z S. Bezier_unfold. reflexivity. Qed.
