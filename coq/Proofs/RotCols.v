(* a matrix whose second and third columns are orthonormal and whose first column is their cross product
   is a proper rotation (all facts of Spec/Rot.v) *)
From Coq Require Import Reals List Lra.
From Cyecca Require Import Base.Ops Base.Tactics Spec.Mat Spec.Rot.
Local Open Scope R_scope.
Lemma rotfacts_of_cols r00 r10 r20 r01 r11 r21 r02 r12 r22 :
  r00 = r11 * r22 - r21 * r12 -> r10 = r21 * r02 - r01 * r22 -> r20 = r01 * r12 - r11 * r02 ->
  r01 * r01 + r11 * r11 + r21 * r21 = 1 -> r02 * r02 + r12 * r12 + r22 * r22 = 1 ->
  r01 * r02 + r11 * r12 + r21 * r22 = 0 ->
  rotfacts r00 r10 r20 r01 r11 r21 r02 r12 r22.
Proof.
  intros Hx0 Hx1 Hx2 Hy Hz Hyz. constructor; try assumption; subst r00 r10 r20; nsatzR.
Qed.
