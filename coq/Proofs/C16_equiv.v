(* C16: equivariance of the quadrotor dynamics under rotation of the world frame about the vertical *)
From Coq Require Import Reals List Lra Lia.
From Cyecca Require Import Base.Ops Base.Tactics Gen.Quadrotor Proofs.C16.
Import ListNotations.
Local Open Scope R_scope.

Section Equiv.
Variables (tau_up tau_down d0 d1 d2 d3 l0 l1 l2 l3 th0 th1 th2 th3 CT CM Cl_p Cm_q Cn_r CD0 S rho g m Jx Jy Jz : R).
Variables (n0 n1 n2 n3 n4 n5 n6 n7 n8 n9 n10 n11 : R).
Notation FF := (F tau_up tau_down d0 d1 d2 d3 l0 l1 l2 l3 th0 th1 th2 th3 CT CM Cl_p Cm_q Cn_r CD0 S rho g m Jx Jy Jz
                  n0 n1 n2 n3 n4 n5 n6 n7 n8 n9 n10 n11).


(* rotate the world frame about z by the unit quaternion (c,0,0,s):
   position -> Rz p, attitude -> (c,0,0,s) (x) q, body-frame quantities unchanged.
   Then f(g.x) = g.f(x): pdot -> Rz pdot, qdot -> (c,0,0,s) (x) qdot, the rest unchanged. *)
Lemma yaw_equivariant c s px py pz vx vy vz q0 q1 q2 q3 wx wy wz m0 m1 m2 m3 u0 u1 u2 u3 :
  c * c + s * s = 1 ->
  let r  := FF px py pz vx vy vz q0 q1 q2 q3 wx wy wz m0 m1 m2 m3 u0 u1 u2 u3 in
  let r' := FF ((c*c - s*s) * px - 2*c*s * py) (2*c*s * px + (c*c - s*s) * py) pz vx vy vz
               (c*q0 - s*q3) (c*q1 - s*q2) (c*q2 + s*q1) (c*q3 + s*q0)
               wx wy wz m0 m1 m2 m3 u0 u1 u2 u3 in
  r' = [ (c*c - s*s) * nth 0 r 0 - 2*c*s * nth 1 r 0;  2*c*s * nth 0 r 0 + (c*c - s*s) * nth 1 r 0; nth 2 r 0;
         nth 3 r 0; nth 4 r 0; nth 5 r 0;
         c * nth 6 r 0 - s * nth 9 r 0; c * nth 7 r 0 - s * nth 8 r 0; c * nth 8 r 0 + s * nth 7 r 0; c * nth 9 r 0 + s * nth 6 r 0;
         nth 10 r 0; nth 11 r 0; nth 12 r 0; nth 13 r 0; nth 14 r 0; nth 15 r 0; nth 16 r 0 ].
Proof.
  intros Hcs r r'. subst r r'. unfold F.
  cbv beta iota zeta delta [quad_f nth].
  assert (Hs2 : s * s = 1 - c * c) by lra.
  assert (Hg : pz < 0 \/ 0 <= pz) by (destruct (Rlt_dec pz 0); [left|right]; lra).
  destruct Hg as [Hg|Hg];
  [ rewrite !(op_lt_true pz 0) by assumption | rewrite !(op_lt_false pz 0) by assumption ];
  simp_bools_goal;
  (list_eq; abstract_ifz; try reflexivity; try (unfold Rdiv; ring));
  clear Hs2 Hg; unfold Rdiv; generalize (/ m); intro im; nsatzR.
Qed.

End Equiv.
