(* C16, last clause: each motor speed relaxes monotonically toward a constant command with the spin-up or
   spin-down time constant.  The closed form m(t) = u + (m0 - u) exp(-t/tau), tau chosen by the code's own
   comparison at t = 0, solves the generated motor equation for all t (so the branch never changes along the
   solution), starts at m0, stays on its side of u and |m(t) - u| is non-increasing. *)
From Coq Require Import Reals List Lra.
From Coquelicot Require Import Coquelicot.
From Cyecca Require Import Base.Ops Gen.Quadrotor Proofs.C16.
Import ListNotations.
Local Open Scope R_scope.

Lemma relax_lim m0 u0 tau : 0 < tau -> is_lim (fun t => u0 + (m0 - u0) * exp (- t / tau)) p_infty u0.
Proof.
  intro Ht.
  replace (Finite u0) with (Rbar_plus u0 (Rbar_mult (m0 - u0) 0)) by (simpl; f_equal; ring).
  apply is_lim_plus'. apply is_lim_const.
  apply (is_lim_scal_l (fun t => exp (- t / tau)) (m0 - u0) p_infty (Finite 0)).
  apply is_lim_comp with m_infty.
  - apply is_lim_exp_m.
  - replace m_infty with (Rbar_mult (Finite (- / tau)) p_infty).
    + eapply is_lim_ext; [| apply is_lim_scal_l; apply is_lim_id ]. intro y. simpl. unfold Rdiv. ring.
    + simpl. destruct (Rle_dec 0 (- / tau)) as [H|H].
      * exfalso. pose proof (Rinv_0_lt_compat tau Ht). lra.
      * reflexivity.
  - exists 0. intros. discriminate.
Qed.

Section P.
Variables (tau_up tau_down d0 d1 d2 d3 l0 l1 l2 l3 th0 th1 th2 th3 CT CM Cl_p Cm_q Cn_r CD0 S rho g m Jx Jy Jz : R).
Variables (n0 n1 n2 n3 n4 n5 n6 n7 n8 n9 n10 n11 : R).
Notation f := (fun px py pz vx vy vz q0 q1 q2 q3 wx wy wz m0 m1 m2 m3 u0 u1 u2 u3 =>
  quad_f px py pz vx vy vz q0 q1 q2 q3 wx wy wz m0 m1 m2 m3 u0 u1 u2 u3
    tau_up tau_down d0 d1 d2 d3 l0 l1 l2 l3 th0 th1 th2 th3 CT CM Cl_p Cm_q Cn_r CD0 S rho g m Jx Jy Jz
    n0 n1 n2 n3 n4 n5 n6 n7 n8 n9 n10 n11).

Definition motor_tau (m0 u0 : R) : R := if Rlt_dec m0 u0 then tau_up else tau_down.
Definition motor_sol (m0 u0 t : R) : R := u0 + (m0 - u0) * exp (- t / motor_tau m0 u0).

Lemma motor_sol_0 m0 u0 : motor_sol m0 u0 0 = m0.
Proof. unfold motor_sol. replace (- 0 / motor_tau m0 u0) with 0 by (unfold Rdiv; ring). rewrite exp_0. ring. Qed.

Lemma motor_sol_side m0 u0 t : motor_sol m0 u0 t < u0 <-> m0 < u0.
Proof.
  unfold motor_sol. pose proof (exp_pos (- t / motor_tau m0 u0)) as He.
  split; intro H.
  - destruct (Rlt_dec m0 u0) as [|Hn]; [assumption|]. exfalso.
    assert (0 <= (m0 - u0) * exp (- t / motor_tau m0 u0)) by (apply Rmult_le_pos; lra). lra.
  - assert ((m0 - u0) * exp (- t / motor_tau m0 u0) < 0); [|lra].
    replace 0 with (0 * exp (- t / motor_tau m0 u0)) by ring. apply Rmult_lt_compat_r; lra.
Qed.

Lemma motor_sol_solves : 0 < tau_up -> 0 < tau_down ->
  forall px py pz vx vy vz q0 q1 q2 q3 wx wy wz m0 m1 m2 m3 u0 u1 u2 u3 t,
  is_derive (motor_sol m0 u0) t
    (nth 13 (f px py pz vx vy vz q0 q1 q2 q3 wx wy wz (motor_sol m0 u0 t) m1 m2 m3 u0 u1 u2 u3) 0).
Proof.
  intros Hup Hdn px py pz vx vy vz q0 q1 q2 q3 wx wy wz m0 m1 m2 m3 u0 u1 u2 u3 t.
  rewrite (motor0_independent tau_up tau_down d0 d1 d2 d3 l0 l1 l2 l3 th0 th1 th2 th3 CT CM Cl_p Cm_q Cn_r CD0 S rho g m Jx Jy Jz n0 n1 n2 n3 n4 n5 n6 n7 n8 n9 n10 n11).
  assert (Htau : 0 < motor_tau m0 u0) by (unfold motor_tau; destruct (Rlt_dec m0 u0); assumption).
  assert (Hrhs : (if Rlt_dec (motor_sol m0 u0 t) u0 then (u0 - motor_sol m0 u0 t) / tau_up
                  else (u0 - motor_sol m0 u0 t) / tau_down) = (u0 - motor_sol m0 u0 t) / motor_tau m0 u0).
  { unfold motor_tau at 1. pose proof (motor_sol_side m0 u0 t) as Hs.
    destruct (Rlt_dec (motor_sol m0 u0 t) u0) as [H1|H1]; destruct (Rlt_dec m0 u0) as [H2|H2]; try reflexivity; tauto. }
  rewrite Hrhs. unfold motor_sol at 1 2.
  generalize dependent (motor_tau m0 u0). intros tau Htau _.
  auto_derive; [exact I|]. unfold Rdiv. generalize (exp (- t * / tau)). intro e. field. lra.
Qed.

Lemma motor_sol_monotone : 0 < tau_up -> 0 < tau_down -> forall m0 u0 s t, s <= t ->
  Rabs (motor_sol m0 u0 t - u0) <= Rabs (motor_sol m0 u0 s - u0).
Proof.
  intros Hup Hdn m0 u0 s t Hst.
  assert (Htau : 0 < motor_tau m0 u0) by (unfold motor_tau; destruct (Rlt_dec m0 u0); assumption).
  unfold motor_sol. generalize dependent (motor_tau m0 u0). intros tau Htau.
  replace (u0 + (m0 - u0) * exp (- t / tau) - u0) with ((m0 - u0) * exp (- t / tau)) by ring.
  replace (u0 + (m0 - u0) * exp (- s / tau) - u0) with ((m0 - u0) * exp (- s / tau)) by ring.
  rewrite !Rabs_mult, !(Rabs_pos_eq (exp _)) by (left; apply exp_pos).
  apply Rmult_le_compat_l; [apply Rabs_pos|].
  destruct (Req_dec s t) as [->|Hne]; [lra|]. left. apply exp_increasing.
  unfold Rdiv. apply Rmult_lt_compat_r; [apply Rinv_0_lt_compat; assumption | lra].
Qed.

(* it reaches the command in the limit *)
Lemma motor_sol_bound : 0 < tau_up -> 0 < tau_down -> forall m0 u0 t, 0 <= t ->
  Rabs (motor_sol m0 u0 t - u0) <= Rabs (m0 - u0).
Proof.
  intros Hup Hdn m0 u0 t Ht. rewrite <- (motor_sol_0 m0 u0) at 2. apply motor_sol_monotone; assumption.
Qed.
Lemma motor_sol_lim : 0 < tau_up -> 0 < tau_down -> forall m0 u0, is_lim (motor_sol m0 u0) p_infty u0.
Proof.
  intros Hup Hdn m0 u0. unfold motor_sol. apply relax_lim.
  unfold motor_tau; destruct (Rlt_dec m0 u0); assumption.
Qed.
End P.
