(* C18: trajectory rows are successive exact derivatives *)
From Coq Require Import Reals List Lra.
From Coquelicot Require Import Coquelicot.
From Cyecca Require Import Base.Ops Base.Tactics Spec.Mat Gen.Bezier.
Import ListNotations.
Local Open Scope R_scope.

(* trajectory rows are the curve and its exact successive time derivatives *)
Lemma bezier3_traj_rows p0 p1 p2 p3 T t : T <> 0 ->
  nth 0 (bezier3_traj t T p0 p1 p2 p3) 0 = nth 0 (bez_eval_3_1 p0 p1 p2 p3 T t) 0 /\
  is_derive (fun t => nth 0 (bezier3_traj t T p0 p1 p2 p3) 0) t (nth 1 (bezier3_traj t T p0 p1 p2 p3) 0) /\
  is_derive (fun t => nth 1 (bezier3_traj t T p0 p1 p2 p3) 0) t (nth 2 (bezier3_traj t T p0 p1 p2 p3) 0).
Proof.
  intro HT. Bezier_unfold. split; [reflexivity|].
  split; (auto_derive; [first [exact I | repeat split; assumption] | field; assumption]).
Qed.

Lemma bezier7_traj_rows p0 p1 p2 p3 p4 p5 p6 p7 T t : T <> 0 ->
  nth 0 (bezier7_traj t T p0 p1 p2 p3 p4 p5 p6 p7) 0 = nth 0 (bez_eval_7_1 p0 p1 p2 p3 p4 p5 p6 p7 T t) 0 /\
  is_derive (fun t => nth 0 (bezier7_traj t T p0 p1 p2 p3 p4 p5 p6 p7) 0) t (nth 1 (bezier7_traj t T p0 p1 p2 p3 p4 p5 p6 p7) 0) /\
  is_derive (fun t => nth 1 (bezier7_traj t T p0 p1 p2 p3 p4 p5 p6 p7) 0) t (nth 2 (bezier7_traj t T p0 p1 p2 p3 p4 p5 p6 p7) 0) /\
  is_derive (fun t => nth 2 (bezier7_traj t T p0 p1 p2 p3 p4 p5 p6 p7) 0) t (nth 3 (bezier7_traj t T p0 p1 p2 p3 p4 p5 p6 p7) 0) /\
  is_derive (fun t => nth 3 (bezier7_traj t T p0 p1 p2 p3 p4 p5 p6 p7) 0) t (nth 4 (bezier7_traj t T p0 p1 p2 p3 p4 p5 p6 p7) 0).
Proof.
  intro HT. Bezier_unfold. split; [reflexivity|].
  split; [|split; [|split]]; (auto_derive; [first [exact I | repeat split; assumption] | field; assumption]).
Qed.

