(* C01 for SO(3) in DCM form on generated code *)
From Coq Require Import Reals List Lra Lia.
From Cyecca Require Import Base.Ops Base.Tactics Spec.Mat Spec.Rot Gen.SO3Dcm.
Import ListNotations.
Local Open Scope R_scope.

Definition len9 (a : list R) : Prop := length a = 9%nat.

Lemma dcm_hom : hom_law 3 SO3Dcm_product_v SO3Dcm_to_Matrix_v len9.
Proof. intros a b Ha Hb. unfold len9 in *. explode. SO3Dcm_unfold. mat_cbv. list_eq; ring. Qed.

Lemma dcm_to_Matrix_id a : len9 a -> SO3Dcm_to_Matrix_v a = a.
Proof. unfold len9. intro. explode. SO3Dcm_unfold. reflexivity. Qed.

Lemma dcm_inv : inv_law 3 SO3Dcm_inverse_v SO3Dcm_to_Matrix_v proper_rotation.
Proof.
  intros a (r00 & r10 & r20 & r01 & r11 & r21 & r02 & r12 & r22 & -> & H). rot_facts H.
  SO3Dcm_unfold. mat_cbv. split; list_eq; lra.
Qed.

Lemma dcm_id : id_law 3 SO3Dcm_product_v SO3Dcm_identity_v SO3Dcm_to_Matrix_v len9.
Proof.
  split; [|split].
  - SO3Dcm_unfold. mat_cbv. reflexivity.
  - reflexivity.
  - intros a Ha. unfold len9 in *. explode. SO3Dcm_unfold. split; list_eq; ring.
Qed.

Lemma dcm_identity_proper : proper_rotation SO3Dcm_identity_v.
Proof. replace SO3Dcm_identity_v with (mid 3); [apply proper_rotation_id | SO3Dcm_unfold; mat_cbv; reflexivity]. Qed.

Lemma dcm_id_param : id_param_law SO3Dcm_product_v SO3Dcm_identity_v len9.
Proof. intros a Ha. unfold len9 in *. explode. SO3Dcm_unfold. split; list_eq; ring. Qed.

Lemma dcm_assoc_param a b c : len9 a -> len9 b -> len9 c ->
  SO3Dcm_product_v (SO3Dcm_product_v a b) c = SO3Dcm_product_v a (SO3Dcm_product_v b c).
Proof. unfold len9. intros. explode. SO3Dcm_unfold. list_eq; ring. Qed.

Lemma dcm_fromM a : len9 a -> SO3Dcm_from_Matrix_v (SO3Dcm_to_Matrix_v a) = a.
Proof. unfold len9. intro. explode. SO3Dcm_unfold. reflexivity. Qed.

(* the inverse of a proper rotation is a proper rotation *)
Lemma dcm_inverse_proper a : proper_rotation a -> proper_rotation (SO3Dcm_inverse_v a).
Proof.
  intros (r00 & r10 & r20 & r01 & r11 & r21 & r02 & r12 & r22 & -> & H). rot_facts H.
  SO3Dcm_unfold. eexists _, _, _, _, _, _, _, _, _. split; [reflexivity|]. constructor; lra.
Qed.
