(* C01, DCM closure: the product of two proper rotations (as SO3Dcm computes it) is a proper rotation.
   [rotfacts_of_orthonormal] derives the full fact set of Spec.Rot (cofactor identities, row facts) from
   orthonormal columns and det = 1, so closure needs only (AB)^T (AB) = I and det (AB) = 1.
   No list literals in this file: Nsatz is imported (it clashes with the list notation). *)
From Coq Require Import Reals List Lra Lia.
From Cyecca Require Import Base.Ops Base.Tactics Spec.Mat Spec.Rot Gen.SO3Dcm.
Require Import Nsatz.
Local Open Scope R_scope.

Lemma rotfacts_of_orthonormal r00 r10 r20 r01 r11 r21 r02 r12 r22 :
  r00 * r00 + r10 * r10 + r20 * r20 = 1 -> r01 * r01 + r11 * r11 + r21 * r21 = 1 ->
  r02 * r02 + r12 * r12 + r22 * r22 = 1 ->
  r00 * r01 + r10 * r11 + r20 * r21 = 0 -> r00 * r02 + r10 * r12 + r20 * r22 = 0 ->
  r01 * r02 + r11 * r12 + r21 * r22 = 0 ->
  r00 * (r11 * r22 - r12 * r21) - r01 * (r10 * r22 - r12 * r20) + r02 * (r10 * r21 - r11 * r20) = 1 ->
  rotfacts r00 r10 r20 r01 r11 r21 r02 r12 r22.
Proof.
  intros n0 n1 n2 d01 d02 d12 dt.
  constructor; try assumption.
  all: timeout 100 nsatz.
Qed.

Lemma dcm_product_proper a b : proper_rotation a -> proper_rotation b -> proper_rotation (SO3Dcm_product_v a b).
Proof.
  intros (a00 & a10 & a20 & a01 & a11 & a21 & a02 & a12 & a22 & -> & Ha)
         (b00 & b10 & b20 & b01 & b11 & b21 & b02 & b12 & b22 & -> & Hb).
  pose proof (rf_n0 _ _ _ _ _ _ _ _ _ Ha) as An0. pose proof (rf_n1 _ _ _ _ _ _ _ _ _ Ha) as An1.
  pose proof (rf_n2 _ _ _ _ _ _ _ _ _ Ha) as An2. pose proof (rf_d01 _ _ _ _ _ _ _ _ _ Ha) as Ad01.
  pose proof (rf_d02 _ _ _ _ _ _ _ _ _ Ha) as Ad02. pose proof (rf_d12 _ _ _ _ _ _ _ _ _ Ha) as Ad12.
  pose proof (rf_det _ _ _ _ _ _ _ _ _ Ha) as Adt.
  pose proof (rf_n0 _ _ _ _ _ _ _ _ _ Hb) as Bn0. pose proof (rf_n1 _ _ _ _ _ _ _ _ _ Hb) as Bn1.
  pose proof (rf_n2 _ _ _ _ _ _ _ _ _ Hb) as Bn2. pose proof (rf_d01 _ _ _ _ _ _ _ _ _ Hb) as Bd01.
  pose proof (rf_d02 _ _ _ _ _ _ _ _ _ Hb) as Bd02. pose proof (rf_d12 _ _ _ _ _ _ _ _ _ Hb) as Bd12.
  pose proof (rf_det _ _ _ _ _ _ _ _ _ Hb) as Bdt.
  clear Ha Hb.
  SO3Dcm_unfold. eexists _, _, _, _, _, _, _, _, _. split; [reflexivity|].
  apply rotfacts_of_orthonormal.
  7: { clear An0 An1 An2 Ad01 Ad02 Ad12 Bn0 Bn1 Bn2 Bd01 Bd02 Bd12. timeout 100 nsatz. }
  all: clear Adt Bdt; timeout 100 nsatz.
Qed.
