(* Conversions between quaternion and MRP on generated code; shadow switch.  Used by C01, C07, C11. *)
From Coq Require Import Reals List Lra Lia.
From Cyecca Require Import Base.Ops Base.Tactics Spec.Mat Spec.Rot Gen.SO3Mrp Gen.SO3Quat
  Proofs.C01_SO3Quat Proofs.C01_SO3Mrp Proofs.Shepperd.
Import ListNotations.
Local Open Scope R_scope.

(* ---------- shadow switch ---------- *)
Lemma shadow_inside r : len3 r -> norm2 r <= 1 -> SO3Mrp_shadow_if_necessary_v r = r.
Proof.
  unfold len3. intro Hr. explode. mat_cbv. rewrite Rplus_0_r. intro Hn.
  SO3Mrp_unfold. decide_bools. list_eq; ring.
Qed.

Lemma shadow_outside r : len3 r -> 1 < norm2 r ->
  SO3Mrp_shadow_if_necessary_v r = map (fun x => - (x / norm2 r)) r.
Proof.
  unfold len3. intro Hr. explode. mat_cbv. rewrite Rplus_0_r. intro Hn.
  SO3Mrp_unfold. decide_bools. list_eq; field; lra.
Qed.

Lemma shadow_len r : len3 r -> len3 (SO3Mrp_shadow_if_necessary_v r).
Proof. unfold len3. intro. explode. reflexivity. Qed.

(* the shadow switch never changes the rotation ... *)
Lemma shadow_same_rotation r : len3 r ->
  SO3Mrp_to_Matrix_v (SO3Mrp_shadow_if_necessary_v r) = SO3Mrp_to_Matrix_v r.
Proof.
  intro Hr. destruct (Rle_dec (norm2 r) 1) as [Hin|Hout].
  - rewrite shadow_inside by assumption. reflexivity.
  - rewrite shadow_outside by (assumption || lra).
    unfold len3 in Hr. explode. revert Hout. mat_cbv. rewrite Rplus_0_r. intro Hout.
    SO3Mrp_unfold. list_eq; field; repeat split; nra.
Qed.

(* ... and returns the representative inside the unit ball *)
Lemma shadow_in_ball r : len3 r -> norm2 (SO3Mrp_shadow_if_necessary_v r) <= 1.
Proof.
  intro Hr. destruct (Rle_dec (norm2 r) 1) as [Hin|Hout].
  - rewrite shadow_inside by assumption. assumption.
  - rewrite shadow_outside by (assumption || lra).
    unfold len3 in Hr. explode. revert Hout. mat_cbv. rewrite Rplus_0_r. intro Hout.
    set (n := r0 * r0 + (r1 * r1 + r2 * r2)) in *.
    assert (Hn : 1 < n) by lra.
    replace (- (r0 / n) * - (r0 / n) + (- (r1 / n) * - (r1 / n) + (- (r2 / n) * - (r2 / n) + 0))) with (/ n).
    + rewrite <- Rinv_1. apply Rlt_le, Rinv_lt_contravar; lra.
    + unfold n. field. fold n. lra.
Qed.

(* ---------- MRP from quaternion ---------- *)
Lemma mrp_from_quat_factor q : length q = 4%nat ->
  SO3Mrp_from_Quat_v q =
  SO3Mrp_shadow_if_necessary_v [nth 1 q 0 / (1 + nth 0 q 0); nth 2 q 0 / (1 + nth 0 q 0); nth 3 q 0 / (1 + nth 0 q 0)].
Proof. intro Hq. explode. SO3Mrp_unfold. reflexivity. Qed.

(* stereographic projection and its inverse: quaternion of (qv/(1+q0)) is q, for unit q other than -1 *)
Lemma quat_of_projected q : unitq q -> 1 + nth 0 q 0 <> 0 ->
  SO3Quat_from_Mrp_v [nth 1 q 0 / (1 + nth 0 q 0); nth 2 q 0 / (1 + nth 0 q 0); nth 3 q 0 / (1 + nth 0 q 0)] = q.
Proof.
  intros [Hl Hn]. explode. revert Hn. mat_cbv. rewrite Rplus_0_r. intros Hn Hd.
  SO3Quat_unfold.
  assert (E : r0 * r0 + r1 * r1 + r2 * r2 = (1 - r) * (1 + r)) by nra.
  assert (N : r0 / (1 + r) * (r0 / (1 + r)) + r1 / (1 + r) * (r1 / (1 + r)) + r2 / (1 + r) * (r2 / (1 + r)) = (1 - r) / (1 + r)).
  { transitivity ((r0 * r0 + r1 * r1 + r2 * r2) / ((1 + r) * (1 + r))); [field; assumption|rewrite E; field; assumption]. }
  rewrite N.
  assert (D : 1 + (1 - r) / (1 + r) = 2 / (1 + r)) by (field; assumption).
  rewrite D. list_eq; field; assumption.
Qed.

Lemma mrp_from_quat_matrix q : unitq q -> 1 + nth 0 q 0 <> 0 ->
  SO3Mrp_to_Matrix_v (SO3Mrp_from_Quat_v q) = SO3Quat_to_Matrix_v q /\ norm2 (SO3Mrp_from_Quat_v q) <= 1.
Proof.
  intros Hu Hd. destruct Hu as [Hl Hn].
  rewrite (mrp_from_quat_factor q Hl).
  set (x := [nth 1 q 0 / (1 + nth 0 q 0); nth 2 q 0 / (1 + nth 0 q 0); nth 3 q 0 / (1 + nth 0 q 0)]).
  assert (Hx : len3 x) by reflexivity.
  split.
  - rewrite (shadow_same_rotation x Hx), (mrp_matrix_via_quat x Hx).
    unfold x. rewrite quat_of_projected; [reflexivity|split; assumption|assumption].
  - apply shadow_in_ball, Hx.
Qed.

(* ---------- MRP from a rotation matrix ---------- *)
Lemma mrp_from_matrix_factor M : length M = 9%nat ->
  SO3Mrp_from_Matrix_v M = SO3Mrp_from_Quat_v (SO3Quat_from_Matrix_v M).
Proof. intro H. explode. SO3Mrp_unfold. SO3Quat_unfold. reflexivity. Qed.

Lemma proper_rotation_len M : proper_rotation M -> length M = 9%nat.
Proof. intros (? & ? & ? & ? & ? & ? & ? & ? & ? & -> & _). reflexivity. Qed.

(* from_Matrix is a right inverse of to_Matrix for MRPs, and lands in the unit ball *)
Theorem mrp_from_Matrix_right_inverse M : proper_rotation M ->
  SO3Mrp_to_Matrix_v (SO3Mrp_from_Matrix_v M) = M /\ norm2 (SO3Mrp_from_Matrix_v M) <= 1.
Proof.
  intro HM. rewrite (mrp_from_matrix_factor M (proper_rotation_len M HM)).
  destruct (from_Matrix_right_inverse M HM) as (A & B & C & D).
  destruct (mrp_from_quat_matrix (SO3Quat_from_Matrix_v M)) as [E F]; [split; assumption | lra | ].
  split; [rewrite E; exact A | exact F].
Qed.
