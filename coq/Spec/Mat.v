(* Vocabulary of the property statements: dense column-major matrices as [list R]
   (the layout of the generated units' outputs), with static sizes.  DESIGN.md 2.3. *)
From Coq Require Import Reals List Lra Lia.
From Cyecca Require Import Base.Ops Base.Tactics.
Import ListNotations.
Local Open Scope R_scope.

Fixpoint sumf (k : nat) (f : nat -> R) : R :=
  match k with O => 0 | S k' => sumf k' f + f k' end.

(* entry (i,j) of a matrix with r rows *)
Definition mget (r : nat) (M : list R) (i j : nat) : R := nth (i + j * r) M 0.

(* build an r x c matrix from its entries, column-major *)
Definition mbuild (r c : nat) (f : nat -> nat -> R) : list R :=
  flat_map (fun j => map (fun i => f i j) (seq 0 r)) (seq 0 c).

(* A : n x m, B : m x p *)
Definition mmul (n m p : nat) (A B : list R) : list R :=
  mbuild n p (fun i j => sumf m (fun k => mget n A i k * mget m B k j)).
Definition mtrans (r c : nat) (A : list R) : list R := mbuild c r (fun i j => mget r A j i).
Definition mid (n : nat) : list R := mbuild n n (fun i j => if Nat.eqb i j then 1 else 0).
Definition madd (A B : list R) : list R := map (fun p => fst p + snd p) (combine A B).
Definition msub (A B : list R) : list R := map (fun p => fst p - snd p) (combine A B).
Definition mscale (s : R) (A : list R) : list R := map (fun x => s * x) A.
Definition mzero (r c : nat) : list R := mbuild r c (fun _ _ => 0).
(* matrix . vector *)
Definition mvec (n m : nat) (A v : list R) : list R := mmul n m 1 A v.
Definition dot (a b : list R) : R := fold_right Rplus 0 (map (fun p => fst p * snd p) (combine a b)).
Definition norm2 (a : list R) : R := dot a a.

(* 3x3 determinant, column-major *)
Definition det3 (M : list R) : R :=
  let g := fun i j : nat => mget 3 M i j in
  let a := g 0%nat 0%nat in let b := g 0%nat 1%nat in let c := g 0%nat 2%nat in
  let d := g 1%nat 0%nat in let e := g 1%nat 1%nat in let f := g 1%nat 2%nat in
  let p := g 2%nat 0%nat in let q := g 2%nat 1%nat in let t := g 2%nat 2%nat in
  a * (e * t - f * q) - b * (d * t - f * p) + c * (d * q - e * p).

Definition is_rotation (M : list R) : Prop :=
  mmul 3 3 3 M (mtrans 3 3 M) = mid 3 /\ det3 M = 1.

(* block diagonal of an a x a and a b x b matrix *)
Definition mblockdiag (a b : nat) (A B : list R) : list R :=
  mbuild (a + b) (a + b) (fun i j =>
    if Nat.ltb i a then (if Nat.ltb j a then mget a A i j else 0)
    else (if Nat.ltb j a then 0 else mget b B (i - a) (j - a))).

(* so(3) hat and the cross product *)
Definition hat3 (w : list R) : list R :=
  let x := nth 0 w 0 in let y := nth 1 w 0 in let z := nth 2 w 0 in
  [0; z; - y; - z; 0; x; y; - x; 0].
Definition cross3 (a b : list R) : list R :=
  let a0 := nth 0 a 0 in let a1 := nth 1 a 0 in let a2 := nth 2 a 0 in
  let b0 := nth 0 b 0 in let b1 := nth 1 b 0 in let b2 := nth 2 b 0 in
  [a1 * b2 - a2 * b1; a2 * b0 - a0 * b2; a0 * b1 - a1 * b0].

(* unfolding list for computation on explicit lists *)
Ltac mat_cbv :=
  cbv beta iota zeta delta
    [mmul mtrans mid madd msub mscale mzero mvec dot norm2 det3 mget mbuild sumf mblockdiag hat3 cross3
     nth seq flat_map map app combine fst snd fold_right Nat.add Nat.mul Nat.sub Nat.eqb Nat.ltb Nat.leb length].

(* turn every list with a hypothesis [length a = k] (k a numeral) into an explicit list of variables *)
Ltac explode_with a H :=
  lazymatch type of H with
  | length a = O => destruct a; [clear H | discriminate H]
  | length a = S _ =>
      destruct a as [|? a]; [discriminate H | simpl in H; apply eq_add_S in H; explode_with a H]
  end.
Ltac explode :=
  repeat match goal with
  | H : length ?a = _ |- _ => is_var a; explode_with a H
  end.

(* ---- generic law statements over list-valued group operations ---- *)
Section Laws.
Variables (n r : nat).                          (* parameter count, matrix size *)
Variables (prod : list R -> list R -> list R) (inv : list R -> list R) (e : list R) (toM : list R -> list R).
Variable valid : list R -> Prop.                (* validity of a parameter vector, includes its length *)

Definition hom_law : Prop := forall a b, valid a -> valid b -> toM (prod a b) = mmul r r r (toM a) (toM b).
Definition inv_law : Prop := forall a, valid a ->
  mmul r r r (toM (inv a)) (toM a) = mid r /\ mmul r r r (toM a) (toM (inv a)) = mid r.
Definition id_law : Prop := toM e = mid r /\ valid e /\ forall a, valid a -> toM (prod e a) = toM a /\ toM (prod a e) = toM a.
Definition id_param_law : Prop := forall a, valid a -> prod e a = a /\ prod a e = a.
Definition assoc_law : Prop := forall a b c, valid a -> valid b -> valid c ->
  toM (prod (prod a b) c) = toM (prod a (prod b c)).
Definition closed_law : Prop := (forall a b, valid a -> valid b -> valid (prod a b)) /\ (forall a, valid a -> valid (inv a)).
End Laws.

(* ---- packed lower-triangular inputs (CasADi Sparsity.lower, column-major non-zeros) ---- *)
Definition lower_idx (n i j : nat) : nat := (j * n - (j * (j - 1)) / 2 + (i - j))%nat.
Definition lower_get (n : nat) (l : list R) (i j : nat) : R := nth (lower_idx n i j) l 0.
Definition dense_lower (n : nat) (l : list R) : list R :=
  mbuild n n (fun i j => if Nat.leb j i then lower_get n l i j else 0).
Definition dense_sym (n : nat) (l : list R) : list R :=
  mbuild n n (fun i j => if Nat.leb j i then lower_get n l i j else lower_get n l j i).
Definition diag_get (n : nat) (M : list R) (k : nat) : R := mget n M k k.
Definition is_lower (n : nat) (M : list R) : Prop := forall i j, (i < j)%nat -> (j < n)%nat -> mget n M i j = 0.
Definition is_upper (n : nat) (M : list R) : Prop := forall i j, (j < i)%nat -> (i < n)%nat -> mget n M i j = 0.
Definition unit_diag (n : nat) (M : list R) : Prop := forall k, (k < n)%nat -> mget n M k k = 1.

Ltac mat_cbv2 :=
  cbv beta iota zeta delta
    [mmul mtrans mid madd msub mscale mzero mvec dot norm2 det3 mget mbuild sumf mblockdiag hat3 cross3
     lower_idx lower_get dense_lower dense_sym diag_get
     nth seq flat_map map app combine fst snd fold_right Nat.add Nat.mul Nat.sub Nat.div Nat.divmod Nat.eqb Nat.ltb Nat.leb length firstn skipn].
