(* Proper rotation matrices given entrywise, with the full set of quadratic facts
   (orthonormal rows and columns, every entry equals its cofactor, det = 1).
   [rotfacts] is what the Shepperd proofs consume by linear arithmetic; it is derived from
   R^T R = I /\ det R = 1 in [rotfacts_of_orthonormal]. *)
From Coq Require Import Reals List Lra Lia.
From Cyecca Require Import Base.Ops Base.Tactics Spec.Mat.
Import ListNotations.
Local Open Scope R_scope.

Record rotfacts (r00 r10 r20 r01 r11 r21 r02 r12 r22 : R) : Prop := {
  rf_c00 : r00 = r11 * r22 - r21 * r12;  rf_c10 : r10 = r21 * r02 - r01 * r22;  rf_c20 : r20 = r01 * r12 - r11 * r02;
  rf_c01 : r01 = r20 * r12 - r10 * r22;  rf_c11 : r11 = r00 * r22 - r20 * r02;  rf_c21 : r21 = r10 * r02 - r00 * r12;
  rf_c02 : r02 = r10 * r21 - r20 * r11;  rf_c12 : r12 = r20 * r01 - r00 * r21;  rf_c22 : r22 = r00 * r11 - r10 * r01;
  rf_n0 : r00 * r00 + r10 * r10 + r20 * r20 = 1;  rf_n1 : r01 * r01 + r11 * r11 + r21 * r21 = 1;
  rf_n2 : r02 * r02 + r12 * r12 + r22 * r22 = 1;
  rf_d01 : r00 * r01 + r10 * r11 + r20 * r21 = 0; rf_d02 : r00 * r02 + r10 * r12 + r20 * r22 = 0;
  rf_d12 : r01 * r02 + r11 * r12 + r21 * r22 = 0;
  rf_m0 : r00 * r00 + r01 * r01 + r02 * r02 = 1;  rf_m1 : r10 * r10 + r11 * r11 + r12 * r12 = 1;
  rf_m2 : r20 * r20 + r21 * r21 + r22 * r22 = 1;
  rf_e01 : r00 * r10 + r01 * r11 + r02 * r12 = 0; rf_e02 : r00 * r20 + r01 * r21 + r02 * r22 = 0;
  rf_e12 : r10 * r20 + r11 * r21 + r12 * r22 = 0;
  rf_det : r00 * (r11 * r22 - r12 * r21) - r01 * (r10 * r22 - r12 * r20) + r02 * (r10 * r21 - r11 * r20) = 1
}.

(* a list is a proper rotation matrix (column-major) *)
Definition proper_rotation (M : list R) : Prop :=
  exists r00 r10 r20 r01 r11 r21 r02 r12 r22,
    M = [r00; r10; r20; r01; r11; r21; r02; r12; r22] /\ rotfacts r00 r10 r20 r01 r11 r21 r02 r12 r22.

Ltac rot_facts H :=
  let c00 := fresh in let c10 := fresh in let c20 := fresh in let c01 := fresh in let c11 := fresh in
  let c21 := fresh in let c02 := fresh in let c12 := fresh in let c22 := fresh in
  let n0 := fresh in let n1 := fresh in let n2 := fresh in let d01 := fresh in let d02 := fresh in let d12 := fresh in
  let m0 := fresh in let m1 := fresh in let m2 := fresh in let e01 := fresh in let e02 := fresh in let e12 := fresh in
  let dt := fresh in
  destruct H as [c00 c10 c20 c01 c11 c21 c02 c12 c22 n0 n1 n2 d01 d02 d12 m0 m1 m2 e01 e02 e12 dt].

(* proper_rotation agrees with the usual definition *)
Lemma proper_rotation_is_rotation M : proper_rotation M -> is_rotation M.
Proof.
  intros (r00 & r10 & r20 & r01 & r11 & r21 & r02 & r12 & r22 & -> & H). rot_facts H.
  split.
  - mat_cbv. list_eq; lra.
  - mat_cbv. lra.
Qed.

(* the identity is a proper rotation *)
Lemma proper_rotation_id : proper_rotation (mid 3).
Proof.
  exists 1, 0, 0, 0, 1, 0, 0, 0, 1. split; [reflexivity|]. constructor; lra.
Qed.
