(* SE(3) and SE_2(3) as semidirect products over an ABSTRACT SO(3) representation:
   whatever parameterisation is plugged in, if it satisfies the SO(3) laws then the
   semidirect constructions satisfy the group laws under their 4x4 / 5x5 matrices. *)
From Coq Require Import Reals List Lra Lia.
From Cyecca Require Import Base.Ops Base.Tactics Spec.Mat.
Import ListNotations.
Local Open Scope R_scope.

Definition vadd (a b : list R) : list R := map (fun p => fst p + snd p) (combine a b).
Definition vneg (a : list R) : list R := map Ropp a.

Section SD.
Variable n : nat.                                   (* number of rotation parameters *)
Variables (prodR : list R -> list R -> list R) (invR : list R -> list R) (eR : list R) (toM : list R -> list R).
Variable validR : list R -> Prop.
Hypothesis toM_len : forall x, validR x -> length (toM x) = 9%nat.

(* ---- SE(3): parameters p(3) ++ theta(n) ---- *)
Definition se3_p (a : list R) := firstn 3 a.
Definition se3_R (a : list R) := skipn 3 a.
Definition se3_valid (a : list R) : Prop := length (se3_p a) = 3%nat /\ validR (se3_R a).
Definition se3_prod (a b : list R) : list R :=
  vadd (mvec 3 3 (toM (se3_R a)) (se3_p b)) (se3_p a) ++ prodR (se3_R a) (se3_R b).
Definition se3_inv (a : list R) : list R :=
  vneg (mvec 3 3 (mtrans 3 3 (toM (se3_R a))) (se3_p a)) ++ invR (se3_R a).
Definition se3_id : list R := [0; 0; 0] ++ eR.
Definition se3_toM (a : list R) : list R :=
  let M := toM (se3_R a) in let p := se3_p a in
  [nth 0 M 0; nth 1 M 0; nth 2 M 0; 0;  nth 3 M 0; nth 4 M 0; nth 5 M 0; 0;
   nth 6 M 0; nth 7 M 0; nth 8 M 0; 0;  nth 0 p 0; nth 1 p 0; nth 2 p 0; 1].

Hypothesis prod_len3 : forall x y, validR x -> validR y -> validR (prodR x y).

Lemma firstn_app3 (u v : list R) : length u = 3%nat -> firstn 3 (u ++ v) = u.
Proof. intro H. explode. reflexivity. Qed.
Lemma skipn_app3 (u v : list R) : length u = 3%nat -> skipn 3 (u ++ v) = v.
Proof. intro H. explode. reflexivity. Qed.

Ltac nine M H := let L := fresh "L" in pose proof H as L; generalize dependent M; intros M L; explode.

Theorem se3_hom : forall a b, se3_valid a -> se3_valid b ->
  toM (prodR (se3_R a) (se3_R b)) = mmul 3 3 3 (toM (se3_R a)) (toM (se3_R b)) ->
  se3_toM (se3_prod a b) = mmul 4 4 4 (se3_toM a) (se3_toM b).
Proof.
  intros a b [Hpa HRa] [Hpb HRb] Hhom.
  unfold se3_toM, se3_prod.
  assert (Lp : length (vadd (mvec 3 3 (toM (se3_R a)) (se3_p b)) (se3_p a)) = 3%nat).
  { pose proof (toM_len _ HRa) as L. remember (toM (se3_R a)) as A. remember (se3_p a) as pa. remember (se3_p b) as pb.
    clear - L Hpa Hpb. explode. reflexivity. }
  match goal with |- context [se3_R (?u ++ ?w)] =>
    replace (se3_R (u ++ w)) with w by (symmetry; apply (skipn_app3 _ _ Lp));
    replace (se3_p (u ++ w)) with u by (symmetry; apply (firstn_app3 _ _ Lp)) end.
  rewrite Hhom.
  pose proof (toM_len _ HRa) as LA. pose proof (toM_len _ HRb) as LB.
  remember (toM (se3_R a)) as A. remember (toM (se3_R b)) as B.
  remember (se3_p a) as pa. remember (se3_p b) as pb.
  clear - LA LB Hpa Hpb. explode. unfold vadd. mat_cbv. list_eq; ring.
Qed.

Theorem se3_inv_law :
  (forall x, validR x -> mmul 3 3 3 (toM x) (mtrans 3 3 (toM x)) = mid 3 /\ mmul 3 3 3 (mtrans 3 3 (toM x)) (toM x) = mid 3) ->
  (forall x, validR x -> toM (invR x) = mtrans 3 3 (toM x)) ->
  forall a, se3_valid a ->
  mmul 4 4 4 (se3_toM (se3_inv a)) (se3_toM a) = mid 4 /\ mmul 4 4 4 (se3_toM a) (se3_toM (se3_inv a)) = mid 4.
Proof.
  intros Horth Hinv a [Hpa HRa].
  unfold se3_toM, se3_inv.
  assert (Lp : length (vneg (mvec 3 3 (mtrans 3 3 (toM (se3_R a))) (se3_p a))) = 3%nat).
  { pose proof (toM_len _ HRa) as L. remember (toM (se3_R a)) as A. remember (se3_p a) as pa.
    clear - L Hpa. explode. reflexivity. }
  match goal with |- context [se3_R (?u ++ ?w)] =>
    replace (se3_R (u ++ w)) with w by (symmetry; apply (skipn_app3 _ _ Lp));
    replace (se3_p (u ++ w)) with u by (symmetry; apply (firstn_app3 _ _ Lp)) end.
  rewrite (Hinv _ HRa).
  destruct (Horth _ HRa) as [O1 O2].
  pose proof (toM_len _ HRa) as LA.
  remember (toM (se3_R a)) as A. remember (se3_p a) as pa.
  clear - LA Hpa O1 O2. explode. unfold vneg. revert O1 O2. mat_cbv. intros O1 O2.
  injection O1 as ? ? ? ? ? ? ? ? ?. injection O2 as ? ? ? ? ? ? ? ? ?.
  split; list_eq; first [lra | nsatzR].
Qed.

(* ---- SE_2(3): parameters p(3) ++ v(3) ++ theta(n) ---- *)
Definition se23_p (a : list R) := firstn 3 a.
Definition se23_v (a : list R) := firstn 3 (skipn 3 a).
Definition se23_R (a : list R) := skipn 6 a.
Definition se23_valid (a : list R) : Prop := length (se23_p a) = 3%nat /\ length (se23_v a) = 3%nat /\ validR (se23_R a).
Definition se23_prod (a b : list R) : list R :=
  vadd (se23_p a) (mvec 3 3 (toM (se23_R a)) (se23_p b)) ++
  vadd (se23_v a) (mvec 3 3 (toM (se23_R a)) (se23_v b)) ++ prodR (se23_R a) (se23_R b).
Definition se23_toM (a : list R) : list R :=
  let M := toM (se23_R a) in let p := se23_p a in let v := se23_v a in
  [nth 0 M 0; nth 1 M 0; nth 2 M 0; 0; 0;  nth 3 M 0; nth 4 M 0; nth 5 M 0; 0; 0;
   nth 6 M 0; nth 7 M 0; nth 8 M 0; 0; 0;  nth 0 v 0; nth 1 v 0; nth 2 v 0; 1; 0;
   nth 0 p 0; nth 1 p 0; nth 2 p 0; 0; 1].

Lemma firstn_app3' (u v : list R) : length u = 3%nat -> firstn 3 (u ++ v) = u.
Proof. apply firstn_app3. Qed.
Lemma skipn6_app (u v w : list R) : length u = 3%nat -> length v = 3%nat -> skipn 6 (u ++ v ++ w) = w.
Proof. intros H1 H2. explode. reflexivity. Qed.
Lemma firstn3_skipn3_app (u v w : list R) : length u = 3%nat -> length v = 3%nat -> firstn 3 (skipn 3 (u ++ v ++ w)) = v.
Proof. intros H1 H2. explode. reflexivity. Qed.

Theorem se23_hom : forall a b, se23_valid a -> se23_valid b ->
  toM (prodR (se23_R a) (se23_R b)) = mmul 3 3 3 (toM (se23_R a)) (toM (se23_R b)) ->
  se23_toM (se23_prod a b) = mmul 5 5 5 (se23_toM a) (se23_toM b).
Proof.
  intros a b (Hpa & Hva & HRa) (Hpb & Hvb & HRb) Hhom.
  unfold se23_toM, se23_prod.
  pose proof (toM_len _ HRa) as LA. pose proof (toM_len _ HRb) as LB.
  assert (L1 : length (vadd (se23_p a) (mvec 3 3 (toM (se23_R a)) (se23_p b))) = 3%nat).
  { remember (toM (se23_R a)) as A. remember (se23_p a) as pa. remember (se23_p b) as pb. clear - LA Hpa Hpb. explode. reflexivity. }
  assert (L2 : length (vadd (se23_v a) (mvec 3 3 (toM (se23_R a)) (se23_v b))) = 3%nat).
  { remember (toM (se23_R a)) as A. remember (se23_v a) as pa. remember (se23_v b) as pb. clear - LA Hva Hvb. explode. reflexivity. }
  match goal with |- context [se23_R (?u ++ ?v ++ ?w)] =>
    replace (se23_R (u ++ v ++ w)) with w by (symmetry; apply (skipn6_app _ _ _ L1 L2));
    replace (se23_v (u ++ v ++ w)) with v by (symmetry; apply (firstn3_skipn3_app _ _ _ L1 L2));
    replace (se23_p (u ++ v ++ w)) with u by (symmetry; apply (firstn_app3 _ _ L1)) end.
  rewrite Hhom.
  remember (toM (se23_R a)) as A. remember (toM (se23_R b)) as B.
  remember (se23_p a) as pa. remember (se23_p b) as pb. remember (se23_v a) as va. remember (se23_v b) as vb.
  clear - LA LB Hpa Hpb Hva Hvb. explode. unfold vadd. mat_cbv. list_eq; ring.
Qed.
End SD.
