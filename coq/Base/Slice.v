(* Idiom 4 (DESIGN.md 2.6): reasoning on the predicate-transformer form of a large piecewise unit
   without unfolding it.  A goal [f_wp args P] becomes a context of SSA equations; only the slice the
   goal depends on is kept; comparisons are decided from the context or split. *)
From Coq Require Import Reals List Lra Lia.
From Cyecca Require Import Base.Ops Base.Tactics.
Import ListNotations.
Local Open Scope R_scope.

(* Eqn (Base.Ops): an SSA equation not (yet) selected by a slice *)
Lemma Eqn_intro a b : a = b -> Eqn a b.  Proof. exact (fun H => H). Qed.
Lemma Eqn_elim a b : Eqn a b -> a = b.  Proof. exact (fun H => H). Qed.

(* introduce the let-chain of a _wp definition as local definitions (no zeta reduction) *)
Ltac wp_intro f := cbv delta [f]; cbv beta; intros.
(* the equational form  forall v, Eqn v e -> ... -> P [outs]  of large units: no zeta-conversion at Qed *)
Ltac wpe_intro f := cbv delta [f]; cbv beta; intros.

(* local definitions -> wrapped equations *)
Ltac all_eqns :=
  repeat match goal with
  | v := ?e : R |- _ => let H := fresh "E" in assert (H : Eqn v e) by (apply Eqn_intro; reflexivity); clearbody v
  end.

(* select the equations v transitively depends on, up to depth d *)
Ltac slice v d :=
  lazymatch d with
  | O => idtac
  | S ?d' =>
    match goal with
    | H : Eqn v ?e |- _ =>
        apply Eqn_elim in H;
        lazymatch e with
        | ?f ?a ?b => slice a d'; slice b d'
        | ?f ?a => slice a d'
        | _ => slice e d'          (* a bare variable (after a selection was resolved) or a constant *)
        end
    | _ => idtac
    end
  end.
Ltac drop_rest := repeat match goal with H : Eqn _ _ |- _ => clear H end.

(* rewrite selections whose guard is known *)
Ltac simp_bools :=
  repeat match goal with
  | Hc : ?c = 1, H : ?v = op_ifz ?c ?x |- _ => rewrite Hc, op_ifz_1 in H
  | Hc : ?c = 0, H : ?v = op_ifz ?c ?x |- _ => rewrite Hc, op_ifz_0 in H
  | Hc : ?c = 1, H : ?v = op_not ?c |- _ => rewrite Hc, op_not_1 in H
  | Hc : ?c = 0, H : ?v = op_not ?c |- _ => rewrite Hc, op_not_0 in H
  | Hc : ?c = 0, H : ?v = op_and ?c ?d |- _ => rewrite Hc, op_and_0l in H
  | Hc : ?d = 0, H : ?v = op_and ?c ?d |- _ => rewrite Hc, op_and_0r in H
  | Hc : ?c = 1, Hd : ?d = 1, H : ?v = op_and ?c ?d |- _ => rewrite Hc, Hd, op_and_11 in H
  | Hc : ?c = 1, H : ?v = op_or ?c ?d |- _ => rewrite Hc, op_or_1l in H
  | Hc : ?d = 1, H : ?v = op_or ?c ?d |- _ => rewrite Hc, op_or_1r in H
  | Hc : ?c = 0, Hd : ?d = 0, H : ?v = op_or ?c ?d |- _ => rewrite Hc, Hd, op_or_00 in H
  | H : ?v = op_ifz ?c 0 |- _ => rewrite op_ifz_zero in H
  end.

(* split chains of Rmax / Rmin / Rabs definitions reachable from t, depth n *)
Ltac split_from t n :=
  lazymatch n with
  | O => idtac
  | S ?m =>
    try match goal with
    | H : t = Rmax ?a ?b |- _ =>
        let Em := fresh "Em" in destruct (Rmax_spec a b) as [[Em ?]|[Em ?]]; rewrite Em in H; clear Em; split_from a m; split_from b m
    | H : t = Rmin ?a ?b |- _ =>
        let Em := fresh "Em" in destruct (Rmin_spec a b) as [[Em ?]|[Em ?]]; rewrite Em in H; clear Em; split_from a m; split_from b m
    | H : t = Rabs ?a |- _ =>
        let Em := fresh "Em" in destruct (Rabs_spec a) as [[Em ?]|[Em ?]]; rewrite Em in H; clear Em; split_from a m
    | H : t = ?a - ?b |- _ => split_from a m; split_from b m
    | H : t = ?a + ?b |- _ => split_from a m; split_from b m
    end
  end.

(* decide one comparison equation from the context *)
Ltac solve_cmp a b := first [ lra | (split_from a 5%nat; split_from b 5%nat; lra) ].
Ltac decide_cmp_in H :=
  lazymatch type of H with
  | ?v = op_lt ?a ?b =>
      first [ rewrite (op_lt_true a b) in H by solve_cmp a b | rewrite (op_lt_false a b) in H by solve_cmp a b ]
  | ?v = op_le ?a ?b =>
      first [ rewrite (op_le_true a b) in H by solve_cmp a b | rewrite (op_le_false a b) in H by solve_cmp a b ]
  end.
Ltac decide_cmps :=
  repeat (simp_bools;
    match goal with
    | H : ?v = op_lt ?a ?b |- _ => decide_cmp_in H
    | H : ?v = op_le ?a ?b |- _ => decide_cmp_in H
    end); simp_bools.

(* case split on one remaining comparison equation *)
Ltac case_cmp :=
  match goal with
  | H : ?v = op_lt ?a ?b |- _ =>
      let L := fresh "L" in
      destruct (Rlt_dec a b) as [L|L];
      [ rewrite (op_lt_true a b) in H by exact L | apply Rnot_lt_le in L; rewrite (op_lt_false a b) in H by exact L ]
  | H : ?v = op_le ?a ?b |- _ =>
      let L := fresh "L" in
      destruct (Rle_dec a b) as [L|L];
      [ rewrite (op_le_true a b) in H by exact L | apply Rnot_le_lt in L; rewrite (op_le_false a b) in H by exact L ]
  end; simp_bools.
Ltac cases := decide_cmps; repeat (case_cmp; decide_cmps).

(* destruct every Rmax / Rmin / Rabs equation of the context *)
Ltac split_all :=
  repeat match goal with
  | H : ?t = Rmax ?a ?b |- _ => let Em := fresh "Em" in destruct (Rmax_spec a b) as [[Em ?]|[Em ?]]; rewrite Em in H; clear Em
  | H : ?t = Rmin ?a ?b |- _ => let Em := fresh "Em" in destruct (Rmin_spec a b) as [[Em ?]|[Em ?]]; rewrite Em in H; clear Em
  | H : ?t = Rabs ?a |- _ => let Em := fresh "Em" in destruct (Rabs_spec a) as [[Em ?]|[Em ?]]; rewrite Em in H; clear Em
  end.

Ltac split_minmax :=
  repeat match goal with
  | H : ?t = Rmax ?a ?b |- _ => let Em := fresh "Em" in destruct (Rmax_spec a b) as [[Em ?]|[Em ?]]; rewrite Em in H; clear Em
  | H : ?t = Rmin ?a ?b |- _ => let Em := fresh "Em" in destruct (Rmin_spec a b) as [[Em ?]|[Em ?]]; rewrite Em in H; clear Em
  end.

(* slice from every variable occurring in the goal *)
Ltac slice_goal d :=
  repeat match goal with
  | |- context [?v] => is_var v; match goal with H : Eqn v _ |- _ => slice v d end
  end.
(* forget the current selection and select again (simplified equations cut dependencies) *)
Ltac slice_hyps d :=
  repeat match goal with
  | H : ?a < ?b |- _ => match a with context [?v] => is_var v; match goal with H2 : Eqn v _ |- _ => slice v d end end
  | H : ?a < ?b |- _ => match b with context [?v] => is_var v; match goal with H2 : Eqn v _ |- _ => slice v d end end
  | H : ?a <= ?b |- _ => match a with context [?v] => is_var v; match goal with H2 : Eqn v _ |- _ => slice v d end end
  | H : ?a <= ?b |- _ => match b with context [?v] => is_var v; match goal with H2 : Eqn v _ |- _ => slice v d end end
  end.
Ltac reslice d :=
  repeat match goal with H : ?v = ?e |- _ => is_var v; apply Eqn_intro in H end;
  slice_goal d; slice_hyps d; drop_rest.
Ltac cases_re d := decide_cmps; reslice d; repeat (case_cmp; decide_cmps; reslice d).

(* variants that never split min/max/abs chains when deciding a comparison *)
Ltac decide_cmp_lra H :=
  lazymatch type of H with
  | ?v = op_lt ?a ?b => first [ rewrite (op_lt_true a b) in H by lra | rewrite (op_lt_false a b) in H by lra ]
  | ?v = op_le ?a ?b => first [ rewrite (op_le_true a b) in H by lra | rewrite (op_le_false a b) in H by lra ]
  end.
Ltac decide_cmps_lra :=
  repeat (simp_bools;
    match goal with
    | H : ?v = op_lt ?a ?b |- _ => decide_cmp_lra H
    | H : ?v = op_le ?a ?b |- _ => decide_cmp_lra H
    end); simp_bools.
Ltac cases_re_lra d := decide_cmps_lra; reslice d; repeat (case_cmp; decide_cmps_lra; reslice d).

(* top of a chain of binary Rmin (resp. Rmax, not over Rabs) equations *)
Ltac top_min k :=
  match goal with H : ?m = Rmin _ _ |- _ =>
    lazymatch goal with H2 : _ = Rmin m _ |- _ => fail | H2 : _ = Rmin _ m |- _ => fail | _ => k m end end.
Ltac top_max k :=
  match goal with H : ?m = Rmax ?a _ |- _ =>
    lazymatch goal with H3 : a = Rabs _ |- _ => fail | _ => idtac end;
    lazymatch goal with H2 : _ = Rmax m _ |- _ => fail | H2 : _ = Rmax _ m |- _ => fail | _ => k m end end.

(* deciding a comparison with only the cone of equations its operands depend on (keeps lra's context small);
   equations whose left side is not a variable, and all inequalities, are always kept *)
Ltac cone2 a b d :=
  repeat match goal with H : ?v = ?e |- _ => is_var v; apply Eqn_intro in H end;
  slice a d; slice b d; drop_rest.
Ltac decide_cmp_cone H d :=
  lazymatch type of H with
  | ?v = op_lt ?a ?b => first [ rewrite (op_lt_true a b) in H by (cone2 a b d; lra) | rewrite (op_lt_false a b) in H by (cone2 a b d; lra) ]
  | ?v = op_le ?a ?b => first [ rewrite (op_le_true a b) in H by (cone2 a b d; lra) | rewrite (op_le_false a b) in H by (cone2 a b d; lra) ]
  end.
Ltac decide_cmps_cone d :=
  repeat (simp_bools;
    match goal with
    | H : ?v = op_lt ?a ?b |- _ => decide_cmp_cone H d
    | H : ?v = op_le ?a ?b |- _ => decide_cmp_cone H d
    end); simp_bools.
Ltac cases_cone d := decide_cmps_cone d; reslice d; repeat (case_cmp; decide_cmps_cone d; reslice d).
