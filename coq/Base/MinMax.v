(* Facts about the 4-way minimum / maximum as CasADi's mmin / mmax build them (left folds) *)
From Coq Require Import Reals Lra.
From Cyecca Require Import Base.Ops.
Local Open Scope R_scope.

Lemma min4_facts a b c d :
  let mn := Rmin (Rmin (Rmin a b) c) d in
  (mn <= a /\ mn <= b /\ mn <= c /\ mn <= d) /\ (mn = a \/ mn = b \/ mn = c \/ mn = d).
Proof.
  cbv zeta.
  destruct (Rmin_spec a b) as [[E1 ?]|[E1 ?]]; rewrite E1;
  match goal with |- context [Rmin (Rmin ?x c) d] => destruct (Rmin_spec x c) as [[E2 ?]|[E2 ?]]; rewrite E2 end;
  match goal with |- context [Rmin ?x d] => destruct (Rmin_spec x d) as [[E3 ?]|[E3 ?]]; rewrite E3 end;
  (split; [repeat split; lra | first [left; reflexivity | right; left; reflexivity | right; right; left; reflexivity | right; right; right; reflexivity]]).
Qed.

Lemma max4_facts a b c d :
  let mx := Rmax (Rmax (Rmax a b) c) d in
  (a <= mx /\ b <= mx /\ c <= mx /\ d <= mx) /\ (mx = a \/ mx = b \/ mx = c \/ mx = d).
Proof.
  cbv zeta.
  destruct (Rmax_spec a b) as [[E1 ?]|[E1 ?]]; rewrite E1;
  match goal with |- context [Rmax (Rmax ?x c) d] => destruct (Rmax_spec x c) as [[E2 ?]|[E2 ?]]; rewrite E2 end;
  match goal with |- context [Rmax ?x d] => destruct (Rmax_spec x d) as [[E3 ?]|[E3 ?]]; rewrite E3 end;
  (split; [repeat split; lra | first [left; reflexivity | right; left; reflexivity | right; right; left; reflexivity | right; right; right; reflexivity]]).
Qed.

(* if all pairwise differences fit in F then max - min <= F *)
Lemma spread4 a b c d F :
  a - b <= F -> a - c <= F -> a - d <= F -> b - a <= F -> b - c <= F -> b - d <= F ->
  c - a <= F -> c - b <= F -> c - d <= F -> d - a <= F -> d - b <= F -> d - c <= F -> 0 <= F ->
  Rmax (Rmax (Rmax a b) c) d - Rmin (Rmin (Rmin a b) c) d <= F.
Proof.
  intros.
  destruct (min4_facts a b c d) as [_ [E|[E|[E|E]]]]; destruct (max4_facts a b c d) as [_ [E'|[E'|[E'|E']]]];
  cbv zeta in *; rewrite E, E'; lra.
Qed.
