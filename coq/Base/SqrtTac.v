(* naming square roots and deciding rational identities modulo s*s = argument *)
From Coq Require Import Reals List Lra Lia.
From Cyecca Require Import Base.Ops Base.Tactics.
Local Open Scope R_scope.

Ltac sos := repeat (apply Rplus_le_le_0_compat); match goal with |- 0 <= ?a * ?a => apply Rle_0_sqr end.

(* name every square root of the goal (innermost first): s >= 0, s * s = its argument (a sum of squares) *)
Ltac name_sqrts :=
  repeat match goal with
  | |- context [sqrt ?e] =>
      lazymatch e with context [sqrt _] => fail | _ => idtac end;
      let s := fresh "s" in let Hs := fresh "Hs" in let Ps := fresh "Ps" in
      assert (Hs : sqrt e * sqrt e = e) by (apply sqrt_sqrt; sos);
      pose proof (sqrt_pos e) as Ps;
      generalize dependent (sqrt e); intros s Ps Hs
  end.

(* substitute even powers of the named roots (as field_simplify_eq prints them) *)
Ltac subst_squares :=
  repeat match goal with
  | H : ?s * ?s = ?A |- context [?s * (?s * (?s * (?s * (?s * (?s * 1)))))] => replace (s * (s * (s * (s * (s * (s * 1)))))) with (A * A * A) by (rewrite <- H; ring)
  | H : ?s * ?s = ?A |- context [?s * (?s * (?s * (?s * 1)))] => replace (s * (s * (s * (s * 1)))) with (A * A) by (rewrite <- H; ring)
  | H : ?s * ?s = ?A |- context [?s * (?s * 1)] => replace (s * (s * 1)) with A by (rewrite <- H; ring)
  end.
