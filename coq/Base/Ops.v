(* Real-number semantics of the CasADi scalar opcodes (DESIGN.md section 3.1).
   Every generated definition in coq/Gen is a let-chain over these operations.
   Nothing here is IEEE-754: no rounding, NaN, infinities or signed zeros. *)
From Coq Require Import Reals List Lra ZArith.
From Flocq Require Import Core.Raux Core.Round_NE Core.Generic_fmt.
Import ListNotations.
Local Open Scope R_scope.

Definition Rltb (a b : R) : bool := if Rlt_dec a b then true else false.
Definition Rleb' (a b : R) : bool := if Rle_dec a b then true else false.
Definition Reqb' (a b : R) : bool := if Req_EM_T a b then true else false.
(* an SSA equation of a generated _wpe form (and of the slicing tactics): v = e, wrapped so that tactics can tell
   selected from unselected equations *)
Definition Eqn (a b : R) : Prop := a = b.

Definition b2r (b : bool) : R := if b then 1 else 0.

(* CasADi truth value: non-zero is true *)
Definition truthy (c : R) : bool := negb (Reqb' c 0).

Definition op_lt (a b : R) : R := b2r (Rltb a b).
Definition op_le (a b : R) : R := b2r (Rleb' a b).
Definition op_eq (a b : R) : R := b2r (Reqb' a b).
Definition op_ne (a b : R) : R := b2r (negb (Reqb' a b)).
Definition op_not (a : R) : R := b2r (negb (truthy a)).
Definition op_and (a b : R) : R := b2r (truthy a && truthy b).
Definition op_or (a b : R) : R := b2r (truthy a || truthy b).
Definition op_ifz (c x : R) : R := if truthy c then x else 0.
Definition op_sign (x : R) : R :=
  if Rlt_dec 0 x then 1 else if Rlt_dec x 0 then -1 else 0.
Definition op_copysign (x y : R) : R := if Rlt_dec y 0 then - Rabs x else Rabs x.
Definition op_floor (x : R) : R := IZR (Zfloor x).
Definition op_ceil (x : R) : R := IZR (Zceil x).
(* C fmod: x - y * trunc(x/y) *)
Definition op_fmod (x y : R) : R := x - y * IZR (Ztrunc (x / y)).
(* IEEE remainder: x - y * nearest-even(x/y) *)
Definition op_remainder (x y : R) : R := x - y * IZR (ZnearestE (x / y)).
(* C99 atan2 on the reals (no signed zeros) *)
Definition op_atan2 (y x : R) : R :=
  if Rlt_dec 0 x then atan (y / x)
  else if Rlt_dec x 0 then (if Rle_dec 0 y then atan (y / x) + PI else atan (y / x) - PI)
  else if Rlt_dec 0 y then PI / 2
  else if Rlt_dec y 0 then - PI / 2
  else 0.
(* C pow for the non-integer exponents that reach it (integer constant exponents are emitted as x ^ n): positive base:
   Rpower; pow(x, 0) = 1; pow(0, y) = 0 for y > 0.  Not modelled (value 0 here): pow(0, y < 0) = +inf and the NaN of a
   negative base with a non-integer exponent. *)
Definition op_pow (x y : R) : R := if Rlt_dec 0 x then Rpower x y else if Req_EM_T y 0 then 1 else 0.
Definition op_exp (x : R) : R := exp x.
Definition op_log (x : R) : R := ln x.

(* ---------- elementary facts used by every proof file ---------- *)
Lemma op_pow_pos x y : 0 < x -> op_pow x y = Rpower x y.
Proof. intro H. unfold op_pow. destruct (Rlt_dec 0 x); [reflexivity | contradiction]. Qed.
Lemma op_pow_0 y : y <> 0 -> op_pow 0 y = 0.
Proof.
  intro H. unfold op_pow. destruct (Rlt_dec 0 0) as [L|L]; [exfalso; apply (Rlt_irrefl 0 L)|].
  destruct (Req_EM_T y 0); [contradiction | reflexivity].
Qed.

Lemma Rltb_true a b : a < b -> Rltb a b = true.
Proof. unfold Rltb; destruct (Rlt_dec a b); [reflexivity|contradiction]. Qed.
Lemma Rltb_false a b : b <= a -> Rltb a b = false.
Proof. unfold Rltb; destruct (Rlt_dec a b); [lra|reflexivity]. Qed.
Lemma Rleb'_true a b : a <= b -> Rleb' a b = true.
Proof. unfold Rleb'; destruct (Rle_dec a b); [reflexivity|contradiction]. Qed.
Lemma Rleb'_false a b : b < a -> Rleb' a b = false.
Proof. unfold Rleb'; destruct (Rle_dec a b); [lra|reflexivity]. Qed.
Lemma Reqb'_true a b : a = b -> Reqb' a b = true.
Proof. unfold Reqb'; destruct (Req_EM_T a b); [reflexivity|contradiction]. Qed.
Lemma Reqb'_false a b : a <> b -> Reqb' a b = false.
Proof. unfold Reqb'; destruct (Req_EM_T a b); [contradiction|reflexivity]. Qed.

Lemma op_lt_true a b : a < b -> op_lt a b = 1.
Proof. intro H; unfold op_lt; rewrite Rltb_true by assumption; reflexivity. Qed.
Lemma op_lt_false a b : b <= a -> op_lt a b = 0.
Proof. intro H; unfold op_lt; rewrite Rltb_false by assumption; reflexivity. Qed.
Lemma op_le_true a b : a <= b -> op_le a b = 1.
Proof. intro H; unfold op_le; rewrite Rleb'_true by assumption; reflexivity. Qed.
Lemma op_le_false a b : b < a -> op_le a b = 0.
Proof. intro H; unfold op_le; rewrite Rleb'_false by assumption; reflexivity. Qed.
Lemma op_eq_true a b : a = b -> op_eq a b = 1.
Proof. intro H; unfold op_eq; rewrite Reqb'_true by assumption; reflexivity. Qed.
Lemma op_eq_false a b : a <> b -> op_eq a b = 0.
Proof. intro H; unfold op_eq; rewrite Reqb'_false by assumption; reflexivity. Qed.
Lemma op_ne_true a b : a <> b -> op_ne a b = 1.
Proof. intro H; unfold op_ne; rewrite Reqb'_false by assumption; reflexivity. Qed.
Lemma op_ne_false a b : a = b -> op_ne a b = 0.
Proof. intro H; unfold op_ne; rewrite Reqb'_true by assumption; reflexivity. Qed.

Lemma truthy_1 : truthy 1 = true.
Proof. unfold truthy; rewrite Reqb'_false; [reflexivity|lra]. Qed.
Lemma truthy_0 : truthy 0 = false.
Proof. unfold truthy; rewrite Reqb'_true; reflexivity. Qed.
Lemma truthy_b2r b : truthy (b2r b) = b.
Proof. destruct b; [apply truthy_1|apply truthy_0]. Qed.

Lemma op_lt_01 a b : op_lt a b = 0 \/ op_lt a b = 1.
Proof. unfold op_lt; destruct (Rltb a b); simpl; auto. Qed.
Lemma op_le_01 a b : op_le a b = 0 \/ op_le a b = 1.
Proof. unfold op_le; destruct (Rleb' a b); simpl; auto. Qed.

Lemma op_not_1 : op_not 1 = 0.
Proof. unfold op_not; rewrite truthy_1; reflexivity. Qed.
Lemma op_not_0 : op_not 0 = 1.
Proof. unfold op_not; rewrite truthy_0; reflexivity. Qed.
Lemma op_and_11 : op_and 1 1 = 1.
Proof. unfold op_and; rewrite truthy_1; reflexivity. Qed.
Lemma op_and_0l b : op_and 0 b = 0.
Proof. unfold op_and; rewrite truthy_0; reflexivity. Qed.
Lemma op_and_0r a : op_and a 0 = 0.
Proof. unfold op_and; rewrite truthy_0, Bool.andb_false_r; reflexivity. Qed.
Lemma op_or_00 : op_or 0 0 = 0.
Proof. unfold op_or; rewrite truthy_0; reflexivity. Qed.
Lemma op_or_1l b : op_or 1 b = 1.
Proof. unfold op_or; rewrite truthy_1; reflexivity. Qed.
Lemma op_or_1r a : op_or a 1 = 1.
Proof. unfold op_or; rewrite truthy_1, Bool.orb_true_r; reflexivity. Qed.
Lemma op_ifz_1 x : op_ifz 1 x = x.
Proof. unfold op_ifz; rewrite truthy_1; reflexivity. Qed.
Lemma op_ifz_0 x : op_ifz 0 x = 0.
Proof. unfold op_ifz; rewrite truthy_0; reflexivity. Qed.
Lemma op_ifz_zero c : op_ifz c 0 = 0.
Proof. unfold op_ifz; destruct (truthy c); reflexivity. Qed.

(* if_else(c,a,b) is emitted by CasADi as  ifz c a + ifz (not c) b *)
Lemma ite_decomp c a b :
  op_ifz c a + op_ifz (op_not c) b = if truthy c then a else b.
Proof.
  unfold op_ifz, op_not. destruct (truthy c); simpl.
  - rewrite truthy_0. lra.
  - rewrite truthy_1. lra.
Qed.

Lemma op_sign_pos x : 0 < x -> op_sign x = 1.
Proof. intro; unfold op_sign; destruct (Rlt_dec 0 x); [reflexivity|contradiction]. Qed.
Lemma op_sign_neg x : x < 0 -> op_sign x = -1.
Proof. intro; unfold op_sign; destruct (Rlt_dec 0 x); [lra|]. destruct (Rlt_dec x 0); [reflexivity|contradiction]. Qed.
Lemma op_sign_zero : op_sign 0 = 0.
Proof. unfold op_sign; destruct (Rlt_dec 0 0); [lra|]. destruct (Rlt_dec 0 0); [lra|reflexivity]. Qed.

Lemma Rmax_spec a b : (Rmax a b = a /\ b <= a) \/ (Rmax a b = b /\ a <= b).
Proof. unfold Rmax; destruct (Rle_dec a b); [right|left]; split; lra. Qed.
Lemma Rmin_spec a b : (Rmin a b = a /\ a <= b) \/ (Rmin a b = b /\ b <= a).
Proof. unfold Rmin; destruct (Rle_dec a b); [left|right]; split; lra. Qed.
Lemma Rabs_spec a : (Rabs a = a /\ 0 <= a) \/ (Rabs a = - a /\ a <= 0).
Proof. unfold Rabs; destruct (Rcase_abs a); [right|left]; split; lra. Qed.

Lemma truthy_ne0 c : c <> 0 -> truthy c = true.
Proof. intro H. unfold truthy. rewrite Reqb'_false by assumption. reflexivity. Qed.
Lemma op_ifz_true c x : c <> 0 -> op_ifz c x = x.
Proof. intro H. unfold op_ifz. rewrite truthy_ne0 by assumption. reflexivity. Qed.
Lemma op_not_true c : c <> 0 -> op_not c = 0.
Proof. intro H. unfold op_not. rewrite truthy_ne0 by assumption. reflexivity. Qed.
