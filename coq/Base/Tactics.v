(* Shared tactics (DESIGN.md section 2.6). *)
From Coq Require Import Reals List Lra Lia.
Require Nsatz.
From Cyecca Require Import Base.Ops.
Import ListNotations.
Local Open Scope R_scope.

(* split an equation between two explicit lists into one goal per entry *)
Ltac list_eq :=
  repeat match goal with
  | |- (_ :: _) = (_ :: _) => f_equal
  | |- @nil _ = @nil _ => reflexivity
  end.

(* decide comparison atoms occurring in the goal from the context by lra *)
Ltac decide_lt_goal :=
  repeat match goal with
  | |- context [op_lt ?a ?b] =>
      first [ rewrite (op_lt_true a b) by lra | rewrite (op_lt_false a b) by lra ]
  | |- context [op_le ?a ?b] =>
      first [ rewrite (op_le_true a b) by lra | rewrite (op_le_false a b) by lra ]
  end.

Ltac simp_bools_goal :=
  repeat first
    [ rewrite op_ifz_1 | rewrite op_ifz_0 | rewrite op_not_1 | rewrite op_not_0
    | rewrite op_and_11 | rewrite op_and_0l | rewrite op_and_0r
    | rewrite op_or_00 | rewrite op_or_1l | rewrite op_or_1r ].

Ltac decide_bools := repeat (progress (decide_lt_goal; simp_bools_goal)).

(* both outcomes of a comparison atom in the goal *)
Ltac case_lt a b :=
  destruct (Rlt_dec a b) as [?Hlt|?Hge];
  [ rewrite (op_lt_true a b) by assumption
  | rewrite (op_lt_false a b) by (apply Rnot_lt_le; assumption) ].

Lemma sqrt_zero_arg e : e = 0 -> sqrt e = 0.
Proof. intros ->. apply sqrt_0. Qed.

(* op_ifz c e = 0 when e is identically zero as a polynomial *)
Ltac ifz_zero :=
  repeat match goal with
  | |- context [op_ifz ?c ?e] =>
      lazymatch e with 0 => fail | _ => idtac end;
      replace e with 0 by (unfold Rdiv; ring); rewrite (op_ifz_zero c)
  end.

(* hide undecided selections behind fresh variables so that ring/field see atoms *)
Ltac abstract_ifz :=
  repeat match goal with
  | |- context [op_ifz ?c ?e] => let z := fresh "z" in generalize (op_ifz c e); intro z
  end.

(* Groebner-basis decision of polynomial identities under polynomial hypotheses; Nsatz is
   Required but not Imported because importing it shadows [nth] and the list notations *)
Ltac nsatzR := NsatzTactic.nsatz_default.

(* equality of two generated expressions that differ only by ring rearrangements below
   non-ring symbols (sqrt, comparisons, selections): structural congruence with [ring] at the leaves *)
Ltac congr_ring :=
  first [ reflexivity | ring
        | match goal with
          | |- ?f ?a ?b = ?f ?c ?d => f_equal; congr_ring
          | |- ?f ?a = ?f ?b => f_equal; congr_ring
          end ].
