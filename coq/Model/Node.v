(* C20: the estimator node's gating logic (cyecca/estimate/attitude/estimator.py) as a pure step function.
   Message times are integer ticks (the harness uses 2^-10 s, exact in binary floating point); the two
   rate-limit thresholds (dt_min - time_eps, as computed in doubles) are exact rationals num/den in ticks. *)
From Coq Require Import List ZArith Bool Lia.
Import ListNotations.
Local Open Scope Z_scope.

Record cfg := { acc_num : Z; acc_den : Z; mag_num : Z; mag_den : Z }.   (* thresholds = num/den ticks, den > 0 *)

Record nstate := { t_imu : Z; t_acc : Z; t_mag : Z; inited : bool; has_mag : bool }.
Definition nstate0 (initialize : bool) : nstate :=
  {| t_imu := 0; t_acc := 0; t_mag := 0; inited := negb initialize; has_mag := false |}.

Inductive msg := Imu (t : Z) (init_ok : bool) | Mag (t : Z).    (* init_ok: what eqs["initialize"] would answer *)
Inductive act := AInit (ok : bool) | APredict (t dt : Z) | ACorrAccel (t : Z) | ACorrMag (t : Z) | APublish (t : Z).

(* d >= num/den  <->  d * den >= num   (den > 0) *)
Definition ge_thr (d num den : Z) : bool := Z.leb num (d * den).

Definition nstep (c : cfg) (s : nstate) (m : msg) : nstate * list act :=
  match m with
  | Mag t =>
      if negb (inited s) || negb (ge_thr (t - t_mag s) (mag_num c) (mag_den c))
      then ({| t_imu := t_imu s; t_acc := t_acc s; t_mag := t_mag s; inited := inited s; has_mag := true |}, [])
      else ({| t_imu := t_imu s; t_acc := t_acc s; t_mag := t; inited := inited s; has_mag := true |}, [ACorrMag t])
  | Imu t ok =>
      let dt := t - t_imu s in
      if negb (inited s) then
        if has_mag s
        then ({| t_imu := t; t_acc := t_acc s; t_mag := t_mag s; inited := ok; has_mag := has_mag s |}, [AInit ok])
        else ({| t_imu := t; t_acc := t_acc s; t_mag := t_mag s; inited := false; has_mag := has_mag s |}, [])
      else if Z.leb dt 0 then
        ({| t_imu := t; t_acc := t_acc s; t_mag := t_mag s; inited := true; has_mag := has_mag s |}, [])
      else if ge_thr (t - t_acc s) (acc_num c) (acc_den c) then
        ({| t_imu := t; t_acc := t; t_mag := t_mag s; inited := true; has_mag := has_mag s |}, [APredict t dt; ACorrAccel t; APublish t])
      else
        ({| t_imu := t; t_acc := t_acc s; t_mag := t_mag s; inited := true; has_mag := has_mag s |}, [APredict t dt; APublish t])
  end.

Fixpoint nrun (c : cfg) (s : nstate) (ms : list msg) : nstate * list act :=
  match ms with
  | [] => (s, [])
  | m :: r => let (s1, a) := nstep c s m in let (s2, b) := nrun c s1 r in (s2, a ++ b)
  end.
