(* C09: straight-line register programs, as CasADi's instruction API gives them and as the generated C
   bodies are parsed; generic semantics over an arbitrary carrier (in particular IEEE doubles with NaN). *)
From Coq Require Import ZArith List PArith Bool.
Import ListNotations.

Inductive instr : Type :=
| IConst (o : positive) (num : Z) (den : positive)      (* exact value of the double *)
| IInf (o : positive) (neg : bool)                      (* +-infinity *)
| IInput (o : positive) (i k : N)
| IOutput (r k : N) (a : positive)
| IOp1 (o : positive) (f : N) (a : positive)            (* f: CasADi opcode number *)
| IOp2 (o : positive) (f : N) (a b : positive).

Definition instr_eqb (x y : instr) : bool :=
  match x, y with
  | IConst o n d, IConst o' n' d' => Pos.eqb o o' && Z.eqb n n' && Pos.eqb d d'
  | IInf o s, IInf o' s' => Pos.eqb o o' && Bool.eqb s s'
  | IInput o i k, IInput o' i' k' => Pos.eqb o o' && N.eqb i i' && N.eqb k k'
  | IOutput r k a, IOutput r' k' a' => N.eqb r r' && N.eqb k k' && Pos.eqb a a'
  | IOp1 o f a, IOp1 o' f' a' => Pos.eqb o o' && N.eqb f f' && Pos.eqb a a'
  | IOp2 o f a b, IOp2 o' f' a' b' => Pos.eqb o o' && N.eqb f f' && Pos.eqb a a' && Pos.eqb b b'
  | _, _ => false
  end.

Lemma instr_eqb_eq x y : instr_eqb x y = true -> x = y.
Proof.
  destruct x, y; simpl; try discriminate; intro H;
  repeat match goal with H : _ && _ = true |- _ => apply andb_true_iff in H; destruct H end;
  repeat match goal with
  | H : Pos.eqb _ _ = true |- _ => apply Pos.eqb_eq in H
  | H : Z.eqb _ _ = true |- _ => apply Z.eqb_eq in H
  | H : N.eqb _ _ = true |- _ => apply N.eqb_eq in H
  | H : Bool.eqb _ _ = true |- _ => apply Bool.eqb_prop in H
  end; subst; reflexivity.
Qed.

Fixpoint prog_eqb (p q : list instr) : bool :=
  match p, q with
  | [], [] => true
  | x :: p', y :: q' => instr_eqb x y && prog_eqb p' q'
  | _, _ => false
  end.
Lemma prog_eqb_eq p q : prog_eqb p q = true -> p = q.
Proof.
  revert q; induction p as [|x p IH]; destruct q as [|y q]; simpl; try discriminate; [reflexivity|].
  intro H. apply andb_true_iff in H. destruct H as [H1 H2]. f_equal; [apply instr_eqb_eq, H1 | apply IH, H2].
Qed.

(* a named function: export name, number of inputs/outputs, non-zero counts (sparsity sizes), body *)
Record func := { f_name : list N; f_nnz_in : list N; f_nnz_out : list N; f_body : list instr }.
Fixpoint listN_eqb (a b : list N) : bool :=
  match a, b with [], [] => true | x :: a', y :: b' => N.eqb x y && listN_eqb a' b' | _, _ => false end.
Lemma listN_eqb_eq a b : listN_eqb a b = true -> a = b.
Proof.
  revert b; induction a as [|x a IH]; destruct b as [|y b]; simpl; try discriminate; [reflexivity|].
  intro H. apply andb_true_iff in H. destruct H as [H1 H2]. apply N.eqb_eq in H1. f_equal; [exact H1 | apply IH, H2].
Qed.
Definition func_eqb (f g : func) : bool :=
  listN_eqb (f_name f) (f_name g) && listN_eqb (f_nnz_in f) (f_nnz_in g) && listN_eqb (f_nnz_out f) (f_nnz_out g) && prog_eqb (f_body f) (f_body g).
Lemma func_eqb_eq f g : func_eqb f g = true -> f = g.
Proof.
  destruct f, g; unfold func_eqb; simpl. intro H.
  repeat match goal with H : _ && _ = true |- _ => apply andb_true_iff in H; destruct H end.
  repeat match goal with H : listN_eqb _ _ = true |- _ => apply listN_eqb_eq in H end.
  match goal with H : prog_eqb _ _ = true |- _ => apply prog_eqb_eq in H end. subst. reflexivity.
Qed.
Fixpoint funcs_eqb (a b : list func) : bool :=
  match a, b with [], [] => true | x :: a', y :: b' => func_eqb x y && funcs_eqb a' b' | _, _ => false end.
Lemma funcs_eqb_eq a b : funcs_eqb a b = true -> a = b.
Proof.
  revert b; induction a as [|x a IH]; destruct b as [|y b]; simpl; try discriminate; [reflexivity|].
  intro H. apply andb_true_iff in H. destruct H as [H1 H2]. f_equal; [apply func_eqb_eq, H1 | apply IH, H2].
Qed.

(* ---- semantics over an arbitrary carrier ---- *)
Section Sem.
Variable T : Type.
Record sem := { s_zero : T; s_const : Z -> positive -> T; s_inf : bool -> T; s_op1 : N -> T -> T; s_op2 : N -> T -> T -> T }.
Variable S : sem.
Definition regs := positive -> T.
Definition upd (r : regs) (o : positive) (v : T) : regs := fun x => if Pos.eqb x o then v else r x.
(* inputs: argument index, non-zero index -> value; outputs accumulated as (result index, non-zero index, value) *)
Fixpoint run (p : list instr) (inp : N -> N -> T) (r : regs) (outs : list (N * N * T)) : list (N * N * T) :=
  match p with
  | [] => outs
  | IConst o n d :: p' => run p' inp (upd r o (s_const S n d)) outs
  | IInf o s :: p' => run p' inp (upd r o (s_inf S s)) outs
  | IInput o i k :: p' => run p' inp (upd r o (inp i k)) outs
  | IOutput ri k a :: p' => run p' inp r (outs ++ [(ri, k, r a)])
  | IOp1 o f a :: p' => run p' inp (upd r o (s_op1 S f (r a))) outs
  | IOp2 o f a b :: p' => run p' inp (upd r o (s_op2 S f (r a) (r b))) outs
  end.
Definition run_func (f : func) (inp : N -> N -> T) : list (N * N * T) := run (f_body f) inp (fun _ => s_zero S) [].
End Sem.

(* Translation validation: if the parsed C functions and the symbolic functions are equal as data (decided by
   computation in the kernel), they compute the same outputs from the same inputs under EVERY interpretation of
   the primitive operations, including interpretations with NaN and infinities. *)
Theorem same_programs_same_results (c sx : list func) :
  funcs_eqb c sx = true ->
  map f_name c = map f_name sx /\
  forall (T : Type) (S : sem T) (inp : N -> N -> T), map (fun f => run_func T S f inp) c = map (fun f => run_func T S f inp) sx.
Proof. intro H. apply funcs_eqb_eq in H. subst. split; reflexivity. Qed.
