(* C20: executable model of cyecca/sim/uros.py (publish/subscribe core, parameters, lock) *)
From Coq Require Import List NArith ZArith Bool Lia.
Import ListNotations.
Local Open Scope N_scope.

Definition topic := N.   (* 0 is the "params" topic the Core creates itself *)
Definition ty := N.      (* message class; 0 = Params *)

Record bus := {
  pubs : list (topic * ty);                (* publisher registry: one per topic *)
  subs : list (N * topic);                 (* subscriber objects (id, topic) in registration order *)
  nsub : N;                                (* next subscriber id *)
  locked : bool;                           (* set when the logger is created *)
  declared : list (N * Z);                 (* declared parameters (name, initial value), declaration order *)
  cparams : option (list (N * Z));         (* core._params once init_params ran: fixed set of names *)
  pnodes : list (N * list N);              (* subscriber id of a parameter-following node -> names it holds *)
  caches : list (N * N * Z)                (* (node, name) -> value the node currently sees *)
}.

Definition init : bus :=
  {| pubs := [(0, 0)]; subs := []; nsub := 0; locked := false; declared := []; cparams := None; pnodes := []; caches := [] |}.

Inductive op :=
| NewPub (t : topic) (y : ty)
| NewSub (t : topic)
| Publish (t : topic) (y : ty) (m : N)          (* message m of class y through the publisher of topic t *)
| Lock
| NewParamNode (names : list N) (vals : list Z)  (* a node declaring parameters and following the params topic *)
| InitParams
| SetParam (n : N) (v : Z)
| ReadCache (node : N) (n : N).

Inductive out :=
| OErr
| OOk (deliveries : list (N * N))                (* (subscriber id, message) in callback order *)
| OId (id : N)
| OVal (v : option Z).

Fixpoint lookup {A} (k : N) (l : list (N * A)) : option A :=
  match l with [] => None | (k', v) :: l' => if N.eqb k k' then Some v else lookup k l' end.
Fixpoint update (k : N) (v : Z) (l : list (N * Z)) : list (N * Z) :=
  match l with [] => [] | (k', v') :: l' => if N.eqb k k' then (k', v) :: l' else (k', v') :: update k v l' end.
Definition has {A} (k : N) (l : list (N * A)) : bool := match lookup k l with Some _ => true | None => false end.

(* subscribers of a topic, in registration order *)
Definition subscribers (b : bus) (t : topic) : list N :=
  map fst (filter (fun s => N.eqb (snd s) t) (subs b)).

Definition deliver (b : bus) (t : topic) (m : N) : list (N * N) := map (fun s => (s, m)) (subscribers b t).

(* after a broadcast on the params topic every following node re-reads all its parameters from the core *)
Definition refresh (b : bus) (ps : list (N * Z)) : list (N * N * Z) :=
  let following := filter (fun nd => existsb (N.eqb (fst nd)) (subscribers b 0)) (pnodes b) in
  flat_map (fun nd => flat_map (fun n => match lookup n ps with Some v => [(fst nd, n, v)] | None => [] end) (snd nd)) following
  ++ filter (fun c => negb (existsb (N.eqb (fst (fst c))) (map fst following))) (caches b).

Fixpoint any_dup (names : list N) (known : list (N * Z)) : bool :=
  match names with [] => false | n :: r => has n known || existsb (N.eqb n) r || any_dup r known end.

(* parameters can be declared only before init_params builds the broadcast message (uros raises afterwards) *)
Definition initialised (b : bus) : bool := match cparams b with Some _ => true | None => false end.

Definition step (b : bus) (o : op) : bus * out :=
  match o with
  | NewPub t y =>
      if locked b || has t (pubs b) then (b, OErr)
      else ({| pubs := pubs b ++ [(t, y)]; subs := subs b; nsub := nsub b; locked := locked b; declared := declared b;
               cparams := cparams b; pnodes := pnodes b; caches := caches b |}, OOk [])
  | NewSub t =>
      if locked b then (b, OErr)
      else ({| pubs := pubs b; subs := subs b ++ [(nsub b, t)]; nsub := nsub b + 1; locked := locked b; declared := declared b;
               cparams := cparams b; pnodes := pnodes b; caches := caches b |}, OId (nsub b))
  | Publish t y m =>
      match lookup t (pubs b) with
      | None => (b, OErr)
      | Some y0 => if N.eqb y y0 then (b, OOk (deliver b t m)) else (b, OErr)
      end
  | Lock =>
      (* uros.Logger(core): declares "logger/dt" (name 999, 5 ms), subscribes to every published topic in registry
         order, follows the params topic, then locks *)
      if locked b || has 999 (declared b) || initialised b then (b, OErr)
      else
        let newsubs := map (fun it => (nsub b + N.of_nat (fst it), fst (snd it))) (combine (seq 0 (length (pubs b))) (pubs b)) in
        let pid := match filter (fun s => N.eqb (snd s) 0) newsubs with s :: _ => fst s | [] => 0 end in
        ({| pubs := pubs b; subs := subs b ++ newsubs; nsub := nsub b + N.of_nat (length (pubs b)); locked := true;
            declared := declared b ++ [(999, 5%Z)]; cparams := cparams b;
            pnodes := pnodes b ++ [(pid, [999])]; caches := caches b ++ [(pid, 999, 5%Z)] |}, OOk [])
  | NewParamNode names vals =>
      if locked b || any_dup names (declared b) || negb (Nat.eqb (length names) (length vals)) || initialised b then (b, OErr)
      else let id := nsub b in
           ({| pubs := pubs b; subs := subs b ++ [(id, 0)]; nsub := id + 1; locked := locked b;
               declared := declared b ++ combine names vals; cparams := cparams b;
               pnodes := pnodes b ++ [(id, names)]; caches := caches b ++ map (fun nv => (id, fst nv, snd nv)) (combine names vals) |}, OId id)
  | InitParams =>
      ({| pubs := pubs b; subs := subs b; nsub := nsub b; locked := locked b; declared := declared b;
          cparams := Some (declared b); pnodes := pnodes b; caches := caches b |}, OOk [])
  | SetParam n v =>
      match cparams b with
      | None => (b, OErr)
      | Some ps =>
          if has n ps then
            let ps' := update n v ps in
            ({| pubs := pubs b; subs := subs b; nsub := nsub b; locked := locked b; declared := declared b;
                cparams := Some ps'; pnodes := pnodes b; caches := refresh b ps' |}, OOk (deliver b 0 0))
          else (b, OErr)
      end
  | ReadCache node n =>
      (b, OVal (match filter (fun c => N.eqb (fst (fst c)) node && N.eqb (snd (fst c)) n) (caches b) with
                | c :: _ => Some (snd c) | [] => None end))
  end.

Fixpoint run (b : bus) (ops : list op) : bus * list out :=
  match ops with
  | [] => (b, [])
  | o :: r => let (b1, x) := step b o in let (b2, xs) := run b1 r in (b2, x :: xs)
  end.
Definition state_after (ops : list op) : bus := fst (run init ops).
