(* C19: model of cyecca.symbolic.sympy_to_casadi / casadi_to_sympy on expression trees.
   Names (symbols, function heads) are numbers; a user function dictionary is a list of heads. *)
From Coq Require Import Reals List NArith ZArith Bool Lia.
Import ListNotations.
Local Open Scope R_scope.

(* ---------- SymPy side ---------- *)
Inductive sy : Type :=
| SInt (z : Z)
| SRat (p : Z) (q : positive)
| SFloat (m : Z) (e : Z)            (* m * 2^e: every binary float *)
| SHalf
| SSym (x : N)
| SAdd (args : list sy)
| SMul (args : list sy)
| SPow (b e : sy)
| SFun (h : N) (a : sy)             (* heads 0..3 = sin cos tan atan; >= 10: user functions *)
| SOther (tag : N).                 (* anything the converter does not handle: Max, Abs, exp, pi, Piecewise, ... *)

(* ---------- CasADi side ---------- *)
(* constants stay syntactic so that the model's output can be printed and compared; [cval] gives their value *)
Inductive cst : Type := KInt (z : Z) | KFloat (m e : Z) | KHalf.
Inductive ca : Type :=
| CConst (k : cst)
| CSym (x : N)
| CAdd (a b : ca) | CMul (a b : ca) | CDiv (a b : ca) | CPow (a b : ca)
| CSqrt (a : ca)
| CFun (h : N) (a : ca).

Section Eval.
Variable env : N -> R.               (* value of every symbol *)
Variable ufun : N -> R -> R.         (* meaning of user function heads, shared by both sides *)
Variable powR : R -> R -> R.         (* the real power function, shared by both sides *)

Definition builtin (h : N) (x : R) : R :=
  match h with 0%N => sin x | 1%N => cos x | 2%N => tan x | 3%N => atan x | _ => ufun h x end.

Definition float_val (m e : Z) : R := IZR m * powerRZ 2 e.
Definition cval (k : cst) : R := match k with KInt z => IZR z | KFloat m e => float_val m e | KHalf => 1 / 2 end.

Fixpoint evalS (s : sy) : R :=
  match s with
  | SInt z => IZR z
  | SRat p q => IZR p / IZR (Zpos q)
  | SFloat m e => float_val m e
  | SHalf => 1 / 2
  | SSym x => env x
  | SAdd args => fold_right (fun a acc => evalS a + acc) 0 args
  | SMul args => fold_right (fun a acc => evalS a * acc) 1 args
  | SPow b SHalf => sqrt (evalS b)
  | SPow b e => powR (evalS b) (evalS e)
  | SFun h a => builtin h (evalS a)
  | SOther _ => 0
  end.

Fixpoint evalC (c : ca) : R :=
  match c with
  | CConst k => cval k
  | CSym x => env x
  | CAdd a b => evalC a + evalC b
  | CMul a b => evalC a * evalC b
  | CDiv a b => evalC a / evalC b
  | CPow a b => powR (evalC a) (evalC b)
  | CSqrt a => sqrt (evalC a)
  | CFun h a => builtin h (evalC a)
  end.
End Eval.

(* ---------- the converter, threading the symbol table exactly as the code does ---------- *)
Definition symtab := list N.          (* names in creation order; a name is bound at most once *)
Definition bind (x : N) (t : symtab) : symtab := if existsb (N.eqb x) t then t else t ++ [x].

(* left folds mirror `s = 0; for arg in f.args: s += prs(arg)` *)
Fixpoint conv (fdict : list N) (fuel : nat) (s : sy) (t : symtab) : option (ca * symtab) :=
  match fuel with
  | O => None
  | S f =>
    let fix conv_list (l : list sy) (t : symtab) : option (list ca * symtab) :=
      match l with
      | [] => Some ([], t)
      | a :: r => match conv fdict f a t with
                  | None => None
                  | Some (c, t1) => match conv_list r t1 with None => None | Some (cs, t2) => Some (c :: cs, t2) end
                  end
      end in
    match s with
    | SInt z => Some (CConst (KInt z), t)
    | SRat p q => Some (CDiv (CConst (KInt p)) (CConst (KInt (Zpos q))), t)
    | SFloat m e => Some (CConst (KFloat m e), t)
    | SHalf => Some (CConst KHalf, t)
    | SSym x => Some (CSym x, bind x t)
    | SAdd args => match conv_list args t with
                   | None => None
                   | Some (cs, t1) => Some (fold_left CAdd cs (CConst (KInt 0)), t1)
                   end
    | SMul args => match conv_list args t with
                   | None => None
                   | Some (cs, t1) => Some (fold_left CMul cs (CConst (KInt 1)), t1)
                   end
    | SPow b e =>
        match conv fdict f b t with
        | None => None
        | Some (cb, t1) =>
            match e with
            | SHalf => Some (CSqrt cb, t1)
            | _ => match conv fdict f e t1 with None => None | Some (ce, t2) => Some (CPow cb ce, t2) end
            end
        end
    | SFun h a =>
        if (N.ltb h 4 || existsb (N.eqb h) fdict)%bool
        then match conv fdict f a t with None => None | Some (c, t1) => Some (CFun h c, t1) end
        else None
    | SOther _ => None
    end
  end.

Fixpoint size (s : sy) : nat :=
  match s with
  | SAdd args | SMul args => S (fold_right (fun a acc => size a + acc)%nat 0%nat args)
  | SPow b e => S (size b + size e)
  | SFun _ a => S (size a)
  | _ => 1%nat
  end.
