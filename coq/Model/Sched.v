(* C20: simpy's environment restricted to Timeout-driven processes (event = (time, insertion id), pop the minimum),
   with scripted periodic publishers and the uros periodic logger.  Times are integer ticks. *)
From Coq Require Import List ZArith NArith Bool Lia.
Import ListNotations.
Local Open Scope Z_scope.

(* PSet v: a process that calls core.set_param("logger/dt", v) every `period` ticks (a parameter update while the
   simulation runs); the logger follows the params topic, so its NEXT wait uses v *)
Inductive pkind := PPub (topic : N) | PLog | PSet (v : Z).
Record proc := { kind : pkind; period : Z }.          (* period > 0; for PLog: the period set before the run *)

Record ev := { e_t : Z; e_id : N; e_pid : nat }.
Record sstate := {
  queue : list ev;                     (* sorted by (time, id) *)
  next_id : N;
  counts : list (nat * N);             (* messages published so far, per process *)
  latest : list (N * N);               (* topic -> sequence number of the latest message the logger saw *)
  rows : list (Z * list (N * N));      (* logger rows, oldest first: (time stamp, snapshot of latest) *)
  log_dt : option Z;                   (* logger/dt as last set while running (None: still the initial period) *)
  waits : list Z                       (* ghost: the wait the logger scheduled after each row (not observable) *)
}.

Fixpoint insert (e : ev) (q : list ev) : list ev :=
  match q with
  | [] => [e]
  | x :: r => if Z.leb (e_t x) (e_t e) then x :: insert e r else e :: q     (* ids grow: equal times keep insertion order *)
  end.

Fixpoint set_latest (t : N) (v : N) (l : list (N * N)) : list (N * N) :=
  match l with
  | [] => [(t, v)]
  | (t', v') :: r => if N.eqb t t' then (t, v) :: r else (t', v') :: set_latest t v r
  end.
Fixpoint get_count (p : nat) (l : list (nat * N)) : N :=
  match l with [] => 0%N | (p', c) :: r => if Nat.eqb p p' then c else get_count p r end.
Fixpoint set_count (p : nat) (c : N) (l : list (nat * N)) : list (nat * N) :=
  match l with [] => [(p, c)] | (p', c') :: r => if Nat.eqb p p' then (p, c) :: r else (p', c') :: set_count p c r end.

(* one resumption of process pid at time t *)
Definition fire (ps : list proc) (s : sstate) (t : Z) (pid : nat) (q : list ev) : sstate :=
  match nth_error ps pid with
  | None => {| queue := q; next_id := next_id s; counts := counts s; latest := latest s; rows := rows s;
               log_dt := log_dt s; waits := waits s |}
  | Some p =>
      let e := {| e_t := t + period p; e_id := next_id s; e_pid := pid |} in
      match kind p with
      | PPub topic =>
          let c := (get_count pid (counts s) + 1)%N in
          {| queue := insert e q; next_id := (next_id s + 1)%N; counts := set_count pid c (counts s);
             latest := set_latest topic (N.of_nat pid * 100000 + c)%N (latest s); rows := rows s;
             log_dt := log_dt s; waits := waits s |}
      | PLog =>
          (* Logger.run: stamp, append, then wait self.dt.get() -- the value in force NOW *)
          let d := match log_dt s with Some d => d | None => period p end in
          let e' := {| e_t := t + d; e_id := next_id s; e_pid := pid |} in
          {| queue := insert e' q; next_id := (next_id s + 1)%N; counts := counts s; latest := latest s;
             rows := rows s ++ [(t, latest s)]; log_dt := log_dt s; waits := waits s ++ [d] |}
      | PSet v =>
          {| queue := insert e q; next_id := (next_id s + 1)%N; counts := counts s; latest := latest s; rows := rows s;
             log_dt := Some v; waits := waits s |}
      end
  end.

(* all processes start at time 0 in creation order *)
Fixpoint start (ps : list proc) (all : list proc) (pid : nat) (s : sstate) : sstate :=
  match ps with
  | [] => s
  | _ :: r => start r all (S pid) (fire all s 0 pid (queue s))
  end.
Definition s0 : sstate := {| queue := []; next_id := 0%N; counts := []; latest := []; rows := []; log_dt := None; waits := [] |}.

(* run until tf (exclusive: simpy's `until` event has urgent priority), fuel bounds the number of events *)
Fixpoint srun (ps : list proc) (tf : Z) (fuel : nat) (s : sstate) : sstate :=
  match fuel with
  | O => s
  | S f =>
      match queue s with
      | [] => s
      | e :: q => if Z.ltb (e_t e) tf then srun ps tf f (fire ps s (e_t e) (e_pid e) q) else s
      end
  end.
Definition final (ps : list proc) (tf : Z) (fuel : nat) : sstate := srun ps tf fuel (start ps ps 0%nat s0).
Definition simulate (ps : list proc) (tf : Z) (fuel : nat) : list (Z * list (N * N)) := rows (final ps tf fuel).
(* well-formed process table: positive periods and positive logger/dt values *)
Definition proc_ok (p : proc) : Prop := 0 < period p /\ match kind p with PSet v => 0 < v | _ => True end.
