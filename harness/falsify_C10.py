"""C10 falsification search: util.py numerics on the real code vs numpy."""
import numpy as np
import casadi as ca
import hcommon as H


def rand_spd(rng, n):
    A = rng.normal(size=(n, n))
    return A @ A.T + n * 0.3 * np.eye(n)


def rand_lower(rng, n):
    L = np.tril(rng.normal(size=(n, n)))
    L[np.diag_indices(n)] = np.abs(np.diag(L)) + 0.5
    return L


def low(M):
    """DM with lower-triangular sparsity from a dense lower-triangular numpy matrix"""
    n = M.shape[0]
    return ca.DM(ca.Sparsity.lower(n), [float(M[i, j]) for j in range(n) for i in range(j, n)])


def search(S):
    from cyecca import util
    rng = S.rng
    N = max(4, S.budget // 12)
    for k in range(N):
        n = int(rng.integers(2, 7))
        m = int(rng.integers(1, min(n, 3) + 1))
        # factorizations
        # SPD matrices at every scale (a covariance of small quantities is as SPD as one with entries of order 1)
        P = rand_spd(rng, n) * float([1.0, 1.0, 1e-6, 1e-10, 1e-14, 1e6][k % 6])
        Ps = ca.SX.sym("P", n, n)
        for nm, fn in (("ldl", util.ldl_symmetric_decomposition), ("udu", util.udu_symmetric_decomposition)):
            Lm, D = fn(Ps)
            f = ca.Function("f", [Ps], [Lm, D])
            Lv, Dv = (np.array(ca.DM(x)) for x in f(P))
            ok = H.close(Lv @ Dv @ Lv.T, P, 1e-8, scale=float(np.max(np.abs(P)))) and H.close(np.diag(Lv), np.ones(n)) and H.close(Dv, np.diag(np.diag(Dv)))
            ok = ok and (H.close(np.triu(Lv, 1), 0 * Lv) if nm == "ldl" else H.close(np.tril(Lv, -1), 0 * Lv))
            S.check("util." + nm, "reconstruct", {"n": n, "P": P.tolist()}, ok, P.tolist(), (Lv @ Dv @ Lv.T).tolist(), "factor * D * factor^T != P or factor not unit triangular")
        # sqrt covariance predict
        W = rand_lower(rng, n)
        F = rng.normal(size=(n, n))
        Q = rand_spd(rng, n) * 0.1
        Ws = ca.SX.sym("W", ca.Sparsity.lower(n)); Fs = ca.SX.sym("F", n, n); Qs = ca.SX.sym("Q", n, n)
        f = ca.Function("f", [Ws, Fs, Qs], [util.sqrt_covariance_predict(Ws, Fs, Qs)])
        Wd = np.array(ca.DM(f(low(W), F, Q)))
        Pm = W @ W.T
        lhs = Wd @ W.T + W @ Wd.T
        rhs = F @ Pm + Pm @ F.T + Q
        S.check("util.sqrt_covariance_predict", "identity", {"n": n, "W": W.tolist(), "F": F.tolist(), "Q": Q.tolist()},
                H.close(lhs, rhs, 1e-7, scale=max(1.0, np.max(np.abs(rhs)))) and H.close(np.triu(Wd, 1), 0 * Wd, 1e-9, scale=max(1.0, np.max(np.abs(Wd)))),
                rhs.tolist(), lhs.tolist(), "W'W^T + W W'^T != F P + P F^T + Q, or W' not lower triangular")
        # sqrt correct: decoupled and dense measurement models
        for dense in (False, True):
            Hm = rng.normal(size=(m, n)) if dense else np.eye(n)[rng.permutation(n)[:m]] * rng.uniform(0.5, 2)
            Rs = rand_lower(rng, m) if dense else np.diag(rng.uniform(0.1, 1, m))
            Rss = ca.SX.sym("Rs", ca.Sparsity.lower(m)); Hs = ca.SX.sym("H", m, n)
            Wp, K, Ss = util.sqrt_correct(Rss, Hs, Ws)
            f = ca.Function("f", [Rss, Hs, Ws], [Wp, K, Ss])
            Wpv, Kv, Ssv = (np.array(ca.DM(x)) for x in f(low(Rs), Hm, low(W)))
            Sm = Hm @ Pm @ Hm.T + Rs @ Rs.T
            Kref = Pm @ Hm.T @ np.linalg.inv(Sm)
            inp = {"n": n, "m": m, "dense": dense, "Rs": Rs.tolist(), "H": Hm.tolist(), "W": W.tolist()}
            S.check("util.sqrt_correct", "innovation", inp, H.close(Ssv @ Ssv.T, Sm, 1e-8), Sm.tolist(), (Ssv @ Ssv.T).tolist(), "Ss Ss^T != H P H^T + R")
            S.check("util.sqrt_correct", "gain", inp, H.close(Kv, Kref, 1e-7), Kref.tolist(), Kv.tolist(), "K != P H^T S^-1")
            Pp = (np.eye(n) - Kv @ Hm) @ Pm
            S.check("util.sqrt_correct", "posterior", inp, H.close(Wpv @ Wpv.T, Pp, 1e-7) and H.close(np.triu(Wpv, 1), 0 * Wpv), Pp.tolist(), (Wpv @ Wpv.T).tolist(), "W+ W+^T != (I - K H) P or W+ not lower triangular")
            ev = np.linalg.eigvalsh(Pm - Wpv @ Wpv.T)
            S.check("util.sqrt_correct", "decrease", inp, ev.min() >= -1e-9 * max(1.0, np.max(np.abs(Pm))), ">=0", float(ev.min()), "P - P+ is not positive semi-definite")
        # rk4
        a = rng.normal(size=4); t0 = float(rng.normal()); y0 = float(rng.normal()); h = float(rng.uniform(-2, 2))
        ys = ca.SX.sym("y"); hs = ca.SX.sym("h")
        f = ca.Function("f", [ys, hs], [util.rk4(lambda tt, yy: a[0] + a[1] * tt + a[2] * tt ** 2 + a[3] * tt ** 3, t0, ys, hs)])
        got = float(f(y0, h))
        want = y0 + sum(a[i] * ((t0 + h) ** (i + 1) - t0 ** (i + 1)) / (i + 1) for i in range(4))
        S.check("util.rk4", "exact_cubic", {"a": a.tolist(), "t": t0, "y": y0, "h": h}, abs(got - want) <= 1e-9 * max(1.0, abs(want)), want, got, "rk4 not exact for a cubic-in-time derivative")
        lam = float(rng.normal())
        f = ca.Function("f", [ys, hs], [util.rk4(lambda tt, yy: lam * yy, t0, ys, hs)])
        z = lam * h
        want = y0 * (1 + z + z ** 2 / 2 + z ** 3 / 6 + z ** 4 / 24)
        S.check("util.rk4", "order4", {"lam": lam, "y": y0, "h": h}, abs(float(f(y0, h)) - want) <= 1e-9 * max(1.0, abs(want)), want, float(f(y0, h)), "rk4 on y'=lam y is not the degree-4 Taylor polynomial")


H.run(search, "random sizes n in 2..6, m in 1..3: SPD matrices for LDL/UDU at scales 1e-14 .. 1e6, well-conditioned lower-triangular W, dense F, SPD Q, decoupled and dense (H, Rs); rk4 on cubic and linear fields; reference = numpy; distinct = distinct (unit, input)")
