"""C20 correspondence: the Coq model Model/Bus.v (evaluated by vm_compute) vs the real cyecca.sim.uros objects on the
same seeded operation histories.  Also the estimator-node gating model (Model/Node.v) vs the real AttitudeEstimator
driven with recording stub equations, and the logger/scheduler model (Model/Sched.v) vs real simpy runs.
Prints one JSON object: {"cases":, "disagreements": [...], "distribution": {...}}"""
import argparse
import io
import json
import os
import subprocess
import sys
import contextlib
import numpy as np

ROOT = os.path.dirname(os.path.dirname(os.path.abspath(__file__)))
WORK = os.path.join(ROOT, ".work")

MSG_CLASSES = ["Params", "Imu", "Mag", "Attitude", "EstimatorStatus"]


# ------------------------------------------------------------------ bus histories
def gen_history(rng, malformed):
    """list of ops as tuples; mostly valid, or (malformed) with duplicate publishers, late registrations, wrong types"""
    ops = []
    ntop = int(rng.integers(1, 6))
    topics = list(range(1, ntop + 1))
    types = {t: int(rng.integers(1, 5)) for t in topics}
    created = set()
    names = iter(range(1, 200))
    inited = False
    locked = False
    n = int(rng.integers(4, 28))
    for _ in range(n):
        r = rng.random()
        if r < 0.15:
            t = int(rng.choice(topics))
            if t in created and not malformed and rng.random() < 0.9:
                continue
            ops.append(("NewPub", t, types[t]))
            created.add(t)
        elif r < 0.4:
            t = int(rng.choice(topics + [0])) if rng.random() < 0.9 else int(ntop + 1 + rng.integers(0, 2))
            if locked and not malformed:
                continue
            ops.append(("NewSub", t))
        elif r < 0.75:
            t = int(rng.choice(topics)) if rng.random() < 0.9 or not malformed else int(ntop + 3)
            y = types.get(t, 1)
            if malformed and rng.random() < 0.4:
                y = 1 + (y % 4)
            if t not in created and not malformed:
                continue
            ops.append(("Publish", t, y, int(rng.integers(0, 1000))))
        elif r < 0.82:
            if inited and not malformed:
                continue
            if locked and not malformed:
                continue
            k = int(rng.integers(1, 4))
            nm = [next(names) for _ in range(k)]
            if malformed and rng.random() < 0.3 and len(nm) > 1:
                nm[1] = nm[0]
            # a third of the defaults are integer literals (as in Param(core, name, 0, "f8")): value a multiple of 1000 here,
            # declared to uros as a Python int; later non-integer updates must still arrive unrounded
            ops.append(("NewParamNode", nm, [int(rng.integers(-50, 50)) if rng.random() < 0.67 else 1000 * int(rng.integers(-3, 4)) for _ in nm]))
        elif r < 0.87:
            if inited:
                continue
            ops.append(("InitParams",))
            inited = True
        elif r < 0.95:
            declared = [x for o in ops if o[0] == "NewParamNode" for x in o[1]]
            if not declared:
                continue
            if not inited and not malformed:
                continue
            nm = int(rng.choice(declared)) if rng.random() < 0.9 or not malformed else 777
            ops.append(("SetParam", nm, int(rng.integers(-50, 50))))
        else:
            if locked and not malformed:
                continue
            if inited and not malformed:
                continue            # the logger declares a parameter: must precede init_params in a valid history
            ops.append(("Lock",))
            locked = True
        if rng.random() < 0.2:
            nodes = [o for o in ops if o[0] == "NewParamNode"]
            if nodes:
                nd = nodes[int(rng.integers(0, len(nodes)))]
                ops.append(("ReadCacheOf", ops.index(nd), int(rng.choice(nd[1]))))
    return ops


def run_real(ops):
    """execute on real uros objects; returns canonical outputs per op"""
    import cyecca.sim.uros as uros
    import cyecca.sim.msgs as msgs
    cls = [None, msgs.Imu, msgs.Mag, msgs.Attitude, msgs.EstimatorStatus]
    core = uros.Core()
    pubs = {}
    outs = []
    trace = []
    nsub = [0]
    node_params = {}       # op index -> (sub id, {name: Param})
    node_of_op = {}

    def mk_cb(i):
        return lambda msg: trace.append((i, getattr(msg, "_vid", 0)))

    for idx, o in enumerate(ops):
        trace.clear()
        try:
            if o[0] == "NewPub":
                p = uros.Publisher(core, "t%d" % o[1], cls[o[2]])
                pubs[o[1]] = p
                outs.append(["ok", []])
            elif o[0] == "NewSub":
                i = nsub[0]
                uros.Subscriber(core, "params" if o[1] == 0 else "t%d" % o[1], msgs.Msg, mk_cb(i))
                nsub[0] += 1
                outs.append(["id", i])
            elif o[0] == "Publish":
                if o[1] not in pubs:
                    outs.append(["err"])
                    continue
                m = cls[o[2]]()
                m._vid = o[3]
                pubs[o[1]].publish(m)
                outs.append(["ok", [list(x) for x in trace]])
            elif o[0] == "Lock":
                before = nsub[0]
                lg = uros.Logger(core)
                for k, (topic, s) in enumerate(lg.subs.items()):
                    orig = s.callback
                    s.callback = (lambda msg, orig=orig, i=before + k: (trace.append((i, getattr(msg, "_vid", 0))), orig(msg))[1])
                    if topic == "params":
                        node_params[idx] = (before + k, {999: lg.dt})
                nsub[0] += len(lg.subs)
                outs.append(["ok", []])
            elif o[0] == "NewParamNode":
                if len(set(o[1])) != len(o[1]) or any(("p%d" % n) in core._declared_params for n in o[1]) or core.pub_sub_locked:
                    # uros would raise part-way through the node's constructor (after declaring some parameters);
                    # the model rejects the whole node: only generated in the malformed stream, compared as "err"
                    raise ValueError("duplicate or late parameter declaration")
                i = nsub[0]
                ps = {n: uros.Param(core, "p%d" % n, (int(v // 1000) if v % 1000 == 0 else float(v) / 1000.0), "f8") for n, v in zip(o[1], o[2])}

                def cb(msg, ps=ps, i=i):
                    trace.append((i, getattr(msg, "_vid", 0)))
                    for p in ps.values():
                        p.update()
                uros.Subscriber(core, "params", msgs.Params, cb)
                nsub[0] += 1
                node_params[idx] = (i, ps)
                outs.append(["id", i])
            elif o[0] == "InitParams":
                core.init_params()
                outs.append(["ok", []])
            elif o[0] == "SetParam":
                name = "p%d" % o[1] if o[1] != 999 else "logger/dt"
                core.set_param(name, float(o[2]) / 1000.0)
                outs.append(["ok", [list(x) for x in trace]])
            elif o[0] == "ReadCacheOf":
                if o[1] in node_params:
                    i, ps = node_params[o[1]]
                    v = ps[o[2]].get()
                    outs.append(["val", i, int(round(v * 1000))])
                else:
                    outs.append(["val", None, None])
        except (AssertionError, ValueError, TypeError, KeyError, IndexError, AttributeError) as e:
            outs.append(["err"])
    return outs


def coq_op(o, ops):
    if o[0] == "NewPub":
        return "NewPub %d %d" % (o[1], o[2])
    if o[0] == "NewSub":
        return "NewSub %d" % o[1]
    if o[0] == "Publish":
        return "Publish %d %d %d" % (o[1], o[2], o[3])
    if o[0] == "Lock":
        return "Lock"
    if o[0] == "NewParamNode":
        return "NewParamNode [%s] [%s]%%Z" % ("; ".join(map(str, o[1])), "; ".join("(%d)" % v for v in o[2]))
    if o[0] == "InitParams":
        return "InitParams"
    if o[0] == "SetParam":
        return "SetParam %d (%d)%%Z" % (o[1], o[2])
    raise KeyError(o[0])


def run_model_bus(histories):
    """evaluate all histories in one coqc call; ReadCacheOf needs the node id, which the model returns from NewParamNode:
    the harness resolves it from the model's own outputs (second pass in Coq is avoided by printing every cache)"""
    lines = ["From Coq Require Import List NArith ZArith.", "From Cyecca Require Import Model.Bus.", "Import ListNotations.", "Local Open Scope N_scope.",
             "Definition show_out (o : out) : list Z := match o with OErr => [-1]%Z | OOk d => (0 :: flat_map (fun p => [Z.of_N (fst p); Z.of_N (snd p)]) d)%Z | OId i => [1; Z.of_N i]%Z | OVal (Some v) => [2; v]%Z | OVal None => [3]%Z end.",
             "Definition show_caches (b : bus) : list Z := flat_map (fun c => [Z.of_N (fst (fst c)); Z.of_N (snd (fst c)); snd c]) (caches b).",
             "Definition go (ops : list op) := let r := run init ops in (map show_out (snd r), show_caches (fst r))."]
    # caches are needed after every prefix that ends in ReadCacheOf: emit one evaluation per such prefix
    evals = []
    for hi, ops in enumerate(histories):
        real_ops = [o for o in ops if o[0] != "ReadCacheOf"]
        evals.append((hi, "full", real_ops))
        pref = []
        for k, o in enumerate(ops):
            if o[0] == "ReadCacheOf":
                evals.append((hi, k, list(pref)))
            else:
                pref.append(o)
    for hi, kind, ops in evals:
        lines.append("Eval vm_compute in (go [%s])." % "; ".join(coq_op(o, ops) for o in ops))
    os.makedirs(WORK, exist_ok=True)
    path = os.path.join(WORK, "bus_cases_%d.v" % os.getpid())
    with open(path, "w") as fh:
        fh.write("\n".join(lines) + "\n")
    p = subprocess.run(["timeout", "600", "coqc", "-Q", os.path.join(ROOT, "coq"), "Cyecca", "-w", "none", path], stdout=subprocess.PIPE, stderr=subprocess.STDOUT, text=True)
    for ext in (".v", ".vo", ".vok", ".vos", ".glob"):
        try:
            os.remove(path[:-2] + ext)
        except OSError:
            pass
    aux = os.path.join(WORK, ".bus_cases_%d.aux" % os.getpid())
    if os.path.exists(aux):
        os.remove(aux)
    if p.returncode != 0:
        raise RuntimeError("coqc failed on the generated cases: " + p.stdout[-1500:])
    txt = p.stdout.replace("\n", " ")
    import re
    res = []
    for m in re.finditer(r"=\s*\((\[.*?\]),\s*(\[[^\]]*\])\)\s*:", txt):
        outs = [[int(x.replace("%Z", "").strip("() ")) for x in g.split(";") if x.strip()] for g in re.findall(r"\[([^\[\]]*)\]", m.group(1))]
        caches = [int(x.replace("%Z", "").strip("() ")) for x in m.group(2).strip("[]").split(";") if x.strip()]
        res.append((outs, caches))
    if len(res) != len(evals):
        raise RuntimeError("parsed %d results for %d evaluations: %s" % (len(res), len(evals), p.stdout[:800]))
    return evals, res


def canon_model(ops, full_outs, cache_at):
    """model outputs -> same canonical form as run_real"""
    outs = []
    it = iter(full_outs)
    node_ids = {}
    for k, o in enumerate(ops):
        if o[0] == "ReadCacheOf":
            nid = node_ids.get(o[1])
            caches = cache_at[k]
            val = None
            if nid is not None:
                for j in range(0, len(caches), 3):
                    if caches[j] == nid and caches[j + 1] == o[2]:
                        val = caches[j + 2]
                        break
            outs.append(["val", nid, val])
            continue
        r = next(it)
        if r[0] == -1:
            outs.append(["err"])
        elif r[0] == 0:
            outs.append(["ok", [[r[i], r[i + 1]] for i in range(1, len(r), 2)]])
        elif r[0] == 1:
            outs.append(["id", r[1]])
            if o[0] == "NewParamNode":
                node_ids[k] = r[1]
        if o[0] == "Lock" and r[0] == 0:
            # the logger's params subscriber follows parameter 999; its id: first new subscriber on topic 0
            pass
    return outs


def bus_correspondence(rng, n):
    hist = [gen_history(rng, malformed=(i % 4 == 3)) for i in range(n)]
    evals, res = run_model_bus(hist)
    by_hist = {}
    for (hi, kind, ops), (outs, caches) in zip(evals, res):
        d = by_hist.setdefault(hi, {"full": None, "caches": {}})
        if kind == "full":
            d["full"] = outs
        else:
            d["caches"][kind] = caches
    dis = []
    stats = {"histories": n, "ops": 0, "errors": 0, "deliveries": 0, "kinds": {}}
    sink = io.StringIO()
    for hi, ops in enumerate(hist):
        with contextlib.redirect_stdout(sink):
            real = run_real(ops)
        # the Lock op registers the logger's parameter node: resolve ReadCacheOf on it
        model = canon_model(ops, by_hist[hi]["full"], by_hist[hi]["caches"])
        # ReadCacheOf on a Lock node: real knows the id, the model does not return one: compare values through caches only
        for k, o in enumerate(ops):
            stats["ops"] += 1
            stats["kinds"][o[0]] = stats["kinds"].get(o[0], 0) + 1
            if real[k][0] == "err":
                stats["errors"] += 1
            if real[k][0] == "ok":
                stats["deliveries"] += len(real[k][1])
        for k, (a, b) in enumerate(zip(real, model)):
            if ops[k][0] == "ReadCacheOf" and ops[ops[k][1]][0] != "NewParamNode":
                continue
            if a != b:
                dis.append({"history": [list(map(lambda x: x if not isinstance(x, np.integer) else int(x), o)) for o in ops], "op_index": k, "real": a, "model": b})
                break
    return len(hist), dis, stats


def main():
    ap = argparse.ArgumentParser()
    ap.add_argument("--seed", type=int, default=0)
    ap.add_argument("--budget", type=int, default=300)
    ap.add_argument("--mode", default="corr")
    ap.add_argument("--replay", default=None)
    a = ap.parse_args()
    rng = np.random.default_rng(a.seed)
    out = {"cases": 0, "disagreements": [], "distribution": {}}
    try:
        import corr_node
        n1, d1, s1 = bus_correspondence(rng, a.budget)
        out["cases"] += n1
        out["disagreements"] += [dict(d, part="bus") for d in d1[:5]]
        out["distribution"]["bus"] = s1
        n2, d2, s2 = corr_node.node_correspondence(rng, max(20, a.budget // 3))
        out["cases"] += n2
        out["disagreements"] += [dict(d, part="node") for d in d2[:5]]
        out["distribution"]["node"] = s2
        n3, d3, s3 = corr_node.sched_correspondence(rng, max(10, a.budget // 10))
        out["cases"] += n3
        out["disagreements"] += [dict(d, part="sched") for d in d3[:5]]
        out["distribution"]["sched"] = s3
        out["failures"] = corr_node.PROPERTY_FAILURES[:6]
    except Exception:
        import traceback
        out["crashed"] = True
        out["raw"] = traceback.format_exc()[-3000:]
    print(json.dumps(out, default=str))


if __name__ == "__main__":
    main()
