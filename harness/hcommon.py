"""Shared scaffolding of the falsification / correspondence harnesses (DESIGN.md section 4, step 5).

A harness module defines  search(S)  (S: Search; uses S.rng, S.budget, S.check(...))  and is run as
  python falsify_Cxx.py --seed N --budget B --mode search|replay [--replay FILE]
It prints ONE JSON object on the last line of stdout.
"""
import argparse
import io
import json
import math
import sys
import contextlib
import traceback

import numpy as np


class Search:
    def __init__(self, seed, budget, rule):
        self.rng = np.random.default_rng(seed)
        self.seed = seed
        self.budget = budget
        self.rule = rule
        self.evaluations = 0
        self.keys = set()
        self.failures = []
        self.samples = []
        self.by_unit = {}
        self.glue = []
        self.extra = {}

    def record(self, unit, inp, nontrivial=True):
        self.evaluations += 1
        self.by_unit[unit] = self.by_unit.get(unit, 0) + 1
        if nontrivial:
            self.keys.add((unit, json.dumps(inp, default=float, sort_keys=True)[:400]))
        if len(self.samples) < 6 and self.by_unit[unit] == 1:
            self.samples.append({"unit": unit, "input": inp})

    def fail(self, unit, cls, inp, expected, observed, what):
        if sum(1 for f in self.failures if f["unit"] == unit and f["class"] == cls) >= 3:
            return
        self.failures.append({"unit": unit, "class": cls, "input": inp, "expected": expected,
                              "observed": observed, "what": what})

    def check(self, unit, cls, inp, ok, expected=None, observed=None, what="", nontrivial=True):
        self.record(unit, inp, nontrivial)
        if not ok:
            self.fail(unit, cls, inp, expected, observed, what)
        return ok

    def report(self):
        return {"evaluations": self.evaluations, "distinct_nontrivial": len(self.keys), "rule": self.rule,
                "failures": self.failures, "samples": self.samples, "by_unit": self.by_unit, "seed": self.seed, "extra": self.extra}


def fl(x):
    """numpy / DM -> plain nested lists of float"""
    a = np.array(x, dtype=float)
    return a.tolist()


def close(a, b, tol=1e-9, scale=None):
    a = np.array(a, dtype=float).flatten()
    b = np.array(b, dtype=float).flatten()
    if a.shape != b.shape:
        return False
    if not (np.all(np.isfinite(a)) and np.all(np.isfinite(b))):
        return False
    s = scale if scale is not None else max(1.0, float(np.max(np.abs(a))) if a.size else 1.0, float(np.max(np.abs(b))) if b.size else 1.0)
    return bool(np.max(np.abs(a - b)) <= tol * s) if a.size else True


def run(search_fn, rule, replay_fn=None):
    ap = argparse.ArgumentParser()
    ap.add_argument("--seed", type=int, default=0)
    ap.add_argument("--budget", type=int, default=200)
    ap.add_argument("--mode", default="search")
    ap.add_argument("--replay", default=None)
    a = ap.parse_args()
    S = Search(a.seed, a.budget, rule)
    sink = io.StringIO()
    try:
        with contextlib.redirect_stdout(sink):
            if a.mode == "replay":
                with open(a.replay) as fh:
                    rec = json.load(fh)
                (replay_fn or default_replay(search_fn))(S, rec)
            else:
                search_fn(S)
        rep = S.report()
    except Exception:
        rep = {"crashed": True, "raw": traceback.format_exc()[-3000:], "evaluations": S.evaluations,
               "distinct_nontrivial": len(S.keys), "failures": S.failures, "samples": S.samples}
    print(json.dumps(rep, default=float))


def default_replay(search_fn):
    """replay = re-run the search with the recorded seed and report failures of the recorded (unit, class)"""
    def rp(S, rec):
        f = rec["failure"]
        search_fn(S)
        S.failures = [g for g in S.failures if g["unit"] == f["unit"] and g["class"] == f["class"]]
    return rp
