"""C13 falsification search: control allocation on the real code, against an independent numpy reference."""
import numpy as np
import hcommon as H


def search(S):
    from cyecca.models import rdd2
    f = rdd2.derive_control_allocation()["f_alloc"]
    rng = S.rng
    N = max(40, S.budget * 4)
    for k in range(N):
        mode = k % 8
        F_max = float(rng.uniform(0.5, 20))
        l, Cm, Ct = float(rng.uniform(0.05, 1)), float(rng.uniform(0.005, 1)), float(rng.uniform(1e-6, 1e-2))
        T = float(rng.choice([rng.uniform(-5, 0), rng.uniform(0, 4 * F_max), rng.uniform(4 * F_max, 20 * F_max)]))
        M = rng.normal(size=3) * np.array([l, l, Cm]) * F_max * rng.choice([0.0, 0.05, 0.5, 2.0, 20.0])
        if mode == 7:   # exact boundary: integer-valued demand with one motor at 0 and another at F_max
            F_max, l, Cm, Ct = 4.0, 1.0, 1.0, 1.0
            tgt = np.array(rng.permutation([0.0, 4.0, float(rng.integers(0, 5)), float(rng.integers(0, 5))]))
            B = np.array([[1, 1, 1, 1], [-l, l, l, -l], [-l, l, -l, l], [-Cm, -Cm, Cm, Cm]])
            tm = B @ tgt
            T, M = float(tm[0]), tm[1:]
        inp = {"F_max": F_max, "l": l, "Cm": Cm, "Ct": Ct, "T": T, "M": M.tolist()}
        omega, Fp, Fm, Ft, Msat = (np.array(o).flatten() for o in f(F_max, l, Cm, Ct, T, M))
        ok_range = np.all(np.isfinite(Fp)) and np.all(Fp >= -1e-12) and np.all(Fp <= F_max * (1 + 1e-12))
        S.check("rdd2.control_allocation", "range", inp, bool(ok_range), [0, F_max], Fp.tolist(), "motor force outside [0, F_max]")
        S.check("rdd2.control_allocation", "omega", inp, bool(np.all(np.isfinite(omega)) and np.all(omega >= 0) and H.close(omega ** 2 * Ct, Fp, 1e-9, scale=max(1.0, F_max))),
                None, omega.tolist(), "motor speed not sqrt(F/Ct) / not finite non-negative")
        Fs = Fm + Ft
        # independent mixer: forces -> (T, Mx, My, Mz)
        B = np.array([[1, 1, 1, 1], [-l, l, l, -l], [-l, l, -l, l], [-Cm, -Cm, Cm, Cm]])
        Tsat = min(max(T, 0.0), 4 * F_max)
        Mmax = l * 4 * F_max / 2
        Msat_ref = np.clip(M, -Mmax, Mmax)
        S.check("rdd2.control_allocation", "presat", inp, H.close(B @ Fs, np.concatenate([[Tsat], Msat_ref]), 1e-9, scale=max(1.0, F_max)) and H.close(Msat, Msat_ref),
                np.concatenate([[Tsat], Msat_ref]).tolist(), (B @ Fs).tolist(), "F_moment + F_thrust does not mix back to the range-limited demand")
        tol = 1e-9 * max(1.0, F_max)
        if np.all(Fs >= 0) and np.all(Fs <= F_max):
            S.check("rdd2.control_allocation", "exact_when_feasible", inp, H.close(Fp, Fs, 1e-9, scale=max(1.0, F_max)), Fs.tolist(), Fp.tolist(), "jointly achievable demand not reproduced exactly")
        if Fs.max() - Fs.min() <= F_max:
            d = Fp - Fs
            ok = np.max(np.abs(d - d[0])) <= tol
            if ok:
                need_up, need_dn = max(0.0, -Fs.min()), max(0.0, Fs.max() - F_max)
                ok = abs(d[0] - (need_up - need_dn)) <= tol
            S.check("rdd2.control_allocation", "moment_preserved_least_shift", inp, bool(ok), None, {"Fp": Fp.tolist(), "Fs": Fs.tolist()},
                    "achievable moment not realised exactly, or thrust shifted by more than the least amount")


H.run(search, "random geometry/propulsion constants, thrust demands below 0 / nominal / far above 4 F_max, moments from 0 to 20x saturation, plus exact-boundary integer demands (one motor at 0, one at F_max); reference = independent numpy mixer; distinct = distinct inputs")
