"""C12 exploration: the packaged attitude simulator + MRP estimator in closed loop, noise off (real code), plus direct
checks of the simulator's measurement functions against independent numpy references.  NOT a proof of convergence."""
import io
import contextlib
import numpy as np
import casadi as ca
import hcommon as H
import liegroups as L


def qmat(q):
    a, b, c, d = q
    return np.array([[a*a+b*b-c*c-d*d, 2*(b*c-a*d), 2*(b*d+a*c)], [2*(b*c+a*d), a*a+c*c-b*b-d*d, 2*(c*d-a*b)], [2*(b*d-a*c), 2*(c*d+a*b), a*a+d*d-b*b-c*c]])


def search(S):
    from cyecca.estimate.attitude import launch, algorithms
    rng = S.rng
    sim = algorithms.eqs()["sim"]
    # ---- sensor models, directly
    for k in range(max(10, S.budget // 4)):
        ax, ang = L.rand_rot(rng)
        r = np.tan(ang / 4) * ax
        x = np.concatenate([r, rng.normal(size=3) * 0.05])
        R = L.Rmat(ax, ang)
        g = float(rng.uniform(1, 20)); ms = float(rng.uniform(0.05, 1)); d = float(rng.uniform(-0.6, 0.6)); i = float(rng.uniform(-1.3, 1.3))
        if k % 3 == 0:
            d = 0.0
        if k % 3 == 1:
            i = 0.0
        ya = np.array(sim["measure_accel"](x, g, 0.01, [0, 0, 0])).flatten()
        ym = np.array(sim["measure_mag"](x, ms, d, i, 0.01, [0, 0, 0])).flatten()
        om = rng.normal(size=3)
        yg = np.array(sim["measure_gyro"](x, om, 0.01, [0, 0, 0])).flatten()
        inp = {"x": x.tolist(), "g": g, "mag_str": ms, "decl": d, "incl": i}
        S.check("sim.measure_accel", "model", inp, H.close(ya, R.T @ np.array([0, 0, -g]), 1e-9) and abs(np.linalg.norm(ya) - g) < 1e-9 * g, (R.T @ np.array([0, 0, -g])).tolist(), ya.tolist(), "accelerometer reading is not C_nb^T (-g e3)")
        Bn = L.Rmat(np.array([0, 0, 1.0]), d) @ L.Rmat(np.array([0, 1.0, 0]), -i) @ np.array([ms, 0, 0])
        S.check("sim.measure_mag", "model", inp, H.close(ym, R.T @ Bn, 1e-9) and abs(np.linalg.norm(ym) - ms) < 1e-9, (R.T @ Bn).tolist(), ym.tolist(), "magnetometer reading is not C_nb^T Rz(decl) Ry(-incl) e1 * strength")
        S.check("sim.measure_gyro", "model", inp, H.close(yg, om + x[3:6]), None, yg.tolist(), "gyro reading is not rate + bias")
    # ---- closed loop
    runs = max(3, S.budget // 70)
    for k in range(runs):
        initialize = bool(k % 2 == 0)
        ax, ang = L.rand_rot(rng)
        if initialize:
            ang = min(ang, 2.5)
        else:
            # without initialisation the filter starts at zero attitude: large initial errors, every other one mostly in yaw
            ang = float(rng.uniform(2.0, 3.0)) if k == 1 else float(rng.uniform(0.2, 3.0))      # the first one beyond 90 deg of yaw
            if (k // 2) % 2 == 0:
                ax = np.array([0.1 * rng.normal(), 0.1 * rng.normal(), 1.0]); ax /= np.linalg.norm(ax)
        x0 = np.concatenate([np.tan(ang / 4) * ax, rng.uniform(-0.05, 0.05, 3)])
        decl = float(rng.uniform(-0.4, 0.4)); incl = float(rng.uniform(-1.1, 1.1))
        if k % 4 == 3:
            decl = 0.0
        params = {"sim/enable_noise": False, "sim/mag_decl": decl, "sim/mag_incl": incl, "mrp/mag_decl": decl}
        if (k % 3 == 2 and k != 2) or k == 1:
            # corrections rate-limited below the sensor rates: 25 Hz magnetometer, accelerometer corrections at 50 Hz on a 200 Hz IMU
            params.update({"sim/dt_mag": 1.0 / 25, "mrp/dt_min_mag": 1.0 / 25, "mrp/dt_min_accel": 1.0 / 50, "logger/dt": 1.0 / 100})
        elif k == 2 or (k % 4 == 0 and k > 0):
            # estimator-side minimum periods LONGER than the sensor periods (50 Hz magnetometer used every third message,
            # accelerometer corrections at 40 Hz on the 200 Hz IMU): corrections must still be applied, just less often
            params.update({"mrp/dt_min_mag": 1.0 / 20, "mrp/dt_min_accel": 1.0 / 40})
        inp = {"x0": x0.tolist(), "initialize": initialize, "params": {a: (float(b) if not isinstance(b, bool) else b) for a, b in params.items()}, "tf": 20}
        sink = io.StringIO()
        try:
            with contextlib.redirect_stdout(sink):
                log = launch.launch_sim({"tf": 20, "initialize": initialize, "estimators": ["mrp"], "x0": list(map(float, x0)), "params": params})
        except Exception as e:
            S.check("launch_sim", "exception", inp, False, None, "%s: %s" % (type(e).__name__, str(e)[:200]), "closed-loop run raised")
            continue
        t = log["time"]
        qs, qe = log["sim_attitude"]["q"], log["mrp_attitude"]["q"]
        bs, be = log["sim_attitude"]["b"], log["mrp_attitude"]["b"]
        ok_rows = ~np.isnan(qe[:, 0]) & ~np.isnan(qs[:, 0])
        late = ok_rows & (t > 0.1)
        S.check("launch_sim", "nan", inp, bool(np.all(np.isfinite(qe[late])) and np.all(np.isfinite(be[late])) and late.sum() > 100), None, int(late.sum()), "NaN in the estimate (or estimator never produced output)")
        if late.sum() <= 100:
            continue
        err = []
        for a, b in zip(qs[ok_rows], qe[ok_rows]):
            Rrel = qmat(a).T @ qmat(b)
            err.append(np.arccos(np.clip((np.trace(Rrel) - 1) / 2, -1, 1)))
        err = np.array(err)
        tt = t[ok_rows]
        att_late = err[tt > 10]
        S.check("launch_sim", "attitude_convergence", inp, bool(att_late.size > 0 and np.max(att_late) < 0.03), "< 0.03 rad for t > 10 s", float(np.max(att_late)) if att_late.size else None,
                "attitude error does not stay below a few hundredths of a radian")
        bias_late = np.abs((be - bs)[ok_rows][tt > 15])
        S.check("launch_sim", "bias_convergence", inp, bool(bias_late.size > 0 and np.max(bias_late) < 0.01), "< 0.01 rad/s for t > 15 s (all three components)", np.max(bias_late, axis=0).tolist() if bias_late.size else None,
                "a gyro-bias component does not approach the true bias")
        acc = log["imu"]["accel"][ok_rows]
        mag = log["mag"]["mag"][~np.isnan(log["mag"]["mag"][:, 0])]
        S.check("launch_sim", "reading_magnitudes", inp, bool(np.allclose(np.linalg.norm(acc, axis=1), 9.8, atol=1e-6) and np.allclose(np.linalg.norm(mag, axis=1), 0.1, atol=1e-8)), [9.8, 0.1],
                [float(np.linalg.norm(acc, axis=1).max()), float(np.linalg.norm(mag, axis=1).max())], "simulated readings do not have the configured magnitudes")
        ret = log["mrp_status"]["accel_ret"][late]
        S.check("launch_sim", "corrections_accepted", inp, bool(np.nanmean(ret[-200:] == 0) > 0.9), "> 90% accepted late in the run", float(np.nanmean(ret[-200:] == 0)), "accelerometer corrections keep being rejected")


H.run(search, "sensor models on random attitudes with declination/inclination both zero, one zero, both non-zero; closed-loop runs of 20 simulated seconds, noise off, with and without initialisation, random true attitude (up to 2.5 rad with init; without init the estimate starts at zero with errors up to 3.0 rad, half of them mostly in yaw), biases in +-0.05 rad/s, inclination in +-1.1, declination in +-0.4, three rate settings (defaults; corrections limited to the sensor period at 25 Hz mag / 50 Hz accel; estimator minimum periods longer than the sensor periods); distinct = distinct (unit, input)")
