"""C15 falsification search: controller saturations and error laws on the real code, incl. long fed-back runs."""
import numpy as np
import casadi as ca
import hcommon as H
import liegroups as L


def search(S):
    from cyecca.models import rdd2, rdd2_loglinear
    rng = S.rng
    rate = rdd2.derive_attitude_rate_control()["attitude_rate_control"]
    vel = rdd2.derive_input_velocity()["input_velocity"]
    acro = rdd2.derive_input_acro()["input_acro"]
    att = rdd2.derive_attitude_control()["attitude_control"]
    pos = rdd2.derive_position_control()["position_control"]
    so3att = rdd2_loglinear.derive_so3_attitude_control()["so3_attitude_control"]
    N = max(2, S.budget // 60)
    # rate loop: long fed-back runs
    for run in range(N):
        kp, ki, kd = rng.uniform(0, 1, 3), rng.uniform(0, 1, 3), rng.uniform(0, 0.1, 3)
        imax = rng.uniform(0, 2, 3)
        fc = float(rng.uniform(1, 100))
        i0, e0, de0 = rng.uniform(-1, 1, 3) * imax, np.zeros(3), np.zeros(3)
        if run % 3 == 1:
            i0 = rng.uniform(-3, 3, 3)          # a previous integrator state outside the current limit (limit lowered, restored state)
        if run % 5 == 4:
            imax = imax * np.array([0.0, 1.0, 0.0])      # zero limits on some axes (as in the shipped simulation gains)
        for step in range(200):
            dt = float(rng.choice([0.004, 0.01, 0.02]))
            w, wr = rng.normal(size=3) * 5, rng.normal(size=3) * 5
            M, i1, e1, de1, alpha = (np.array(o).flatten() for o in rate(kp, ki, kd, fc, imax, w, wr, i0, e0, de0, dt))
            inp = {"run": run, "step": step, "i0": i0.tolist(), "imax": imax.tolist(), "dt": dt}
            S.check("rdd2.attitude_rate_control", "integrator_bound", inp, bool(np.all(np.abs(i1) <= imax + 1e-12)), imax.tolist(), i1.tolist(), "integrator left +-i_max", nontrivial=(step % 50 == 0))
            S.check("rdd2.attitude_rate_control", "alpha", inp, bool(0 < alpha[0] < 1), "(0,1)", float(alpha[0]), "filter coefficient outside (0,1)", nontrivial=False)
            S.check("rdd2.attitude_rate_control", "law", inp, H.close(e1, wr - w) and H.close(M, kp * e1 + ki * i1 + kd * de1, 1e-9, scale=max(1.0, np.max(np.abs(M)))), None, M.tolist(), "M != kp e + ki i + kd de", nontrivial=False)
            i0, e0, de0 = i1, e1, de1
    # velocity input: long fed-back runs crossing +-pi
    for run in range(N):
        psi, pwsp, pw = float(rng.uniform(-3, 3)), rng.normal(size=3), rng.normal(size=3)
        yaw_stick = float(rng.choice([1.0, -1.0, 0.3]))
        for step in range(800):
            dt = 0.01
            aetr = np.array([rng.uniform(-1, 1), rng.uniform(-1, 1), rng.uniform(-1, 1), yaw_stick])
            reset = 1.0 if rng.random() < 0.01 else 0.0
            out = [np.array(o).flatten() for o in vel(dt, psi, pwsp, pw, aetr, reset)]
            psi1, pwsp1, q = float(out[0][0]), out[2], out[5]
            inp = {"run": run, "step": step, "psi": psi, "aetr": aetr.tolist(), "reset": reset}
            S.check("rdd2.input_velocity", "yaw_range", inp, -np.pi - 1e-12 <= psi1 <= np.pi + 1e-12, "[-pi,pi]", psi1, "yaw set-point outside [-pi, pi]", nontrivial=(step % 100 == 0))
            S.check("rdd2.input_velocity", "leash", inp, np.linalg.norm(pwsp1 - pw) <= 2 + 1e-9, 2.0, float(np.linalg.norm(pwsp1 - pw)), "position set-point farther than 2 m", nontrivial=False)
            if reset:
                S.check("rdd2.input_velocity", "reset", inp, H.close(pwsp1, pw), pw.tolist(), pwsp1.tolist(), "reset does not put the set-point on the vehicle")
            S.check("rdd2.input_velocity", "q_sp", inp, H.close(q, [np.cos(psi1 / 2), 0, 0, np.sin(psi1 / 2)], 1e-9) or H.close(q, [-np.cos(psi1 / 2), 0, 0, -np.sin(psi1 / 2)], 1e-9), None, q.tolist(), "q_sp is not the yaw-only unit quaternion", nontrivial=False)
            psi, pwsp = psi1, pwsp1
            pw = pw + rng.normal(size=3) * 0.01
    # stick maps
    for k in range(N * 5):
        a = rng.uniform(-1, 1, 4)
        tt, td = float(rng.uniform(0, 20)), float(rng.uniform(0, 10))
        w, th = (np.array(o).flatten() for o in acro(tt, td, a))
        S.check("rdd2.input_acro", "linear", {"aetr": a.tolist()}, H.close(w, np.deg2rad(60) * a[[0, 1, 3]]) and abs(th[0] - (a[2] * td + tt)) < 1e-12, None, w.tolist(), "acro map is not linear with the stated slopes")
    # attitude laws: zero at zero error, exp of the command reaches the reference
    from cyecca.lie import SO3Quat
    from cyecca.lie.group_so3 import so3
    for k in range(N * 20):
        ax, ang = L.rand_rot(rng)
        q = L.quat_of(*L.rand_rot(rng)) * rng.choice([-1, 1])
        dq = L.quat_of(ax, min(ang, np.pi - 1e-2))
        qr = L.f((SO3Quat.elem(ca.DM(q)) * SO3Quat.elem(ca.DM(dq))).param).flatten() * rng.choice([-1, 1])
        kp = np.ones(3)
        om = np.array(att(kp, q, qr)).flatten()
        inp = {"q": q.tolist(), "q_r": qr.tolist()}
        reached = L.f((SO3Quat.elem(ca.DM(q)) * so3.elem(ca.DM(om)).exp(SO3Quat)).to_Matrix())
        S.check("rdd2.attitude_control", "reaches_reference", inp, H.close(reached, L.f(SO3Quat.elem(ca.DM(qr)).to_Matrix()), 1e-7), None, om.tolist(), "applying the commanded rotation does not reach the reference")
        S.check("rdd2.attitude_control", "principal", inp, np.linalg.norm(om) <= np.pi + 1e-9, "<=pi", float(np.linalg.norm(om)), "commanded rotation is not the smallest-angle one")
        om0 = np.array(att(kp, q, q * rng.choice([-1, 1]))).flatten()
        S.check("rdd2.attitude_control", "zero_at_zero_error", inp, np.linalg.norm(om0) <= 1e-9, 0.0, om0.tolist(), "non-zero command for identical attitudes")
    # position loop: height integrator limit (z_integral_max is a module constant)
    for k in range(N * 5):
        zi = float(rng.normal() * 5)
        out = pos(float(rng.uniform(5, 30)), rng.normal(size=3), rng.normal(size=3), rng.normal(size=3), L.quat_of(*L.rand_rot(rng)), rng.normal(size=3), rng.normal(size=3), zi, 0.01)
        z2 = float(np.array(out[2]).flatten()[0])
        S.check("rdd2.position_control", "z_integrator_limit", {"z_i": zi}, abs(z2) <= rdd2.z_integral_max + 1e-12, rdd2.z_integral_max, z2, "height integrator outside its limit")
    # position loop: the term built from position/velocity error and acceleration set-point (the code's p_term) never exceeds
    # 30 % of weight.  Recovered from the outputs: T = nT * zB(q_r),  term = T - (thrust_trim + ki_z z_i) e3.
    lim = 0.3 * rdd2.m * rdd2.g
    for k in range(N * 10):
        trim = float(rng.uniform(5, 30))
        scale_e = float(rng.choice([0.1, 1.0, 10.0]))
        scale_a = float(rng.choice([0.0, 1.0, 5.0, 15.0]))
        pt, vt, at = rng.normal(size=3), rng.normal(size=3), rng.normal(size=3) * scale_a
        p, v = pt + rng.normal(size=3) * scale_e, vt + rng.normal(size=3) * scale_e
        zi = float(rng.uniform(-1, 1) * rdd2.z_integral_max)
        qc = L.quat_of(*L.rand_rot(rng))
        out = pos(trim, pt, vt, at, qc, p, v, zi, 0.01)
        nT = float(np.array(out[0]).flatten()[0]); qr = np.array(out[1]).flatten()
        if nT <= 1e-2 or abs(np.linalg.norm(qr) - 1) > 1e-9:      # thrust-axis fallback / degenerate heading (C14's territory)
            continue
        zB = L.f(SO3Quat.elem(ca.DM(qr)).to_Matrix())[:, 2]
        term = nT * zB - (trim + rdd2.ki_z * zi) * np.array([0, 0, 1.0])
        inp = {"thrust_trim": trim, "pt_w": pt.tolist(), "vt_w": vt.tolist(), "at_w": at.tolist(), "qc_wb": qc.tolist(), "p_w": p.tolist(), "v_w": v.tolist(), "z_i": zi, "dt": 0.01}
        S.check("rdd2.position_control", "feedback_term_limit", inp, float(np.linalg.norm(term)) <= lim * (1 + 1e-7) + 1e-9, "<= %g" % lim, float(np.linalg.norm(term)),
                "position-loop term exceeds 30 % of weight")


H.run(search, "fed-back runs of 200 rate-loop steps and 800 velocity-input steps (yaw stick held so the set-point crosses +-pi, random resets), random gains/limits/sticks; attitude errors up to pi-0.01 with both quaternion signs; position loop with errors from 0.1 to 10 m and acceleration set-points from 0 to 15 m/s^2 (30 % bound on the recovered term); distinct = distinct (unit, input) among the sampled steps")
