"""C09 harness: reads the report of extract/c2coq.py (parsed C vs instruction lists, option enumeration), compiles the
default-option C files with gcc -Wall -Werror, loads them with ctypes and compares bit-for-bit with Function evaluation
on random, branch-selecting and non-finite inputs."""
import ctypes
import io
import json
import os
import subprocess
import sys
import contextlib
import numpy as np
import casadi as ca
import hcommon as H

ROOT = os.path.dirname(os.path.dirname(os.path.abspath(__file__)))
sys.path.insert(0, os.path.join(ROOT, "extract"))


def call_c(lib, name, f, ins):
    fn = getattr(lib, name)
    n_in, n_out = f.n_in(), f.n_out()
    sz = [ctypes.c_longlong() for _ in range(4)]
    getattr(lib, name + "_work")(*[ctypes.byref(x) for x in sz])
    arg = (ctypes.POINTER(ctypes.c_double) * max(1, sz[0].value))()
    res = (ctypes.POINTER(ctypes.c_double) * max(1, sz[1].value))()
    bufs_in = [np.ascontiguousarray(x, dtype=np.float64) for x in ins]
    bufs_out = [np.full(max(1, f.nnz_out(i)), np.nan) for i in range(n_out)]
    for i in range(n_in):
        arg[i] = bufs_in[i].ctypes.data_as(ctypes.POINTER(ctypes.c_double))
    for i in range(n_out):
        res[i] = bufs_out[i].ctypes.data_as(ctypes.POINTER(ctypes.c_double))
    iw = (ctypes.c_longlong * max(1, sz[2].value))()
    w = (ctypes.c_double * max(1, sz[3].value))()
    fn(arg, res, iw, w, 0)
    return [b[:f.nnz_out(i)] for i, b in enumerate(bufs_out)]


def search(S):
    import c2coq
    rep_path = os.path.join(ROOT, ".work", "c09_report.json")
    rep = json.load(open(rep_path))
    expected = json.load(open(os.path.join(ROOT, "harness", "c09_expected.json")))
    for e in rep["errors"]:
        S.check("codegen", "generate_or_parse", {"error": e}, False, None, e, "generation or parsing failed")
    for m in rep["mismatches"]:
        S.check("%s.%s" % (m["set"], m.get("function", m["file"])), m["kind"], m, False, None, m.get("why", ""), "generated C differs from the symbolic model (%s)" % m["kind"])
    for o in rep["option_failures"]:
        cls = "with_mem=True" if isinstance(o["options"], dict) and o["options"].get("with_mem") is True and "force_canonical" in o["what"] else "options"
        S.check("%s.generate_code" % o["set"], cls, o, False, None, o["what"], "generation fails / drops functions under an accepted option combination")
    for key, names in expected.items():
        if key == "comment":
            continue
        sname, stem = key.split("/")
        got = rep["sets"].get(sname, {}).get("files", {}).get(stem, {}).get("exports", [])
        missing = [n for n in names if n not in got]
        S.check("%s.exports" % key, "dropped", {"expected": names, "got": got}, not missing and len(set(got)) == len(got), names, got, "functions dropped, renamed or duplicated: %s" % missing)
    S.evaluations += rep["functions"] + rep["option_runs"]
    S.extra = {"programs": rep["functions"], "instructions_compared": rep["instructions"], "disagreements_checked": len(rep["mismatches"]),
               "option_combinations": rep["option_runs"], "exhaustive": False}
    for k in range(rep["functions"]):
        S.keys.add(("parsed-function", k))
    # compile + differential run
    sink = io.StringIO()
    with contextlib.redirect_stdout(sink):
        sets = c2coq.shipped()
    inc = os.path.join(os.path.dirname(ca.__file__), "include")
    rng = S.rng
    for sname, entry, files, optnames in sets:
        for stem, eqs in files.items():
            cpath = rep["cfiles"].get("%s/%s" % (sname, stem))
            if not cpath or not os.path.exists(cpath):
                continue
            so = cpath[:-2] + ".so"
            p = subprocess.run(["gcc", "-std=c99", "-Wall", "-Werror", "-O0", "-fPIC", "-shared", "-I", inc, cpath, "-o", so, "-lm"],
                               stdout=subprocess.PIPE, stderr=subprocess.STDOUT, text=True)
            S.check("%s/%s.c" % (sname, stem), "compiles", {"cmd": "gcc -std=c99 -Wall -Werror"}, p.returncode == 0, 0, p.stdout[-600:], "generated C does not compile cleanly")
            if p.returncode != 0:
                continue
            lib = ctypes.CDLL(so)
            for f in eqs.values():
                if not hasattr(lib, f.name()):
                    S.check("%s.%s" % (sname, f.name()), "missing_symbol", {"set": sname, "file": stem}, False, f.name(), None, "function of the equation set is not in the compiled C file (dropped or renamed)")
                    continue
                trials = max(2, min(12, S.budget // 40))
                for t in range(trials):
                    scale = [1.0, 1e-3, 10.0, 0.0, 1e-6, 3.0][t % 6]
                    ins = [rng.normal(size=f.nnz_in(i)) * scale for i in range(f.n_in())]
                    if t == 5:      # non-finite values in the inputs
                        for x in ins:
                            if x.size:
                                x[rng.integers(0, x.size)] = rng.choice([np.inf, -np.inf, np.nan])
                    dm = [ca.DM(f.sparsity_in(i), list(map(float, ins[i]))) if f.nnz_in(i) else ca.DM(f.sparsity_in(i)) for i in range(f.n_in())]
                    ref = [np.array(o.nonzeros(), dtype=float) for o in f.call(dm)]
                    got = call_c(lib, f.name(), f, ins)
                    same = all(a.shape == b.shape and np.array_equal(a, b, equal_nan=True) for a, b in zip(got, ref))
                    S.check("%s.%s" % (sname, f.name()), "differential", {"inputs": [x.tolist() for x in ins]}, bool(same),
                            [r.tolist() for r in ref], [g.tolist() for g in got], "compiled C and CasADi evaluation differ", nontrivial=(t > 0 and t != 3))


def search_and_clean(S):
    import shutil
    try:
        search(S)
    finally:
        try:
            rep = json.load(open(os.path.join(ROOT, ".work", "c09_report.json")))
            shutil.rmtree(rep.get("workdir", "/nonexistent"), ignore_errors=True)
        except Exception:
            pass


H.run(search_and_clean, "every function of every shipped equation set (estimator mrp+sim through algorithms.generate_code and through the generic cyecca.codegen.generate_code, rdd2, rdd2_loglinear, bezier, mr_ref_traj): parsed C vs instruction list; option combinations (quick: default + each single flip; thorough: all 2^k); gcc -Wall -Werror build; ctypes vs Function evaluation bit-for-bit on random / tiny / zero / non-finite inputs")
