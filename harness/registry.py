"""Per-property configuration of the driver (DESIGN.md section 2.5)."""

TRUSTED_BASE = [
    "Coq 8.16.1 kernel (coqc, full .vo build; vm_compute used by interval/reflection; no native_compute)",
    "axioms of the Coq standard library reals: ClassicalDedekindReals.sig_forall_dec, sig_not_dec, FunctionalExtensionality.functional_extensionality_dep; Classical_Prop.classic where analysis lemmas are used (exact list per run under coverage.axioms_reported)",
    "extract/sx2coq.py + coq/Base/Ops.v: a CasADi SX instruction means what the opcode table says, over exact reals (no IEEE rounding/NaN/-0); validated every run by extract/roundtrip.py",
    "CasADi: numeric evaluation of a cyecca builder evaluates the instruction list the translator walks",
]

SETUP_PRE = [["mkdir", "-p", ".work"], ["/venv/bin/python", "extract/c2coq.py", "--out", "coq/Gen/C09.v", "--report", ".work/c09_report.json"]]
SOURCE_COMMITS = []     # guarded hook commits in /repo (none: the public API suffices)
NOT_CLAIMED = {}        # pid -> reason, for properties deliberately not claimed
SETUP_POST = []

PROPS = {}


def prop(pid, **kw):
    kw.setdefault("stems", [])
    kw.setdefault("props", [])
    kw.setdefault("level", "proof")
    kw.setdefault("budget", {"quick": 200, "thorough": 5000})
    PROPS[pid] = kw


GEN_NOTE = ("Trusted: Coq kernel; stdlib real-number axioms (sig_forall_dec, sig_not_dec, functional_extensionality_dep, classic where listed in the evidence); "
            "the SX->Coq translator extract/sx2coq.py with the opcode semantics of coq/Base/Ops.v (exact reals, not IEEE doubles), re-validated each run by extract/roundtrip.py; "
            "CasADi evaluating the instruction list the translator walks. The model is regenerated from /repo's working tree on every run. ")

LIE_STEMS = ["SO2", "SE2", "Rn", "so3", "SO3Quat", "SO3Mrp", "SO3Dcm", "SO3Euler", "se3", "SE3Quat", "SE3Mrp", "se23", "SE23Quat", "SE23Mrp", "DP"]

prop("C01", stems=["SO2", "SE2", "Rn", "SO3Quat", "SO3Mrp", "SO3Dcm", "SO3Euler", "SE3Quat", "SE3Mrp", "SE23Quat", "SE23Mrp", "DP"],
     props=["Props/C01.v"], falsify="falsify_C01",
     level_text="Kernel-checked theorems on the regenerated model: matrix homomorphism, two-sided inverse, identity, associativity for SO2, SE2, R2, R3, SO3 quaternion/MRP/DCM, SE3 and SE_2(3) with quaternion and MRP rotation parts (via a generic semidirect-product theorem over an abstract SO(3) representation); matrix->element conversions are right inverses for SO2, SE2, quaternion (all four Shepperd branches, for every proper rotation matrix), MRP and DCM. Partial: Euler-angle group (3-2-1) and direct products are covered by the numeric search only in this snapshot; DCM product closure (orthonormality of a product) is not proved.",
     level_note=GEN_NOTE + "MRP statements carry the guard 1+|a|^2|b|^2-2a.b <> 0 (the 360-degree singularity). Python glue (operators, beartype, exceptions) is exercised by harness/falsify_C01.py only.",
     technique="Coq proof (ring/field/lra/nsatz + hand lemmas on sqrt/atan) over a model regenerated from source by a translator",
     explanation="group laws as matrix identities for all valid parameter vectors")

prop("C04", stems=["SO2", "SE2", "Rn", "so3", "se3", "se23", "SO3Quat", "SO3Mrp", "SO3Dcm", "SO3Euler", "SE3Quat", "SE3Mrp", "SE23Quat", "SE23Mrp", "DP"],
     props=["Props/C04.v"], falsify="falsify_C04",
     level_text="Kernel-checked on the regenerated model, for all inputs: ad_x y = [x,y], hat([x,y]) = matrix commutator, antisymmetry and Jacobi for so2, se2, r2, r3, so3, se3, se_2(3); Ad_X is conjugation (intertwining form hat(Ad_X y) M(X) = M(X) hat(y)) for SO2, SE2, R2, R3, SO3 quaternion/MRP, SE3 and SE_2(3) with quaternion and MRP rotation parts; Ad homomorphism for SO3Quat, SO3Dcm, SE2, SE3Quat; Ad/ad square on the parameter vector for R^n. Partial: Ad_exp(x) = exp(ad_x), Ad homomorphism for the MRP/SE_2(3) groups, DCM/Euler conjugation are covered by the numeric search only.",
     level_note=GEN_NOTE + "Conjugation is stated without the inverse; invertibility of M(X) is C01.",
     technique="Coq proof (ring/nsatz/field) over a model regenerated from source by a translator",
     explanation="adjoint and bracket identities for all group/algebra elements")

prop("C18", stems=["Bezier"], props=["Props/C18.v"], falsify="falsify_C18",
     level_text="Kernel-checked on the regenerated model: for degrees 1..7 (scalar) and 1..3 (3-vector) Bezier.eval equals the Bernstein polynomial for all control points, T <> 0 and t (inside or outside [0,T]); end points; the derivative curve is the exact time derivative (Coquelicot is_derive); deriv(m) equals m chained deriv() (pins the 1/T^m scaling); vector curves act row by row; bezier3_solve / bezier7_solve meet every boundary condition for all T <> 0; trajectory rows are successive exact derivatives; bezier_multirotor is the stacking of the scalar trajectories. Partial: 'for every degree n' is 'for n <= 7' (instances, no induction over n yet); degrees 8+ and dimensions other than 1 and 3 are covered by the numeric search only.",
     level_note=GEN_NOTE + "Adds Classical_Prop.classic / Coquelicot's axioms through is_derive where reported.",
     technique="Coq proof (field + Coquelicot auto_derive) over a model regenerated from source by a translator",
     explanation="Bezier evaluation/derivative/solver identities for all control points, durations and times")

prop("C13", stems=["Rdd2"], props=["Props/C13.v"], falsify="falsify_C13",
     level_text="Kernel-checked on the regenerated allocator (257 instructions, ~21 comparisons), for all demands and all constants: every motor force lies in [0, F_max]; every motor speed is a non-negative real with omega^2 Ct = F (Ct > 0); a jointly achievable demand (all four F_moment+F_thrust in [0, F_max], closed boundary included) is reproduced exactly. Proved by slicing the predicate-transformer form, never unfolding the unit. Partial: 'moment realised exactly with the least thrust shift when only the moment is achievable' is NOT a theorem in this snapshot (the case analysis did not finish within the time budget; proof attempt kept as Proofs/C13_moment.v.wip) and is watched by the numeric search only; the mixer-inverse identity (forces mix back to the range-limited demand) is checked numerically.",
     level_note=GEN_NOTE + "Theorems are stated on the _wp form (same let-chain as the function form, printed from one instruction list).",
     technique="Coq proof (SSA slicing + lra case analysis) over a model regenerated from source by a translator",
     explanation="allocator contracts for all thrust/moment demands and all positive constants")

prop("C07", stems=["SO3Quat", "SO3Mrp", "SO3Dcm", "SO3Euler"], props=["Props/C07.v"], falsify="falsify_C07",
     level_text="Kernel-checked on the regenerated model: quaternion/MRP/Euler -> DCM, matrix/DCM/MRP/Euler -> quaternion (unit norm; all four Shepperd branches for EVERY proper rotation matrix, branches exhaustive), quaternion/matrix/DCM/Euler -> MRP (norm <= 1) preserve the rotation matrix; the shadow switch never changes the rotation, lands in the unit ball and is the identity inside it; quaternion, MRP and Euler matrices are proper rotations (orthonormal, det 1). Guard: quaternion -> MRP excludes q = (-1,0,0,0) (division by 1+q0). Partial: conversions INTO Euler angles (asin/atan2 with the +-1e-3 gimbal branches), the pitch range and the in-band 1e-3 tolerance are covered by the numeric search only.",
     level_note=GEN_NOTE,
     technique="Coq proof (field/lra/nsatz, sqrt lemmas) over a model regenerated from source by a translator",
     explanation="conversion identities for all valid source elements")

prop("C10", stems=["Util"], props=["Props/C10.v"], falsify="falsify_C10", expected_extract_errors=["sqrt_cov_predict_1"],
     level_text="Kernel-checked on regenerated instances: LDL^T and UDU^T reconstruct their symmetric input with unit-triangular factors for n = 1..5 (non-zero pivots); the RK4 step is the classical tableau (as a higher-order Coq function), exact when the derivative is a cubic polynomial in time, and equals the degree-4 Taylor polynomial on y' = lam y and y' = A y (2x2), for all step sizes; the square-root covariance derivative satisfies W'W^T + W W'^T = F P + P F^T + Q and is lower triangular for n = 2, 3 with dense F and symmetric Q (diag W non-zero); the square-root measurement update satisfies all three identities for n = m = 1. Partial: 'for all n' is these instances (no induction over n); sqrt_correct beyond 1x1 (nested Gram-Schmidt square roots) and the shipped 6x6 instances are covered by the numeric search only (the attempted (2,1)/(2,2) proofs exceeded the time budget); n = 1 of sqrt_covariance_predict raises inside CasADi (recorded, not claimed).",
     level_note=GEN_NOTE,
     technique="Coq proof (field/ring with pivot abstraction, sqrt_sqrt) over instances regenerated from source by a translator",
     explanation="numerical-linear-algebra identities for all matrix entries of each instance size")

prop("C15", stems=["Rdd2", "Loglinear", "SO3Quat"], props=["Props/C15.v"], falsify="falsify_C15",
     level_text="Kernel-checked on the regenerated controllers: the rate loop's integrator output stays in +-i_max for every call AND along arbitrarily long runs from any in-box state with arbitrary inputs (induction over the step list), its filter coefficient lies in (0,1) when dt*f_cut > 0, e1 = omega_r - omega, M = kp e + ki i + kd de and the low-pass derivative law; acro stick map is linear with the stated (double) slopes and bounded for sticks in [-1,1]; velocity-mode input keeps the yaw set-point in [-pi, pi] (IEEE-remainder lemma over Flocq's ZnearestE + interval bound of the double 2*pi), never places the position set-point farther than 2 m from the vehicle, and a reset puts it on the vehicle; attitude_control = gains times SO3Quat.log(q^-1 q_r). Partial: 'zero exactly when the attitudes are the same rotation' and 'the commanded rotation reaches the reference' depend on C03 (log) and are covered by the numeric search only, as are the position loop's 30%-of-weight clamp (an internal quantity, not an output), the height-integrator limit, and the log-linear variants.",
     level_note=GEN_NOTE + "Adds Flocq (ZnearestE) and Interval (PI bound) to the trusted libraries for the yaw-range theorem.",
     technique="Coq proof (SSA slicing, lra/nra, Flocq rounding lemma, interval, induction over step lists) over a model regenerated from source",
     explanation="controller bounds for all gains/limits/states/inputs and all run lengths")

prop("C09", stems=[], props=["Props/C09.v"], falsify="falsify_C09", level="translation_validation",
     pre_build=[["mkdir", "-p", ".work"], ["/venv/bin/python", "extract/c2coq.py", "--out", "coq/Gen/C09.v", "--report", ".work/c09_report.json", "{thorough}"]],
     level_text="Translation validation decided in the Coq kernel: for every function of every shipped equation set (estimator mrp and sim, rdd2, rdd2_loglinear, bezier incl. f_ref, mr_ref_traj; 35 functions, ~12.5k instructions) the straight-line body parsed from the generated C file equals, instruction by instruction including register numbers, constants (as exact doubles) and argument/result sizes, the instruction list CasADi's VM executes (vm_compute over decidable equality), hence computes the same outputs under EVERY interpretation of the primitive operations, NaN/Inf included (theorem same_programs_same_results). Every entry point is exercised; export tables are compared with the pinned function lists (nothing dropped/duplicated/renamed); accepted boolean generator options are enumerated (quick: default and every single flip; thorough: all 2^k) and must generate a complete function set. Supporting, not proof: gcc -std=c99 -Wall -Werror build and bit-for-bit ctypes-vs-CasADi comparison on random, tiny, zero and non-finite inputs. Known finding: the four generic generators reject with_mem=True under the installed CasADi.",
     level_note="Trusted: Coq kernel (vm_compute); the regex parser extract/c2coq.py (fail-closed grammar of the C bodies CasADi prints); CasADi's instruction API and code generator as the two things being compared; gcc/libm for the differential run. Axiom-free.",
     technique="translation validation: parsed C program = instruction list, decided by vm_compute in Coq, generic-semantics theorem",
     explanation="C bodies vs instruction lists of all shipped functions")

prop("C20", stems=[], props=["Props/C20.v"], falsify=None, corr="corr_bus", corr_budget={"quick": 200, "thorough": 6000},
     level_text="Kernel-checked theorems (axiom-free, by induction over arbitrary operation histories) about hand-written executable models of cyecca/sim/uros.py, the estimator node's callbacks and simpy's timeout scheduling with the periodic logger: a publish reaches exactly the subscribers of its topic, once each, in registration order, whatever was registered before or after; wrong-type and unknown-topic publishes are rejected with the state unchanged; registration is refused once the logger locked the bus; after a successful set_param every node following the parameter topic sees the new value; the node never predicts with dt <= 0, applies accelerometer / magnetometer corrections no closer than their thresholds (dt_min - 1 ms, exact rationals of the doubles), and does nothing before a successful initialisation when one is requested; logger time stamps never decrease. The tie to the code is a differential correspondence check (model evaluated by vm_compute, real objects driven with recording callbacks / stub equations) on seeded random histories: 200 (quick) / 6000 (thorough) bus histories incl. a malformed stream, node message sequences with off-rate, duplicate and out-of-order stamps and DIFFERENT dt_min_accel / dt_min_mag set through the parameter interface, and simpy runs with simultaneous events. Partial: 'the latest message of every topic is in each log row' is established by the correspondence only (the model is its own specification there); parameter nodes declared after init_params are outside the modelled histories.",
     level_note="Trusted: Coq kernel (vm_compute for the correspondence cases); the hand models are MODELLED, not verified code: their link to uros.py / estimator.py / simpy is the bounded random correspondence check only. No axioms.",
     technique="Coq proof by induction over operation histories on a hand-written executable model + differential correspondence with the implementation",
     explanation="bus/logger/node-gating theorems for all histories; correspondence on seeded histories")

prop("C19", stems=[], props=["Props/C19.v"], falsify=None, corr="corr_conv", corr_budget={"quick": 150, "thorough": 4000},
     level_text="Kernel-checked theorems about a hand-written model of sympy_to_casadi (integers, rationals, binary floats as exact dyadics, Half, symbols, n-ary Add/Mul as the code's left folds, Pow with the Half -> sqrt special case, sin/cos/tan/atan, user functions through f_dict, everything else unsupported): whenever the conversion succeeds the CasADi tree evaluates to the same value as the SymPy tree at every environment and for every interpretation of the user functions and of pow; unsupported constructs and unknown function heads yield an error, never an altered expression; the symbol table is only extended and never binds a name twice. Tie to the code: differential correspondence on grammar-generated SymPy trees (non-integer and negative floats, nested powers, user functions, a malformed stream): success/raise, final symbol table and values at random points of the real converter vs the model (vm_compute), plus the real result vs SymPy's own evaluation. casadi_to_sympy is NOT modelled in Coq: random CasADi expressions incl. matrices, comparisons, selections, min/max, == are converted and evaluated against CasADi (exploration). Known findings: fmod and remainder are mapped to sympy.Mod forms that differ for negative operands. The cse=True path and sympy Matrix inputs are outside the model.",
     level_note="Trusted: Coq kernel; stdlib real-number axioms (evaluation is over R); the model is MODELLED, not verified code: its link to cyecca/symbolic.py is the bounded random correspondence only.",
     technique="Coq proof by structural induction on a hand-written executable model + differential correspondence with the implementation",
     explanation="meaning preservation of the SymPy->CasADi converter for all expression trees of the modelled grammar")

prop("C14", stems=["Ref", "SO3Quat", "SO3Euler", "Rdd2", "Loglinear"], props=["Props/C14.v"], falsify="falsify_C14",
     level_text="Kernel-checked on the regenerated model: eulerB321_to_quat returns, for all angles, a unit quaternion whose matrix is Rz Ry Rx; the matrix->quaternion step with which position_control, the SE_2(3) outer loop and f_ref end (dcm_to_quat = SO3Quat.from_Matrix) returns, for EVERY proper rotation matrix (all headings and tilts, all four Shepperd branches), a unit quaternion with exactly that matrix. PARTIAL: that the matrices these producers build from the demanded force and heading are proper rotations with body z along the force and body y perpendicular to the heading, the rate/moment identities of the flatness maps and the agreement of f_ref with mr_ref_traj are NOT theorems in this snapshot (the sliced proofs over the 300-1800-instruction units did not finish within the time budget); they are checked by the numeric search against independent numpy reconstructions (incl. finite-difference rotation rates, headings beyond +-120 deg with tilt, saturated feedback, degenerate branches). Known finding: position_control's fallback for thrust parallel to the heading is not a rotation.",
     level_note=GEN_NOTE,
     technique="Coq proof (Shepperd theorem for all proper rotation matrices, congruence bridges) over a model regenerated from source; numeric search for the construction of the matrices",
     explanation="set-point quaternions for all rotation matrices / Euler angles")

prop("C12", stems=["Sim", "SO3Mrp"], props=["Props/C12.v"], falsify="falsify_C12", level="other", budget={"quick": 200, "thorough": 3000},
     level_text="Convergence of a nonlinear, RK4-discretised, rate-limited filter from a box of initial conditions is NOT something this proof technique can establish here; the check therefore combines (a) kernel-checked component theorems on the regenerated sensor models: the gyro reads rate + bias, the accelerometer reading is C_nb^T(-g e3) with magnitude g for every attitude, the magnetometer reading rotates with the true attitude (so its magnitude is attitude-independent) -- the defect that made every correction be rejected (SO3Dcm.from_Mrp) is what these theorems pin; with C11's step contracts and C20's node-gating theorems; and (b) exploration of the real closed loop: launch.launch_sim, noise off, 20 simulated seconds, with and without initialisation, random true attitudes/biases/inclination/declination and two rate settings, checking no exception/NaN, attitude error < 0.03 rad after 10 s, all three bias errors < 0.01 rad/s after 15 s, reading magnitudes and acceptance of corrections; plus the measurement functions against numpy references with declination and inclination both non-zero.",
     level_note=GEN_NOTE + "The closed-loop part is a bounded random exploration (2 runs quick, ~40 thorough), not a proof.",
     technique="Coq component theorems on the regenerated sensor models + closed-loop simulation of the real code (exploration)",
     explanation="Convergence is explored by simulation, not proved: component theorems (sensor models rotate with the true attitude and have the configured magnitudes) are kernel-checked on the regenerated model; the closed loop of the real simulator + estimator is run noise-free from random initial conditions and its error envelopes are checked.")

prop("C17", stems=["Rdd2", "Quadrotor"], props=["Props/C17.v"], falsify="falsify_C17", level="other", budget={"quick": 240, "thorough": 3600},
     level_text="Convergence of the closed loop (saturating cascade around a nonlinear plant, sampled at 100 Hz) from a box of initial conditions is NOT something this proof technique can establish here. The check combines (a) kernel-checked interface theorems on the regenerated allocator and plant: the moment part of the allocation inverts the X-quad mixer on the saturated moment and carries no net thrust, the thrust part is uniform and equals the demand inside [0, 4 F_max], and rotor thrusts satisfying those mixer relations produce on the plant J wdot = (sin a Mx, cos a My, Mz) -- same axes and signs, positive scale (with C13/C15/C16's theorems on each block); and (b) exploration of the real closed loop: position_control+attitude_control and se23_error+se23_position_control+so3_attitude_control, each followed by attitude_rate_control and f_alloc, around quadrotor.derive_model() with its default parameters and the gains of scripts/rdd2_sim.py (read from that file), true state fed back, RK4, 15 simulated seconds from random offsets up to 1.5 m per axis, tilts up to 50 deg, speeds and rates up to 1, random commanded headings (Mellinger cascade), checking position error < 5 cm, tilt < 0.02 rad, rates and speed < 0.05, motor commands within sqrt(F_max/CT), no NaN; plus allocator->plant wrench check on unsaturated demands.",
     level_note=GEN_NOTE + "The closed-loop part is a bounded random exploration (4 runs quick, ~60 thorough), not a proof. Not covered: the estimator in the loop (true state is fed back), stick inputs/leash (C15), headings other than 0 for the log-linear cascade.",
     technique="Coq interface theorems on the regenerated allocator and plant + closed-loop simulation of the real code (exploration)",
     explanation="Convergence is explored by simulation, not proved: allocator/plant interface theorems are kernel-checked on the regenerated model; both shipped cascades are closed around the real plant function from random initial conditions and position/attitude/motor-limit envelopes are checked.")

prop("C16", stems=["Quadrotor"], props=["Props/C16.v"], falsify="falsify_C16",
     level_text="Kernel-checked theorems over the regenerated real-number model of quadrotor.derive_model(): q.qdot=0, quaternion and position kinematics, hover equilibrium, free-fall accelerometer, rotor-sum wrench (Euler and Newton equations), motor first-order law, translation and yaw equivariance, for ALL states, inputs and parameter vectors (parameters are symbolic). Not proved: the exponential closed-form motor response (only the ODE right-hand side), drag-on branch of the force sum.",
     level_note=GEN_NOTE + "Numeric search on the real functions (harness/falsify_C16.py) supports replay generation only.",
     technique="Coq proof (ring/field/nsatz) over a model regenerated from source by a translator",
     explanation="theorems over the regenerated real-number model of quadrotor.derive_model() f/g_accel/g_gyro for all states, inputs and parameter vectors")
