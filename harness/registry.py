"""Per-property configuration of the driver (DESIGN.md section 2.5)."""

TRUSTED_BASE = [
    "Coq 8.16.1 kernel (coqc, full .vo build; vm_compute used by interval/reflection; no native_compute)",
    "axioms of the Coq standard library reals: ClassicalDedekindReals.sig_forall_dec, sig_not_dec, FunctionalExtensionality.functional_extensionality_dep; Classical_Prop.classic where analysis lemmas are used (exact list per run under coverage.axioms_reported)",
    "extract/sx2coq.py + coq/Base/Ops.v: a CasADi SX instruction means what the opcode table says, over exact reals (no IEEE rounding/NaN/-0); validated every run by extract/roundtrip.py",
    "CasADi: numeric evaluation of a cyecca builder evaluates the instruction list the translator walks",
]

SETUP_PRE = []
SOURCE_COMMITS = []     # guarded hook commits in /repo (none: the public API suffices)
NOT_CLAIMED = {}        # pid -> reason, for properties deliberately not claimed
SETUP_POST = []

PROPS = {}


def prop(pid, **kw):
    kw.setdefault("stems", [])
    kw.setdefault("props", [])
    kw.setdefault("level", "proof")
    kw.setdefault("budget", {"quick": 200, "thorough": 5000})
    PROPS[pid] = kw


GEN_NOTE = ("Trusted: Coq kernel; stdlib real-number axioms (sig_forall_dec, sig_not_dec, functional_extensionality_dep, classic where listed in the evidence); "
            "the SX->Coq translator extract/sx2coq.py with the opcode semantics of coq/Base/Ops.v (exact reals, not IEEE doubles), re-validated each run by extract/roundtrip.py; "
            "CasADi evaluating the instruction list the translator walks. The model is regenerated from /repo's working tree on every run. ")

prop("C16", stems=["Quadrotor"], props=["Props/C16.v"], falsify="falsify_C16",
     level_text="Kernel-checked theorems over the regenerated real-number model of quadrotor.derive_model(): q.qdot=0, quaternion and position kinematics, hover equilibrium, free-fall accelerometer, rotor-sum wrench (Euler and Newton equations), motor first-order law, translation and yaw equivariance, for ALL states, inputs and parameter vectors (parameters are symbolic). Not proved: the exponential closed-form motor response (only the ODE right-hand side), drag-on branch of the force sum.",
     level_note=GEN_NOTE + "Numeric search on the real functions (harness/falsify_C16.py) supports replay generation only.",
     technique="Coq proof (ring/field/nsatz) over a model regenerated from source by a translator",
     explanation="theorems over the regenerated real-number model of quadrotor.derive_model() f/g_accel/g_gyro for all states, inputs and parameter vectors")
