"""C11 search on the real estimator functions (algorithms.eqs()['mrp']): step-level contracts in double precision.
Counter-example search / replay only; the deciding obligations are the Coq theorems of Props/C11.v."""
import numpy as np
import casadi as ca
import hcommon as H
import liegroups as L


def mrp_R(r):
    """attitude matrix of an MRP (numpy reference: rotation by 4 atan |r| about r)"""
    n = np.linalg.norm(r)
    if n == 0:
        return np.eye(3)
    return L.Rmat(r / n, 4 * np.arctan(n))


def rot_err(Ra, Rb):
    D = Ra.T @ Rb
    c = (np.trace(D) - 1) / 2
    sn = np.linalg.norm(D - D.T) / (2 * np.sqrt(2))
    return float(np.arctan2(sn, c))


def lower(rng, scale_att=0.05, scale_b=0.02, couple=0.3):
    W = np.zeros((6, 6))
    for i in range(6):
        W[i, i] = (scale_att if i < 3 else scale_b) * rng.uniform(0.3, 1.5)
        for j in range(i):
            W[i, j] = couple * (scale_att if i < 3 else scale_b) * rng.normal()
    return W


def fin(*a):
    return all(bool(np.all(np.isfinite(np.array(v, dtype=float)))) for v in a)


def search(S):
    from cyecca.estimate.attitude import algorithms
    E = algorithms.eqs()
    est, sim = E["mrp"], E["sim"]
    rng = S.rng
    n = max(20, S.budget)

    def attitude(k):
        ax, ang = L.rand_rot(rng)
        if k % 7 == 0:
            ax = np.array([0, 0, 1.0]); ang = float(rng.uniform(0, 3))        # yaw only: exact alignment cases
        if k % 11 == 0:
            ang = 0.0
        return np.tan(ang / 4) * ax

    # ---------------- initialize
    for k in range(n):
        r = attitude(k)
        x = np.concatenate([r, np.zeros(3)])
        decl = 0.0 if k % 3 == 0 else float(rng.uniform(-0.5, 0.5))
        incl = float(rng.uniform(-1.2, 1.2))
        g = float(rng.uniform(9.0, 10.6))
        ya = np.array(sim["measure_accel"](x, g, 0, [0, 0, 0])).flatten()
        ym = np.array(sim["measure_mag"](x, float(rng.uniform(0.1, 1)), decl, incl, 0, [0, 0, 0])).flatten()
        x0, code = est["initialize"](ya, ym, decl)
        x0 = np.array(x0).flatten(); code = int(code)
        inp = {"r": r.tolist(), "decl": decl, "incl": incl, "g": g}
        ang_gB = np.arccos(np.clip(np.dot(-ya, ym) / np.linalg.norm(ya) / np.linalg.norm(ym), -1, 1))
        sep = min(ang_gB, np.pi - ang_gB)
        if sep > np.deg2rad(12):
            ok = code == 0 and fin(x0) and rot_err(mrp_R(x0[:3]), mrp_R(r)) < 1e-6 and np.linalg.norm(x0[:3]) <= 1 + 1e-12 and np.all(x0[3:] == 0)
            S.check("mrp.initialize", "exact_attitude", inp, bool(ok), r.tolist(), [x0.tolist(), code], "initialisation from consistent gravity/field measurements does not return the attitude that produced them")
        else:
            S.check("mrp.initialize", "code_or_exact", inp, bool(fin(x0) and (code != 0 or rot_err(mrp_R(x0[:3]), mrp_R(r)) < 1e-5)), None, [x0.tolist(), code], "neither an error code nor the right attitude")
    bad = [(np.zeros(3), np.array([1.0, 0, 0])), (np.array([0, 0, -9.8]), np.zeros(3)), (np.array([0, 0, -9.8]), np.array([0, 0, 0.5])),
           (np.array([0, 0, -9.8]), np.array([0, 0, -0.5])), (np.array([0, 0, -20.0]), np.array([1.0, 0, 0])), (np.array([3.0, 0, 0]), np.array([1.0, 0, 0]))]
    for ya, ym in bad:
        x0, code = est["initialize"](ya, ym, 0.1)
        x0 = np.array(x0).flatten(); code = int(code)
        S.check("mrp.initialize", "bad_input_code", {"g_b": ya.tolist(), "B_b": ym.tolist()}, bool(code != 0 and fin(x0) and np.all(x0 == 0)), "non-zero code, zero state", [x0.tolist(), code], "degenerate measurement not rejected cleanly")

    # ---------------- predict
    for k in range(n):
        r = attitude(k)
        if k % 5 == 0 and np.linalg.norm(r) > 0:
            r = r / np.linalg.norm(r) * float(rng.uniform(0.9, 1.0))      # near the shadow switch
        b = rng.uniform(-0.1, 0.1, 3)
        x = np.concatenate([r, b])
        W = lower(rng)
        om = rng.normal(size=3) * float(rng.choice([0.1, 1, 10, 30]))
        dt = float(rng.uniform(0.001, 0.02))
        x1, W1 = est["predict"](0, x, W, om, 1e-3, 1e-4, dt)
        x1 = np.array(x1).flatten(); W1 = np.array(ca.DM(W1))
        inp = {"x": x.tolist(), "W": W.tolist(), "omega": om.tolist(), "dt": dt}
        S.check("mrp.predict", "in_ball", inp, bool(fin(x1) and np.linalg.norm(x1[:3]) <= 1 + 1e-12), "<= 1", float(np.linalg.norm(x1[:3])), "predicted MRP leaves the unit ball")
        S.check("mrp.predict", "bias_constant", inp, bool(np.all(x1[3:] == b)), b.tolist(), x1[3:].tolist(), "prediction changed the bias")
        S.check("mrp.predict", "W_lower_finite", inp, bool(fin(W1) and np.allclose(np.triu(W1, 1), 0)), None, None, "covariance factor not finite lower-triangular")
        w = om - b
        Rex = mrp_R(r) @ L.Rmat(w / np.linalg.norm(w), np.linalg.norm(w) * dt)
        e1 = rot_err(mrp_R(x1[:3]), Rex)
        th = np.linalg.norm(w) * dt
        S.check("mrp.predict", "fourth_order", inp, bool(e1 <= 0.05 * th ** 5 + 1e-12), "<= 0.05 theta^5", [e1, th], "gyro integration error larger than fourth-order accuracy allows")
        P0 = W @ W.T; P1 = W1 @ W1.T
        S.check("mrp.predict", "cov_grows_by_Q", inp, bool(np.all(np.diag(P1)[3:] >= np.diag(P0)[3:] - 1e-15)), None, None, "bias variance decreased in prediction")

    # ---------------- corrections
    for k in range(n):
        r = attitude(k)
        b = rng.uniform(-0.1, 0.1, 3)
        x = np.concatenate([r, b])
        W = lower(rng)
        if k % 6 == 5:
            W[0, 0] = 0.2       # too much roll/pitch noise for the magnetometer
        g = 9.8
        P = W @ W.T
        Rn = mrp_R(r)
        # --- accelerometer: wrong magnitude -> rejected, bit-for-bit
        yb = rng.normal(size=3); yb = yb / np.linalg.norm(yb) * float(rng.choice([rng.uniform(0, 8.7), rng.uniform(10.9, 40)]))
        o = est["correct_accel"](x, W, yb, g, rng.normal(size=3), 0.1, 0.01, 1.0)
        xa, Wa, code = np.array(o[0]).flatten(), np.array(ca.DM(o[1])), int(o[5])
        inp = {"x": x.tolist(), "W": W.tolist(), "y": yb.tolist(), "g": g}
        S.check("mrp.correct_accel", "reject_unchanged", inp, bool(code != 0 and np.array_equal(xa, x) and np.array_equal(Wa, W)), [x.tolist()], [xa.tolist(), code], "rejected accelerometer correction changed state or covariance")
        # --- accelerometer: consistent measurement of a nearby true attitude -> accepted, improves roll/pitch, P+ <= P
        d = rng.normal(size=3) * 0.05
        Rt = L.Rmat(d / np.linalg.norm(d), np.linalg.norm(d)) @ Rn if k % 4 else Rn          # every 4th: exact fixed point
        yb = Rt.T @ np.array([0, 0, -g])
        om = rng.normal(size=3)
        o = est["correct_accel"](x, W, yb, g, om, 0.1, 0.01, 1.0)
        xa, Wa, code = np.array(o[0]).flatten(), np.array(ca.DM(o[1])), int(o[5])
        inp = {"x": x.tolist(), "W": W.tolist(), "y": yb.tolist(), "g": g, "omega": om.tolist()}
        okf = code == 0 and fin(xa, Wa, o[2], o[3], o[4])
        S.check("mrp.correct_accel", "accepted_finite", inp, bool(okf), "code 0, finite", [xa.tolist(), code], "consistent accelerometer measurement rejected or non-finite result")
        if okf:
            Pa = Wa @ Wa.T
            S.check("mrp.correct_accel", "cov_not_increased", inp, bool(np.min(np.linalg.eigvalsh(P - Pa)) >= -1e-12 * np.max(np.diag(P))), ">= 0", float(np.min(np.linalg.eigvalsh(P - Pa))), "covariance increased by an accepted correction")
            tilt0 = np.linalg.norm((Rn.T @ np.array([0, 0, 1.0])) - (Rt.T @ np.array([0, 0, 1.0])))
            tilt1 = np.linalg.norm((mrp_R(xa[:3]).T @ np.array([0, 0, 1.0])) - (Rt.T @ np.array([0, 0, 1.0])))
            if k % 4:
                S.check("mrp.correct_accel", "reduces_tilt_error", inp, bool(tilt1 < tilt0), "< %g" % tilt0, tilt1, "accepted accelerometer correction moved roll/pitch away from the measured vertical")
                if abs(W[3, 0]) + abs(W[3, 1]) > 1e-4:
                    S.check("mrp.correct_accel", "bias_x_updated", inp, bool(xa[3] != x[3]), "changed", float(xa[3]), "first bias component is never corrected")
            else:
                S.check("mrp.correct_accel", "fixed_point", inp, bool(np.allclose(xa, x, atol=1e-9)), x.tolist(), xa.tolist(), "the measurement the current estimate predicts changed the state")
        # --- magnetometer
        decl = 0.0 if k % 3 == 0 else float(rng.uniform(-0.5, 0.5))
        incl = float(rng.uniform(-1.0, 1.0))
        dz = float(rng.normal() * 0.05)
        Rt = L.Rmat(np.array([0, 0, 1.0]), dz) @ Rn if k % 4 else Rn
        Bn = L.Rmat(np.array([0, 0, 1.0]), decl) @ L.Rmat(np.array([0, 1.0, 0]), -incl) @ np.array([0.5, 0, 0])
        yb = Rt.T @ Bn
        o = est["correct_mag"](x, W, yb, decl, 0.01, 1.0)
        xm, Wm, code = np.array(o[0]).flatten(), np.array(ca.DM(o[1])), int(o[5])
        inp = {"x": x.tolist(), "W": W.tolist(), "y": yb.tolist(), "decl": decl}
        if code != 0:
            S.check("mrp.correct_mag", "reject_unchanged", inp, bool(np.array_equal(xm, x) and np.array_equal(Wm, W)), x.tolist(), [xm.tolist(), code], "rejected magnetometer correction changed state or covariance")
            expect2 = np.hypot(W[0, 0], W[1, 1]) > 0.1
            S.check("mrp.correct_mag", "reject_reason", inp, bool(code in (1, 2) and (code != 2 or expect2)), None, code, "wrong rejection code")
        else:
            okf = fin(xm, Wm, o[2], o[3], o[4])
            S.check("mrp.correct_mag", "accepted_finite", inp, bool(okf and np.hypot(W[0, 0], W[1, 1]) <= 0.1), None, [xm.tolist(), code], "accepted magnetometer correction non-finite, or accepted despite large roll/pitch uncertainty")
            if okf:
                Pm = Wm @ Wm.T
                S.check("mrp.correct_mag", "cov_not_increased", inp, bool(np.min(np.linalg.eigvalsh(P - Pm)) >= -1e-12 * np.max(np.diag(P))), ">= 0", float(np.min(np.linalg.eigvalsh(P - Pm))), "covariance increased by an accepted correction")
                def yaw(Rm):
                    return np.arctan2(Rm[1, 0], Rm[0, 0])
                e0 = abs(np.angle(np.exp(1j * (yaw(Rn) - yaw(Rt))))); e1 = abs(np.angle(np.exp(1j * (yaw(mrp_R(xm[:3])) - yaw(Rt)))))
                tilted = np.arccos(np.clip(Rn[2, 2], -1, 1))
                if k % 4 and tilted < 0.3 and e0 > 1e-3:
                    S.check("mrp.correct_mag", "reduces_yaw_error", inp, bool(e1 < e0), "< %g" % e0, e1, "accepted magnetometer correction moved heading away from the measured one")
                if k % 4 == 0:
                    S.check("mrp.correct_mag", "fixed_point", inp, bool(np.allclose(xm, x, atol=1e-9)), x.tolist(), xm.tolist(), "the measurement the current estimate predicts changed the state")
    # get_state: quaternion of the MRP
    for k in range(20):
        r = attitude(k); x = np.concatenate([r, rng.normal(size=3)])
        q, rr, bb = (np.array(v).flatten() for v in est["get_state"](x))
        S.check("mrp.get_state", "consistent", {"x": x.tolist()}, bool(abs(np.linalg.norm(q) - 1) < 1e-12 and np.array_equal(rr, r) and np.array_equal(bb, x[3:]) and rot_err(L.Rmat(q[1:] / max(np.linalg.norm(q[1:]), 1e-300), 2 * np.arctan2(np.linalg.norm(q[1:]), q[0])), mrp_R(r)) < 1e-7), None, q.tolist(), "get_state quaternion inconsistent with the MRP")


H.run(search, "real algorithms.eqs()['mrp'] functions; attitudes over SO(3) incl. identity, yaw-only (exact alignment) and near the shadow switch; declination 0 and random; consistent measurements from the sim models, perturbed-truth measurements (0.05 rad), wrong-magnitude accelerations, degenerate initialisation inputs; well-conditioned random lower-triangular W with attitude-bias coupling; gyro rates 0.1..30 rad/s, dt 1..20 ms; distinct = distinct (unit, input)")
