"""C07 falsification search: all 12 ordered SO(3) conversions + from_Matrix entry points on the real code."""
import itertools
import numpy as np
import casadi as ca
import hcommon as H
import liegroups as L


def search(S):
    from cyecca.lie import SO3Quat, SO3Mrp, SO3Dcm, SO3EulerB321
    G = {"Quat": SO3Quat, "Mrp": SO3Mrp, "Dcm": SO3Dcm, "Euler": SO3EulerB321}
    rng = S.rng
    N = max(6, S.budget // 10)
    rots = []
    for k in range(N):
        ax, ang = L.rand_rot(rng)
        rots.append((ax, ang))
    # structured: every Shepperd branch, exactly pi, near identity, gimbal poles
    for ax in (np.eye(3)[0], np.eye(3)[1], np.eye(3)[2], np.ones(3) / np.sqrt(3), np.array([0, 1, 1]) / np.sqrt(2),
               np.array([1, 1, 0]) / np.sqrt(2), np.array([1, 0, 1]) / np.sqrt(2), np.array([1, -1, 0]) / np.sqrt(2)):      # exact ties between two diagonal entries
        for ang in (0.0, 1e-9, 2.2, 2.9, np.pi):
            rots.append((ax, ang))
    for ax, ang in rots:
        R = L.Rmat(ax, ang)
        srcs = {"Quat": L.quat_of(ax, ang) * rng.choice([-1, 1]), "Mrp": np.tan(ang / 4) * ax, "Dcm": R.reshape(9, order="F")}
        if L.euler_ok(R):
            srcs["Euler"] = L.f(SO3EulerB321.from_Matrix(ca.SX(ca.DM(R))).param).flatten()
        inp0 = {"axis": ax.tolist(), "angle": float(ang)}
        for s, d in itertools.permutations(G.keys(), 2):
            if s not in srcs:
                continue
            if d == "Euler" and not L.euler_ok(R):
                continue
            if s == "Quat" and d == "Mrp" and abs(1 + srcs[s][0]) < 1e-6:
                continue
            X = G[s].elem(ca.DM(srcs[s]))
            inp = dict(inp0, src=s, param=srcs[s].tolist())
            try:
                Y = getattr(G[d], "from_" + s)(X)
                MY = L.f(G[d].elem(ca.DM(L.f(Y.param))).to_Matrix())
                p = L.f(Y.param).flatten()
            except Exception as e:
                S.check("SO3%s.from_%s" % (d, s), "raises", inp, False, None, "%s: %s" % (type(e).__name__, str(e)[:150]), "conversion raised")
                continue
            S.check("SO3%s.from_%s" % (d, s), "same_rotation", inp, H.close(MY, R, 1e-7), R.tolist(), MY.tolist(), "conversion changed the rotation")
            if d == "Quat":
                S.check("SO3Quat.from_%s" % s, "unit", inp, abs(np.dot(p, p) - 1) < 1e-9, 1.0, float(np.dot(p, p)), "quaternion not unit")
            if d == "Mrp":
                S.check("SO3Mrp.from_%s" % s, "in_ball", inp, np.dot(p, p) <= 1 + 1e-9, "<=1", float(np.dot(p, p)), "MRP outside the unit ball")
            if d == "Dcm":
                M = p.reshape(3, 3, order="F")
                S.check("SO3Dcm.from_%s" % s, "orthonormal", inp, H.close(M @ M.T, np.eye(3), 1e-8) and abs(np.linalg.det(M) - 1) < 1e-8, None, None, "DCM not orthonormal / det != 1")
            if d == "Euler":
                S.check("SO3Euler.from_%s" % s, "pitch_range", inp, -np.pi / 2 - 1e-12 <= p[1] <= np.pi / 2 + 1e-12, None, float(p[1]), "pitch outside [-pi/2, pi/2]")
        # shadow switch
        for r in (srcs["Mrp"], -srcs["Mrp"] / max(np.dot(srcs["Mrp"], srcs["Mrp"]), 1e-12) if ang > 1e-6 else srcs["Mrp"]):
            X = SO3Mrp.elem(ca.DM(r))
            M0 = L.f(X.to_Matrix())
            SO3Mrp.shadow_if_necessary(X)
            p = L.f(X.param).flatten()
            if np.all(np.isfinite(M0)):
                S.check("SO3Mrp.shadow_if_necessary", "same_rotation", {"r": np.array(r).tolist()}, H.close(L.f(X.to_Matrix()), M0, 1e-7) and np.dot(p, p) <= 1 + 1e-9, None, p.tolist(), "shadow switch changed the rotation or left |r|>1")
    # gimbal band: within the documented 1e-3 rad tolerance
    for sign in (1, -1):
        for dth in (0.0, 1e-6, 5e-4, 9e-4):
            e = np.array([rng.uniform(-3, 3), sign * (np.pi / 2 - dth), rng.uniform(-3, 3)])
            R = L.f(SO3EulerB321.elem(ca.DM(e)).to_Matrix())
            Y = SO3EulerB321.from_Matrix(ca.SX(ca.DM(R)))
            MY = L.f(SO3EulerB321.elem(ca.DM(L.f(Y.param))).to_Matrix())
            S.check("SO3Euler.from_Matrix", "gimbal_band", {"e": e.tolist()}, bool(np.all(np.isfinite(MY)) and np.max(np.abs(MY - R)) <= 2.5e-3), R.tolist(), MY.tolist(),
                    "inside the gimbal band the rotation error exceeds the documented 1e-3 rad tolerance")
    # just outside the band (the property applies from 1e-3 rad on): every conversion into Euler must be exact there
    for sign in (1, -1):
        for dth in (1.2e-3, 2e-3, 5e-3, 1e-2, 2e-2, 4e-2, 8e-2):
            e = np.array([rng.uniform(-3, 3), sign * (np.pi / 2 - dth), rng.uniform(0.3, 3) * rng.choice([-1, 1])])
            R = L.f(SO3EulerB321.elem(ca.DM(e)).to_Matrix())
            for nm, conv in (("from_Matrix", lambda: SO3EulerB321.from_Matrix(ca.SX(ca.DM(R)))), ("from_Dcm", lambda: SO3EulerB321.from_Dcm(SO3Dcm.elem(ca.DM(R.reshape(9, order="F")))))):
                Y = conv()
                MY = L.f(SO3EulerB321.elem(ca.DM(L.f(Y.param))).to_Matrix())
                S.check("SO3Euler." + nm, "near_band", {"e": e.tolist()}, bool(np.all(np.isfinite(MY)) and np.max(np.abs(MY - R)) <= 1e-9 / dth), R.tolist(), MY.tolist(),
                        "just outside the gimbal band the conversion into Euler angles changes the rotation")


H.run(search, "random + structured rotations (all Shepperd branches, exactly pi, near identity, both quaternion signs), all 12 ordered representation pairs + shadow switch + gimbal band; reference = numpy Rodrigues matrix; distinct = distinct (unit, input)")
