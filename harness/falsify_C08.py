"""C08 search on the real strapdown_ins_propagate (and SE23 exp_mixed behind it): one step against the 50-digit closed-form
solution of p' = v, v' = R a - g e3, R' = R [w]x; semigroup over step sequences; dt = 0; unit norm.  Search / replay only."""
import numpy as np
import casadi as ca
import mpmath as mp
import hcommon as H
import liegroups as L

mp.mp.dps = 50


def hat(w):
    return mp.matrix([[0, -w[2], w[1]], [w[2], 0, -w[0]], [-w[1], w[0], 0]])


def qmat(q):
    a, b, c, d = q
    return mp.matrix([[a*a+b*b-c*c-d*d, 2*(b*c-a*d), 2*(b*d+a*c)], [2*(b*c+a*d), a*a+c*c-b*b-d*d, 2*(c*d-a*b)], [2*(b*d-a*c), 2*(c*d+a*b), a*a+d*d-b*b-c*c]])


def exact(x0, a, w, g, t):
    """closed-form flow in 50 digits (series for the coefficients when theta*t is tiny)"""
    p0 = mp.matrix(x0[0:3]); v0 = mp.matrix(x0[3:6]); q0 = [mp.mpf(v) for v in x0[6:10]]
    a = mp.matrix([mp.mpf(v) for v in a]); w = [mp.mpf(v) for v in w]; g = mp.mpf(g); t = mp.mpf(t)
    th = mp.sqrt(sum(v * v for v in w))
    W = hat(w); W2 = W * W
    x = th * t
    if abs(x) < mp.mpf("1e-8"):
        c1 = t**2 / 2; c2 = t**3 / 6; c3 = t**4 / 24; s1 = t           # (1-cos x)/th^2, (x-sin x)/th^3, (x^2/2+cos x-1)/th^4, sin x/th
    else:
        c1 = (1 - mp.cos(x)) / th**2; c2 = (x - mp.sin(x)) / th**3; c3 = (x**2 / 2 + mp.cos(x) - 1) / th**4; s1 = mp.sin(x) / th
    I = mp.eye(3)
    Rt = I + s1 * W + c1 * W2
    TJ = t * I + c1 * W + c2 * W2
    TTJ = t**2 / 2 * I + c2 * W + c3 * W2
    R0 = qmat(q0)
    e3 = mp.matrix([0, 0, 1])
    v = v0 - g * t * e3 + R0 * (TJ * a)
    p = p0 + v0 * t - g * t**2 / 2 * e3 + R0 * (TTJ * a)
    R = R0 * Rt
    return p, v, R


def search(S):
    from cyecca.models import rdd2
    f = rdd2.derive_strapdown_ins_propagation()["strapdown_ins_propagate"]
    rng = S.rng
    n = max(20, S.budget)

    def rand_case(k):
        ax, ang = L.rand_rot(rng)
        q = L.quat_of(ax, ang) * rng.choice([-1, 1])
        x0 = np.concatenate([rng.normal(size=3) * 5, rng.normal(size=3) * 2, q])
        a = rng.normal(size=3) * 5
        g = float(rng.uniform(0, 12))
        m = k % 8
        wdir = rng.normal(size=3); wdir /= np.linalg.norm(wdir)
        if m == 0:
            w = np.zeros(3); dt = float(rng.uniform(0, 2))
        elif m == 1:
            w = wdir * 10 ** rng.uniform(-12, -3); dt = float(rng.uniform(0.001, 1))
        elif m in (2, 3):
            sw = [np.sqrt(1e-3), 2 * np.sqrt(1e-3)][m - 2]       # theta*dt at which a coefficient switches cell
            dt = float(10 ** rng.uniform(-3, 0)); w = wdir * sw / dt * (1 + rng.choice([-1, 1]) * 10 ** rng.uniform(-14, -2))
        elif m == 4:
            w = wdir * rng.uniform(5, 40); dt = float(rng.uniform(0.001, 0.02))
        elif m == 5:
            w = wdir * rng.uniform(0.1, 3); dt = float(rng.uniform(0.5, 5))
        else:
            w = rng.normal(size=3); dt = float(10 ** rng.uniform(-4, 0.5))
            if m == 7:
                dt = -dt            # the flow is defined for negative steps as well (propagating backwards)
        return x0, a, w, g, dt

    def err(x1, ref):
        p, v, R = ref
        scale = max(1.0, float(max(abs(p[i]) for i in range(3))), float(max(abs(v[i]) for i in range(3))))
        ep = max(abs(mp.mpf(float(x1[i])) - p[i]) for i in range(3)); ev = max(abs(mp.mpf(float(x1[3 + i])) - v[i]) for i in range(3))
        M = qmat([mp.mpf(float(c)) for c in x1[6:10]])
        eR = max(abs(M[i, j] - R[i, j]) for i in range(3) for j in range(3))
        return float(max(ep, ev) / scale), float(eR)

    for k in range(n):
        x0, a, w, g, dt = rand_case(k)
        inp = {"x0": x0.tolist(), "a_b": a.tolist(), "omega_b": w.tolist(), "g": g, "dt": dt}
        x1 = np.array(f(x0, a, w, g, dt)).flatten()
        if not np.all(np.isfinite(x1)):
            S.check("strapdown_ins_propagate", "finite", inp, False, None, x1.tolist(), "non-finite output")
            continue
        e_pv, e_R = err(x1, exact(x0, a, w, g, dt))
        S.check("strapdown_ins_propagate", "exact_flow", inp, bool(e_pv <= 1e-9 and e_R <= 1e-9), "<= 1e-9", [e_pv, e_R], "one step differs from the exact solution of the IMU kinematics")
        S.check("strapdown_ins_propagate", "unit_norm", inp, bool(abs(np.linalg.norm(x1[6:10]) - 1) <= 1e-12), 1.0, float(np.linalg.norm(x1[6:10])), "attitude quaternion lost unit norm")
        xz = np.array(f(x0, a, w, g, 0.0)).flatten()
        S.check("strapdown_ins_propagate", "dt_zero_identity", {"x0": x0.tolist(), "a_b": a.tolist(), "omega_b": w.tolist(), "g": g}, bool(np.array_equal(xz, x0)), x0.tolist(), xz.tolist(), "dt = 0 is not the identity")
        # semigroup: dt1 then dt2 = dt1 + dt2 (same inputs)
        s = float(rng.uniform(0.05, 0.95))
        xa = np.array(f(x0, a, w, g, s * dt)).flatten(); xb = np.array(f(xa, a, w, g, (1 - s) * dt)).flatten()
        scale = max(1.0, float(np.max(np.abs(x1[:6]))))
        dq = min(np.linalg.norm(xb[6:10] - x1[6:10]), np.linalg.norm(xb[6:10] + x1[6:10]))
        S.check("strapdown_ins_propagate", "semigroup", dict(inp, split=s), bool(np.max(np.abs(xb[:6] - x1[:6])) <= 1e-9 * scale and dq <= 1e-9), x1.tolist(), xb.tolist(), "dt1 then dt2 differs from dt1 + dt2")
    # histories: piecewise-constant inputs, against the exact flow applied segment by segment
    for k in range(max(3, n // 10)):
        x0, a, w, g, dt = rand_case(6)
        x = x0.copy(); ref_state = None
        segs = []
        px = [mp.mpf(v) for v in x0]
        ok = True
        for j in range(int(rng.integers(2, 8))):
            _, a, w, _, dt = rand_case(int(rng.integers(0, 8)))
            dt = min(dt, 1.0)
            segs.append({"a_b": a.tolist(), "omega_b": w.tolist(), "dt": dt})
            x = np.array(f(x, a, w, g, dt)).flatten()
        # reference: chain exact() using the computed attitude of the previous segment start (exact composition)
        xr = x0.copy()
        pr, vr, Rr = None, None, None
        xcur = x0.copy()
        for sgm in segs:
            p, v, R = exact(xcur, sgm["a_b"], sgm["omega_b"], g, sgm["dt"])
            qn = np.array(f(xcur, sgm["a_b"], sgm["omega_b"], g, sgm["dt"])).flatten()[6:10]
            xcur = np.concatenate([[float(p[i]) for i in range(3)], [float(v[i]) for i in range(3)], qn])
        scale = max(1.0, float(np.max(np.abs(xcur[:6]))))
        S.check("strapdown_ins_propagate", "history", {"x0": x0.tolist(), "g": g, "segments": segs}, bool(np.max(np.abs(x[:6] - xcur[:6])) <= 1e-8 * scale), xcur.tolist(), x.tolist(), "a sequence of steps with piecewise-constant inputs drifts from the exact flow")


H.run(search, "real rdd2.derive_strapdown_ins_propagation() function: random states (positions ~5, velocities ~2, unit quaternions of either sign), specific forces ~5, gravity 0..12; rates exactly 0, 1e-12..1e-3, theta*dt on both sides of the coefficient switches (0.0316, 0.0632), 5..40 rad/s with 1..20 ms steps, slow rates with steps up to 5 s, negative steps; reference: 50-digit closed-form flow; splits of one step into two; sequences of 2..7 segments; distinct = distinct (unit, input)")
