"""C16 falsification search on the real quadrotor model (numeric CasADi evaluation)."""
import numpy as np
import casadi as ca
import hcommon as H


def search(S):
    from cyecca.models import quadrotor
    mdl = quadrotor.derive_model()
    f, g_accel, g_gyro = mdl["f"], mdl["g_accel"], mdl["g_gyro"]
    pdef = np.array(list(mdl["p_defaults"].values()), dtype=float)
    rng = S.rng

    def rand_p():
        p = pdef.copy()
        if rng.random() < 0.7:
            p[0:2] = rng.uniform(0.005, 0.1, 2)            # tau
            p[6:10] = rng.uniform(0.1, 0.5)                  # arm lengths equal
            p[14] = rng.uniform(1e-6, 1e-4)                  # CT
            p[15] = rng.uniform(0.005, 0.05)                 # CM
            p[16:20] = rng.uniform(0, 0.1, 4)                # aero
            p[22] = rng.uniform(1, 20)
            p[23] = rng.uniform(0.5, 5)
            p[24:27] = rng.uniform(0.01, 0.1, 3)
        return p

    def rand_x(above=True):
        x = rng.normal(size=17)
        q = rng.normal(size=4)
        x[6:10] = q / np.linalg.norm(q)
        x[13:17] = rng.uniform(0, 1500, 4)
        if above:
            x[2] = abs(x[2]) + 0.01
        return x

    n = max(20, S.budget)
    for k in range(n):
        p = rand_p()
        x = rand_x(above=(k % 3 != 0))
        u = rng.uniform(0, 1500, 4)
        xd = np.array(f(x, u, p)).flatten()
        inp = {"x": x.tolist(), "u": u.tolist(), "p": p.tolist()}
        sc = max(1.0, np.max(np.abs(xd[6:10])))
        S.check("quad.f", "quat_norm", inp, np.all(np.isfinite(xd)) and abs(np.dot(x[6:10], xd[6:10])) <= 1e-9 * sc,
                0.0, float(np.dot(x[6:10], xd[6:10])), "q . qdot != 0")
        # motors
        tau = np.where(u - x[13:17] > 0, p[0], p[1])
        S.check("quad.f", "motor_first_order", inp, H.close(xd[13:17], (u - x[13:17]) / tau),
                ((u - x[13:17]) / tau).tolist(), xd[13:17].tolist(), "motor derivative is not (cmd-w)/tau")
        # translation + yaw equivariance
        a = rng.uniform(-np.pi, np.pi)
        c, s = np.cos(a / 2), np.sin(a / 2)
        Rz = np.array([[c * c - s * s, -2 * c * s, 0], [2 * c * s, c * c - s * s, 0], [0, 0, 1]])
        x2 = x.copy()
        x2[0:3] = Rz @ x[0:3] + np.array([rng.normal(), rng.normal(), 0])
        q = x[6:10]
        x2[6:10] = [c * q[0] - s * q[3], c * q[1] - s * q[2], c * q[2] + s * q[1], c * q[3] + s * q[0]]
        xd2 = np.array(f(x2, u, p)).flatten()
        exp = xd.copy()
        exp[0:3] = Rz @ xd[0:3]
        qd = xd[6:10]
        exp[6:10] = [c * qd[0] - s * qd[3], c * qd[1] - s * qd[2], c * qd[2] + s * qd[1], c * qd[3] + s * qd[0]]
        S.check("quad.f", "equivariance", inp, H.close(xd2, exp, 1e-8), exp.tolist(), xd2.tolist(),
                "f(g.x) != g.f(x) for a horizontal translation + yaw rotation")
        # hover equilibrium (defaults geometry, random m, g, CT)
        ph = p.copy()
        ph[2:6] = pdef[2:6]
        ph[10:14] = pdef[10:14]
        w = np.sqrt(ph[23] * ph[22] / (4 * ph[14]))
        xh = np.zeros(17)
        xh[0:3] = [rng.normal(), rng.normal(), abs(rng.normal())]
        xh[6] = 1
        xh[13:17] = w
        xdh = np.array(f(xh, [w] * 4, ph)).flatten()
        S.check("quad.f", "hover", {"x": xh.tolist(), "p": ph.tolist()}, np.max(np.abs(xdh)) <= 1e-8 * max(1.0, ph[22]),
                0.0, xdh.tolist(), "level hover with quarter-weight thrust per rotor is not an equilibrium")
        # free fall
        xf = rand_x(above=True)
        xf[13:17] = 0
        pf = p.copy()
        pf[19] = 0
        y = np.array(g_accel(xf, u, pf, [0, 0, 0], 0.01)).flatten()
        S.check("quad.g_accel", "free_fall", {"x": xf.tolist(), "p": pf.tolist()}, np.max(np.abs(y)) <= 1e-9, 0.0, y.tolist(),
                "accelerometer not zero in free fall")
        yg = np.array(g_gyro(x, u, p, [0, 0, 0], 0.01)).flatten()
        S.check("quad.g_gyro", "gyro", inp, H.close(yg, x[10:13]), x[10:13].tolist(), yg.tolist(), "gyro != body rate")
        # Euler / Newton wrench
        J = p[24:27]
        wv = x[10:13]
        lhs = J * xd[10:13] + np.cross(wv, J * wv)
        T = p[14] * x[13:17] ** 2
        l, th, d = p[6:10], p[10:14], p[2:6]
        rhs = np.array([np.sum(l * np.sin(th) * T) + p[16] * wv[0] * p[20] * np.sum(l),
                        -np.sum(l * np.cos(th) * T) + p[17] * wv[1] * p[20] * np.sum(l),
                        -p[15] * np.sum(d * T) + p[18] * wv[2] * p[20] * np.sum(l)])
        S.check("quad.f", "moment", inp, H.close(lhs, rhs, 1e-8), rhs.tolist(), lhs.tolist(), "J wdot + w x Jw != sum over rotors")
        # the same wrench identity on a general frame: unequal arm lengths, arbitrary arm angles, arbitrary spin directions
        pg = p.copy()
        pg[6:10] = rng.uniform(0.1, 0.5, 4); pg[10:14] = rng.uniform(-np.pi, np.pi, 4); pg[2:6] = rng.choice([-1.0, 1.0], 4)
        xdg = np.array(f(x, u, pg)).flatten()
        lhs = J * xdg[10:13] + np.cross(wv, J * wv)
        l, th, d = pg[6:10], pg[10:14], pg[2:6]
        rhs = np.array([np.sum(l * np.sin(th) * T) + pg[16] * wv[0] * pg[20] * np.sum(l),
                        -np.sum(l * np.cos(th) * T) + pg[17] * wv[1] * pg[20] * np.sum(l),
                        -pg[15] * np.sum(d * T) + pg[18] * wv[2] * pg[20] * np.sum(l)])
        S.check("quad.f", "moment_general_frame", {"x": x.tolist(), "u": u.tolist(), "p": pg.tolist()}, H.close(lhs, rhs, 1e-8), rhs.tolist(), lhs.tolist(), "J wdot + w x Jw != sum over rotors on a frame with unequal arms / arbitrary geometry")


H.run(search, "random unit-quaternion states (above and below ground), rotor speeds/commands in [0,1500], default and randomised parameter vectors, plus frames with unequal arm lengths, arbitrary arm angles and spin directions for the wrench identity; distinct = distinct (unit, input)")
