"""C06 search on the real cyecca functions in double precision: every SERIES / SQUARED_SERIES entry against mpmath closed
forms on a logarithmic grid through the Taylor/closed-form switch, consumers (exp, log, Jacobians) against independent
references for rotation magnitudes in [0, 1], finiteness of automatic derivatives at and around zero.  Search / replay only."""
import numpy as np
import casadi as ca
import mpmath as mp
import hcommon as H
import lie_exp as E

mp.mp.dps = 120


def closed_forms():
    c, s = mp.cos, mp.sin
    return {
        "cos(x)": (lambda x: c(x), 1), "sin(x)/x": (lambda x: s(x) / x, 1), "x/sin(x)": (lambda x: x / s(x), 1),
        "(1 - cos(x))/x": (lambda x: (1 - c(x)) / x, 0), "(1 - cos(x))/x^2": (lambda x: (1 - c(x)) / x**2, mp.mpf(1) / 2),
        "(x - sin(x))/x^3": (lambda x: (x - s(x)) / x**3, mp.mpf(1) / 6),
        "(1 - x*sin(x)/(2*(1 - cos(x))))/x^2": (lambda x: (1 - x * s(x) / (2 * (1 - c(x)))) / x**2, mp.mpf(1) / 12),
        "(-x^2/2 - cos(x) + 1)/x^2": (lambda x: (-x**2 / 2 - c(x) + 1) / x**2, 0),
        "(x^2/2 + cos(x) - 1)/x^4": (lambda x: (x**2 / 2 + c(x) - 1) / x**4, mp.mpf(1) / 24),
        "1/x^2": (lambda x: 1 / x**2, None), "(2 - x cos(x))/(2 x^2)": (lambda x: (2 - x * c(x)) / (2 * x**2), None),
        "1/x^2 + sin(x)/(2 x (cos(x) - 1))": (lambda x: 1 / x**2 + s(x) / (2 * x * (c(x) - 1)), mp.mpf(1) / 12),
        "(x^2 + 2 cos(x) - 2)/(2 x^4)": (lambda x: (x**2 + 2 * c(x) - 2) / (2 * x**4), mp.mpf(1) / 24),
        "(x cos(x) + 2 x - 3 sin(x))/(2 x^5)": (lambda x: (x * c(x) + 2 * x - 3 * s(x)) / (2 * x**5), mp.mpf(1) / 120),
        "(x^2 + x sin(x) + 4 cos(x) - 4)/(2 x^6)": (lambda x: (x**2 + x * s(x) + 4 * c(x) - 4) / (2 * x**6), mp.mpf(1) / 720),
        "(2 - 2 cos(x) - x sin(x))/(2 x^4))": (lambda x: (2 - 2 * c(x) - x * s(x)) / (2 * x**4), mp.mpf(1) / 24),
        "tan(x/4)/x": (lambda x: mp.tan(x / 4) / x, mp.mpf(1) / 4), "4 atan(x)/x": (lambda x: 4 * mp.atan(x) / x, 4),
    }


def grid(rng, n):
    g = [0.0, 5e-324, 1e-310, 1e-300, 1e-200, 1e-100, 1e-20, 1e-8, 1e-5, 1e-4]
    sw = 1e-3
    for e in (0, 1, 2, 8, 64, 4096):
        g += [np.nextafter(sw, 0) - e * np.spacing(sw), sw + e * np.spacing(sw)]
    g += [sw * (1 - 1e-6), sw * (1 + 1e-6), 0.9e-3, 1.1e-3]
    g += list(10 ** rng.uniform(-12, 0, n))
    g += list(rng.uniform(0, 1, n // 2))
    return g


def search(S):
    from cyecca.symbolic import SERIES, SQUARED_SERIES
    rng = S.rng
    CF = closed_forms()
    n = max(10, S.budget // 4)
    # which table entries the Lie-group code consumes (read from the source on every run)
    import re, glob
    consumed = set()
    for path in glob.glob("/repo/cyecca/lie/*.py"):
        for m in re.finditer(r'(SQUARED_SERIES|SERIES)\[\s*"([^"]+)"\s*\]', open(path).read()):
            consumed.add((m.group(1) == "SQUARED_SERIES", m.group(2)))
    S.extra["consumed_series"] = sorted("%s[%s]" % ("SQUARED_SERIES" if a else "SERIES", b) for a, b in consumed)
    # ---------------- the table itself
    for key in SERIES.keys():
        if key not in CF:
            S.check("series[%s]" % key, "unknown_entry", {}, False, None, None, "series table entry without a reference closed form")
            continue
        f, lim = CF[key]
        for sq in (False, True):
            fn = SQUARED_SERIES[key] if sq else SERIES[key]
            unit = ("SQUARED_SERIES[%s]" if sq else "SERIES[%s]") % key
            for x in grid(rng, n):
                for sign in ((1,) if sq else (1, -1)):
                    xv = float(sign * x)
                    if xv == 0.0 and sign == -1:
                        continue
                    arg = mp.sqrt(mp.mpf(xv)) if sq else mp.mpf(xv)
                    if xv == 0.0:
                        if lim is None:
                            continue
                        ref = lim
                    else:
                        # the closed forms cancel up to arg^6 against O(1) terms: carry enough digits for that
                        with mp.workdps(int(60 + 8 * abs(mp.log10(abs(arg))))):
                            ref = +f(mp.sqrt(mp.mpf(xv)) if sq else mp.mpf(xv))
                    if abs(ref) > 1e30:
                        continue
                    got = float(fn(xv))
                    if abs(xv) < 1e-3:
                        tol = 1e-9 * max(1.0, abs(float(ref)))          # Taylor cell (and exactly 0): every entry
                    elif (sq, key) in consumed:
                        # closed-form cell of a consumed entry: sanity bound only -- some closed forms cancel just above the
                        # switch (e.g. C4 of the se(3) Q block: 1.7e-8); what the property bounds is the consumer output, below
                        tol = 1e-6 * max(1.0, abs(float(ref)))
                    else:
                        continue
                    ok = np.isfinite(got) and abs(mp.mpf(got) - ref) <= tol
                    S.check(unit, "accuracy", {"x": xv}, bool(ok), float(ref), got, "series coefficient differs from the exact value by more than 1e-9 (or is not finite)")
    # ---------------- consumers on [0, 1] rad
    for label, alg, grp, nt, rot3, rep in E.pairs():
        for k in range(n):
            v, th = E.sample_algebra(label, alg, nt, rot3, rng, k, amax=1.0, tscale=1.0)
            inp = {"algebra": v.tolist(), "theta": th}
            try:
                x = alg.elem(ca.DM(v))
                X = x.exp(grp)
                M = E.D(X.to_Matrix()); ref = E.expm_ref(alg, v)
                S.check(label + ".exp", "accuracy", inp, bool(E.fin(M) and np.max(np.abs(M - ref)) <= 1e-9), ref.tolist(), M.tolist(), "exp not within 1e-9 of the exact value / not finite")
                lg = E.D(X.log().param).flatten()
                S.check(label + ".log", "accuracy", inp, bool(E.fin(lg) and np.max(np.abs(lg - v)) <= 1e-9 * max(1.0, np.max(np.abs(v)))), v.tolist(), lg.tolist(), "log(exp x) not within 1e-9 of x / not finite")
            except Exception as e:
                S.check(label + ".exp", "exception", inp, False, None, "%s: %s" % (type(e).__name__, str(e)[:200]), "exp/log raised")
            if label in ("SO3Quat", "SE3Quat", "SE23Quat"):
                try:
                    Jl = E.D(x.left_jacobian()); Jr = E.D(x.right_jacobian()); Jli = E.D(x.left_jacobian_inv()); Jri = E.D(x.right_jacobian_inv())
                    R = E.jl_ref(alg, v); Rr = E.jl_ref(alg, -v)
                    unit = {"SO3Quat": "so3", "SE3Quat": "se3", "SE23Quat": "se23"}[label]
                    S.check(unit + ".left_jacobian", "accuracy", inp, bool(E.fin(Jl) and np.max(np.abs(Jl - R)) <= 1e-9), R.tolist(), Jl.tolist(), "left Jacobian not within 1e-9 of sum ad^k/(k+1)!")
                    S.check(unit + ".right_jacobian", "accuracy", inp, bool(E.fin(Jr) and np.max(np.abs(Jr - Rr)) <= 1e-9), Rr.tolist(), Jr.tolist(), "right Jacobian not within 1e-9")
                    S.check(unit + ".left_jacobian_inv", "accuracy", inp, bool(E.fin(Jli) and np.max(np.abs(Jli - np.linalg.inv(R))) <= 1e-8), None, Jli.tolist(), "inverse left Jacobian inaccurate")
                    S.check(unit + ".right_jacobian_inv", "accuracy", inp, bool(E.fin(Jri) and np.max(np.abs(Jri - np.linalg.inv(Rr))) <= 1e-8), None, Jri.tolist(), "inverse right Jacobian inaccurate")
                except Exception as e:
                    S.check(label + ".jacobians", "exception", inp, False, None, "%s: %s" % (type(e).__name__, str(e)[:200]), "Jacobian raised")
        # automatic derivatives at and around zero
        xs = ca.SX.sym("x", alg.n_param)
        try:
            Xs = alg.elem(xs).exp(grp)
            Jexp = ca.Function("J", [xs], [ca.jacobian(Xs.param, xs)])
            gs = ca.SX.sym("g", grp.n_param)
            Jlog = ca.Function("J", [gs], [ca.jacobian(grp.elem(gs).log().param, gs)])
            for mag in (0.0, 1e-300, 1e-12, 1e-6, 9.9e-4, 1.01e-3, 0.0316, 0.0317):
                d = rng.normal(size=alg.n_param); d /= np.linalg.norm(d)
                v = mag * d
                S.check(label + ".exp", "ad_finite", {"algebra": v.tolist()}, bool(E.fin(Jexp(v))), "finite", None, "automatic derivative of exp not finite near zero")
                if True:
                    g0 = E.D(alg.elem(ca.DM(v)).exp(grp).param).flatten()
                    S.check(label + ".log", "ad_finite", {"group": g0.tolist()}, bool(E.fin(Jlog(g0))), "finite", None, "automatic derivative of log not finite near the identity")
        except Exception as e:
            S.check(label + ".ad", "exception", {}, False, None, "%s: %s" % (type(e).__name__, str(e)[:200]), "building the derivative raised")


H.run(search, "all 18 SERIES (both signs) and 18 SQUARED_SERIES entries against 120-digit mpmath closed forms (limits at 0) on: 0, denormals, 1e-300..1e-4, 0..4096 ulps on both sides of the 1e-3 switch, log-uniform 1e-12..1 and uniform 0..1; exp/log of every algebra-group pair and so3/se3/se23 Jacobians for rotation magnitudes in [0,1] (same grid, O(1) translations) against scipy expm and the ad-series; casadi.jacobian of exp and log at magnitudes 0, 1e-300, 1e-12, 1e-6 and both sides of the theta switches; distinct = distinct (unit, input)")
