"""C05 search on the real cyecca functions: Jacobians of exp against finite differences and the ad-series, inverse
Jacobians, J_l = Ad_exp J_r = J_r(-x), kinematic Jacobians of quaternions and MRPs against finite differences of the
rotation matrix.  Search / replay only."""
import numpy as np
import casadi as ca
import hcommon as H
import liegroups as L
import lie_exp as E


def hat(w):
    return np.array([[0, -w[2], w[1]], [w[2], 0, -w[0]], [-w[1], w[0], 0]])


def search(S):
    from cyecca.lie import so3, se3, se23, SO3Quat, SO3Mrp, SE3Quat, SE23Quat
    rng = S.rng
    n = max(10, S.budget // 2)
    for label, alg, grp, nt in (("so3", so3, SO3Quat, 0), ("se3", se3, SE3Quat, 3), ("se23", se23, SE23Quat, 6)):
        for k in range(n):
            v, th = E.sample_algebra(label, alg, nt, True, rng, k, amax=2 * np.pi - 0.1, tscale=2.0)
            inp = {"algebra": v.tolist(), "theta": th}
            x = alg.elem(ca.DM(v))
            try:
                Jl = E.D(x.left_jacobian()); Jr = E.D(x.right_jacobian()); Jli = E.D(x.left_jacobian_inv()); Jri = E.D(x.right_jacobian_inv())
            except Exception as e:
                S.check(label + ".jacobians", "exception", inp, False, None, "%s: %s" % (type(e).__name__, str(e)[:200]), "Jacobian raised")
                continue
            nn = alg.n_param
            sc = max(1.0, float(np.max(np.abs(Jl))))
            R = E.jl_ref(alg, v, terms=80); Rr = E.jl_ref(alg, -v, terms=80)
            S.check(label + ".left_jacobian", "is_ad_series", inp, bool(np.max(np.abs(Jl - R)) <= 1e-8 * sc), R.tolist(), Jl.tolist(), "J_l differs from sum ad^k/(k+1)!")
            S.check(label + ".right_jacobian", "is_ad_series", inp, bool(np.max(np.abs(Jr - Rr)) <= 1e-8 * sc), Rr.tolist(), Jr.tolist(), "J_r differs from J_l(-x)")
            if abs(th - 2 * np.pi) > 0.2:
                S.check(label + ".left_jacobian_inv", "is_inverse", inp, bool(np.max(np.abs(Jli @ Jl - np.eye(nn))) <= 1e-7 * sc), None, (Jli @ Jl).tolist(), "J_l^-1 J_l is not the identity")
                S.check(label + ".right_jacobian_inv", "is_inverse", inp, bool(np.max(np.abs(Jri @ Jr - np.eye(nn))) <= 1e-7 * sc), None, (Jri @ Jr).tolist(), "J_r^-1 J_r is not the identity")
            try:
                Ad = E.D(x.exp(grp).Ad())
                S.check(label + ".left_jacobian", "is_Ad_right", inp, bool(np.max(np.abs(Jl - Ad @ Jr)) <= 1e-8 * sc * max(1.0, float(np.max(np.abs(Ad))))), None, (Jl - Ad @ Jr).tolist(), "J_l != Ad_exp(x) J_r")
            except Exception as e:
                S.check(label + ".Ad", "exception", inp, False, None, "%s: %s" % (type(e).__name__, str(e)[:200]), "Ad raised")
            # first-order: exp(x + d) ~ exp(J_l d) exp(x) ~ exp(x) exp(J_r d)
            d = rng.normal(size=nn); d /= np.linalg.norm(d); h = 1e-5
            try:
                Xp = E.D(alg.elem(ca.DM(v + h * d)).exp(grp).to_Matrix())
                Xl = E.D((alg.elem(ca.DM(h * (Jl @ d))).exp(grp) * x.exp(grp)).to_Matrix())
                Xr = E.D((x.exp(grp) * alg.elem(ca.DM(h * (Jr @ d))).exp(grp)).to_Matrix())
                scl = max(1.0, float(np.max(np.abs(Xp)))) * sc ** 2
                S.check(label + ".left_jacobian", "differential_of_exp", {"algebra": v.tolist(), "direction": d.tolist()}, bool(np.max(np.abs(Xp - Xl)) <= 50 * h * h * scl), None, float(np.max(np.abs(Xp - Xl))), "exp(x+d) != exp(J_l d) exp(x) to first order")
                S.check(label + ".right_jacobian", "differential_of_exp", {"algebra": v.tolist(), "direction": d.tolist()}, bool(np.max(np.abs(Xp - Xr)) <= 50 * h * h * scl), None, float(np.max(np.abs(Xp - Xr))), "exp(x+d) != exp(x) exp(J_r d) to first order")
            except Exception as e:
                S.check(label + ".exp", "exception", inp, False, None, "%s: %s" % (type(e).__name__, str(e)[:200]), "exp raised")
    # ---- kinematic Jacobians on the group
    for k in range(n):
        q = L.sample_so3("SO3Quat", rng, big=True)
        w = rng.normal(size=3) * 2
        X = SO3Quat.elem(ca.DM(q))
        M = E.D(X.to_Matrix())
        for side in ("left", "right"):
            J = E.D(getattr(X, side + "_jacobian")())
            qd = (J @ w).flatten()
            h = 1e-6
            Mp = E.D(SO3Quat.elem(ca.DM(q + h * qd)).to_Matrix()); Mm = E.D(SO3Quat.elem(ca.DM(q - h * qd)).to_Matrix())
            dM = (Mp - Mm) / (2 * h)
            ref = hat(w) @ M if side == "left" else M @ hat(w)
            inp = {"q": q.tolist(), "w": w.tolist()}
            S.check("SO3Quat.%s_jacobian" % side, "kinematics", inp, bool(np.max(np.abs(dM - ref)) <= 1e-6), ref.tolist(), dM.tolist(), "R' is not [w]x R / R [w]x along qdot = J w")
            S.check("SO3Quat.%s_jacobian" % side, "norm_conserved", inp, bool(abs(np.dot(q, qd)) <= 1e-12), 0.0, float(np.dot(q, qd)), "q . qdot != 0")
        r = L.sample_so3("SO3Mrp", rng)          # includes shadow-set MRPs (|r| > 1)
        Y = SO3Mrp.elem(ca.DM(r))
        J = E.D(Y.right_jacobian()); rd = (J @ w).flatten()
        h = 1e-6
        Mp = E.D(SO3Mrp.elem(ca.DM(r + h * rd)).to_Matrix()); Mm = E.D(SO3Mrp.elem(ca.DM(r - h * rd)).to_Matrix())
        M = E.D(Y.to_Matrix())
        S.check("SO3Mrp.right_jacobian", "kinematics", {"r": r.tolist(), "w": w.tolist()}, bool(np.max(np.abs((Mp - Mm) / (2 * h) - M @ hat(w))) <= 1e-5 * max(1.0, float(np.dot(r, r))) ** 2), (M @ hat(w)).tolist(), ((Mp - Mm) / (2 * h)).tolist(), "R' is not R [w]x along rdot = B(r) w / 4")


H.run(search, "so3/se3/se23 algebra vectors: rotation 0, tiny, both sides of the switches, up to 2pi-0.1, axis-aligned and random, translations ~N(0,2); reference J_l = sum ad^k/(k+1)! (80 terms) from the algebra's own ad matrix; first-order exp test with step 1e-5; unit quaternions of either sign and MRPs inside and outside the unit ball with random angular velocities, central differences of to_Matrix; distinct = distinct (unit, input)")
