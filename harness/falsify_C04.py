"""C04 falsification search: Ad/ad/bracket vs matrix conjugation and commutators on the real code."""
import numpy as np
import casadi as ca
import scipy.linalg
import hcommon as H
import liegroups as L


def search(S):
    G = L.groups()
    rng = S.rng
    n = max(3, S.budget // 12)
    for name in ["SO2", "SE2", "R2", "R3", "SO3Quat", "SO3Mrp", "SO3Dcm", "SO3Euler", "SE3Quat", "SE3Mrp", "SE23Quat", "SE23Mrp"]:
        grp = G[name]
        alg = grp.algebra
        m = alg.n_param
        for k in range(n):
            a, b = L.sample(name, rng), L.sample(name, rng)
            x, y, z = (rng.normal(size=m) for _ in range(3))
            inp = {"X": a.tolist(), "Y": b.tolist(), "x": x.tolist(), "y": y.tolist(), "z": z.tolist()}
            try:
                X, Y = grp.elem(ca.DM(a)), grp.elem(ca.DM(b))
                gx, gy, gz = alg.elem(ca.DM(x)), alg.elem(ca.DM(y)), alg.elem(ca.DM(z))
                MX = L.f(X.to_Matrix())
                hx, hy = L.f(gx.to_Matrix()), L.f(gy.to_Matrix())
                AdX = L.f(X.Ad())
                adx = L.f(gx.ad())
                S.check(name + ".Ad", "shape", inp, AdX.shape == (m, m) and adx.shape == (m, m), [m, m], [list(AdX.shape), list(adx.shape)], "Ad/ad is not a square operator on the parameter vector")
                if AdX.shape != (m, m) or adx.shape != (m, m):
                    break
                conj = MX @ hy @ np.linalg.inv(MX)
                got = L.f(alg.elem(ca.DM(AdX @ y)).to_Matrix())
                S.check(name + ".Ad", "conjugation", inp, H.close(got, conj, 1e-7), conj.tolist(), got.tolist(), "hat(Ad_X y) != X hat(y) X^-1")
                br = L.f((gx * gy).param).flatten()
                S.check(name + ".ad", "ad_is_bracket", inp, H.close(adx @ y, br, 1e-9), br.tolist(), (adx @ y).tolist(), "ad_x y != [x,y]")
                comm = hx @ hy - hy @ hx
                S.check(name + ".bracket", "commutator", inp, H.close(L.f((gx * gy).to_Matrix()), comm, 1e-9), comm.tolist(), None, "hat([x,y]) != commutator")
                jac = L.f((gx * (gy * gz)).param) + L.f((gy * (gz * gx)).param) + L.f((gz * (gx * gy)).param)
                S.check(name + ".bracket", "jacobi", inp, H.close(jac, 0 * jac, 1e-8), None, jac.flatten().tolist(), "Jacobi identity fails")
                # Ad_exp(x) = expm(ad_x)
                xs = x * min(1.0, 2.5 / (np.linalg.norm(x[-3:] if m >= 3 else x) + 1e-12))
                gxs = alg.elem(ca.DM(xs))
                if "Euler" not in name or L.euler_ok(scipy.linalg.expm(L.f(gxs.to_Matrix()))[:3, :3]):
                    Ade = L.f(gxs.exp(grp).Ad())
                    ref = scipy.linalg.expm(L.f(gxs.ad()))
                    S.check(name + ".Ad", "Ad_exp=exp_ad", inp, H.close(Ade, ref, 1e-7), ref.tolist(), Ade.tolist(), "Ad_exp(x) != expm(ad_x)")
                # homomorphism
                ok_pair = True
                ra, rb = L.rot_part(name, a), L.rot_part(name, b)
                if ra is not None:
                    ok_pair = L.mrp_pair_ok(ra, rb)
                if "Euler" in name:
                    ok_pair = L.euler_ok(MX @ L.f(Y.to_Matrix())) and L.euler_ok(MX.T)
                if ok_pair:
                    S.check(name + ".Ad", "hom", inp, H.close(L.f((X * Y).Ad()), AdX @ L.f(Y.Ad()), 1e-7), None, None, "Ad_XY != Ad_X Ad_Y")
                    S.check(name + ".Ad", "inv", inp, H.close(L.f(X.inverse().Ad()) @ AdX, np.eye(m), 1e-7), None, None, "Ad_{X^-1} != Ad_X^-1")
            except Exception as e:
                S.check(name, "raises", inp, False, None, "%s: %s" % (type(e).__name__, str(e)[:200]), "offered operation raised")
                break
    # Euler groups other than the shipped B321 (any sequence, body- or space-fixed, through the public constructor):
    # to_Matrix and Ad are offered for all of them
    from cyecca.lie.group_so3 import SO3EulerLieGroup, EulerType, Axis, so3 as so3_alg
    def rot(axis, a):
        c, s_ = np.cos(a), np.sin(a)
        return {Axis.x: np.array([[1, 0, 0], [0, c, -s_], [0, s_, c]]), Axis.y: np.array([[c, 0, s_], [0, 1, 0], [-s_, 0, c]]), Axis.z: np.array([[c, -s_, 0], [s_, c, 0], [0, 0, 1]])}[axis]
    for et in (EulerType.body_fixed, EulerType.space_fixed):
        for seq in ([Axis.x, Axis.y, Axis.z], [Axis.z, Axis.y, Axis.x], [Axis.z, Axis.x, Axis.z]):
            g = SO3EulerLieGroup(euler_type=et, sequence=seq)
            nm = "SO3Euler(%s,%s)" % (et.name, "".join(a.name for a in seq))
            for k in range(max(2, S.budget // 40)):
                e = rng.uniform(-3, 3, 3)
                y = rng.normal(size=3)
                R = np.eye(3)
                for ax_, an in zip(seq, e):
                    R = R @ rot(ax_, an) if et == EulerType.body_fixed else rot(ax_, an) @ R
                try:
                    X = g.elem(ca.DM(e))
                    MX = L.f(X.to_Matrix()); AdX = L.f(X.Ad())
                    S.check(nm + ".to_Matrix", "composition", {"e": e.tolist()}, H.close(MX, R, 1e-9), R.tolist(), MX.tolist(), "to_Matrix is not the composition of the elementary rotations in the declared order")
                    hy = L.f(so3_alg.elem(ca.DM(y)).to_Matrix())
                    conj = R @ hy @ R.T
                    got = L.f(so3_alg.elem(ca.DM(AdX @ y)).to_Matrix())
                    S.check(nm + ".Ad", "conjugation", {"e": e.tolist(), "y": y.tolist()}, H.close(got, conj, 1e-8), conj.tolist(), got.tolist(), "hat(Ad_X y) != X hat(y) X^-1")
                except Exception as ex:
                    S.check(nm, "raises", {"e": e.tolist()}, False, None, "%s: %s" % (type(ex).__name__, str(ex)[:200]), "offered operation raised")
                    break
    # direct sums: ad is offered (block diagonal); Ad and bracket must raise NotImplementedError
    for name in ["DPa", "DPb", "DPc", "DPd", "DPe", "DPf"]:
        grp = G[name]
        alg = grp.algebra
        m = alg.n_param
        x = rng.normal(size=m)
        adx = L.f(alg.elem(ca.DM(x)).ad())
        S.check(name + ".ad", "shape", {"x": x.tolist()}, adx.shape == (m, m), [m, m], list(adx.shape), "direct-sum ad is not m x m")
        # ad_x y against the matrix commutator [x^, y^], read back through the (linear) hat map
        if adx.shape == (m, m):
            y = rng.normal(size=m)
            Hx, Hy = L.f(alg.elem(ca.DM(x)).to_Matrix()), L.f(alg.elem(ca.DM(y)).to_Matrix())
            basis = np.stack([L.f(alg.elem(ca.DM(np.eye(m)[i])).to_Matrix()).flatten() for i in range(m)], axis=1)
            comm = (Hx @ Hy - Hy @ Hx).flatten()
            coef, res, _, _ = np.linalg.lstsq(basis, comm, rcond=None)
            S.check(name + ".ad", "is_commutator", {"x": x.tolist(), "y": y.tolist()}, bool(np.max(np.abs(basis @ coef - comm)) < 1e-9 and H.close(adx @ y, coef, 1e-8)), coef.tolist(), (adx @ y).tolist(), "direct-sum ad_x y is not the commutator [x^, y^]")
        for what, fn in (("Ad", lambda: grp.elem(ca.DM(L.sample(name, rng))).Ad()), ("bracket", lambda: alg.elem(ca.DM(x)) * alg.elem(ca.DM(x)))):
            try:
                fn()
                raised = False
            except NotImplementedError:
                raised = True
            except Exception:
                raised = False
            S.check(name + "." + what, "not_implemented", {"x": x.tolist()}, raised, True, raised, "direct product %s no longer raises NotImplementedError (now in scope, unverified)" % what, nontrivial=False)


H.run(search, "per group (plus six Euler groups of other sequences / space-fixed type built through the public constructor, and six direct sums): random valid X, Y and algebra vectors x, y, z; Ad vs numpy conjugation, ad vs bracket vs commutator, Jacobi, Ad_exp vs scipy expm(ad), Ad homomorphism; distinct = distinct (unit, input)")
