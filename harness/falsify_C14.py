"""C14 falsification search: every attitude set-point producer returns a proper rotation / unit quaternion aligned with
the demanded thrust and heading (real code; references rebuilt independently in numpy)."""
import numpy as np
import casadi as ca
import hcommon as H
import liegroups as L


def qmat(q):
    a, b, c, d = q
    return np.array([[a*a+b*b-c*c-d*d, 2*(b*c-a*d), 2*(b*d+a*c)], [2*(b*c+a*d), a*a+c*c-b*b-d*d, 2*(c*d-a*b)], [2*(b*d-a*c), 2*(c*d+a*b), a*a+d*d-b*b-c*c]])


def yawq(psi):
    return np.array([np.cos(psi / 2), 0, 0, np.sin(psi / 2)])


def search(S):
    from cyecca.models import rdd2, rdd2_loglinear, bezier, mr_ref_traj
    rng = S.rng
    pos = rdd2.derive_position_control()["position_control"]
    se23 = rdd2_loglinear.derive_outerloop_control()["se23_position_control"]
    fref = bezier.derive_ref()["f_ref"]
    mref = mr_ref_traj.derive_mr_ref_traj()["mr_ref_traj"]
    e2q = bezier.derive_eulerB321_to_quat()["eulerB321_to_quat"]
    auto = rdd2.derive_input_auto_level()["input_auto_level"]
    N = max(10, S.budget)
    for k in range(N):
        psi = float(rng.uniform(-np.pi, np.pi)) if k % 7 else float(rng.choice([0.0, np.pi / 2, np.pi, -np.pi / 2, 2.4, -2.9]))
        # ---- position controller
        trim = float(rng.uniform(5, 40)) if k % 4 else float(rng.uniform(-12, 5))      # every 4th: small / zero / negative trim (demanded force at or below the horizon)
        ep, ev, at = rng.normal(size=3) * rng.choice([0.1, 1, 5]), rng.normal(size=3), rng.normal(size=3)
        zi = float(rng.normal())
        pw, vw = rng.normal(size=3), rng.normal(size=3)
        nT, q, z2 = (np.array(o).flatten() for o in pos(trim, pw - ep, vw - ev, at, yawq(psi), pw, vw, zi, 0.01))
        p_term = -rdd2.kp_pos * ep - rdd2.kp_vel * ev + rdd2.m * at
        pmax = 0.3 * rdd2.m * rdd2.g
        if np.linalg.norm(p_term) > pmax:
            p_term = pmax * p_term / np.linalg.norm(p_term)
        T = p_term + (trim + rdd2.ki_z * zi) * np.array([0, 0, 1.0])
        xC = np.array([np.cos(psi), np.sin(psi), 0])
        inp = {"trim": trim, "e_p": ep.tolist(), "e_v": ev.tolist(), "at_w": at.tolist(), "psi": psi, "z_i": zi}
        degenerate = np.linalg.norm(T) <= 2e-3 or np.linalg.norm(np.cross(T / max(np.linalg.norm(T), 1e-12), xC)) <= 2e-3
        cls = "degenerate_fallback" if degenerate else "proper_rotation"
        R = qmat(q)
        ok = abs(np.dot(q, q) - 1) < 1e-9
        S.check("rdd2.position_control", cls, inp, ok, 1.0, float(np.dot(q, q)), "set-point quaternion is not unit")
        if ok and not degenerate:
            S.check("rdd2.position_control", "thrust_axis", inp, H.close(R[:, 2], T / np.linalg.norm(T), 1e-7) and abs(nT[0] - np.linalg.norm(T)) < 1e-8 * max(1, np.linalg.norm(T)),
                    (T / np.linalg.norm(T)).tolist(), R[:, 2].tolist(), "body z is not the normalised demanded force / nT is not its norm")
            S.check("rdd2.position_control", "heading", inp, abs(np.dot(R[:, 1], xC)) < 1e-7, 0.0, float(np.dot(R[:, 1], xC)), "body y is not perpendicular to the commanded heading direction")
        # ---- flatness maps
        v, a, j, s = rng.normal(size=3), rng.normal(size=3) * 3, rng.normal(size=3) * 3, rng.normal(size=3) * 3
        dpsi, ddpsi = float(rng.normal()), float(rng.normal())
        out_m = [np.array(o) for o in mref(psi, dpsi, ddpsi, v, a, j, s, bezier.m, bezier.g, bezier.J_xx, bezier.J_yy, bezier.J_zz, bezier.J_xz)]
        out_f = [np.array(o) for o in fref(psi, dpsi, ddpsi, v, a, j, s)]
        C = out_m[1]
        th = bezier.m * (np.array([0, 0, bezier.g]) - a)
        inp = {"psi": psi, "psi_dot": dpsi, "psi_ddot": ddpsi, "v": v.tolist(), "a": a.tolist(), "j": j.tolist(), "s": s.tolist()}
        nondeg = np.linalg.norm(th) > 1e-2 and np.linalg.norm(np.cross(th / np.linalg.norm(th), xC)) > 1e-2
        if nondeg:
            S.check("mr_ref_traj", "proper_rotation", inp, H.close(C @ C.T, np.eye(3), 1e-8) and abs(np.linalg.det(C) - 1) < 1e-8, None, C.tolist(), "C_be is not a proper rotation")
            S.check("mr_ref_traj", "thrust_axis", inp, H.close(C[:, 2], th / np.linalg.norm(th), 1e-8) and abs(float(out_m[5]) - np.linalg.norm(th)) < 1e-8 * np.linalg.norm(th) and abs(np.dot(C[:, 1], xC)) < 1e-8,
                    None, C[:, 2].tolist(), "body z / thrust magnitude / heading constraint violated")
            w, wd, Mb = out_m[2].flatten(), out_m[3].flatten(), out_m[4].flatten()
            J = np.array([[bezier.J_xx, 0, bezier.J_xz], [0, bezier.J_yy, 0], [bezier.J_xz, 0, bezier.J_zz]])
            S.check("mr_ref_traj", "euler_equation", inp, H.close(Mb, J @ wd + np.cross(w, J @ w), 1e-8, scale=max(1.0, np.max(np.abs(Mb)))), None, Mb.tolist(), "M_b != J wdot + w x J w")
            # the parametric variant with a general (symmetric) inertia and mass: non-zero product of inertia J_xz
            mm, gg = float(rng.uniform(0.5, 4)), float(rng.uniform(5, 12))
            Jg = np.diag(rng.uniform(0.01, 0.1, 3)); Jg[0, 2] = Jg[2, 0] = float(rng.uniform(-0.004, 0.004))
            og = [np.array(o) for o in mref(psi, dpsi, ddpsi, v, a, j, s, mm, gg, Jg[0, 0], Jg[1, 1], Jg[2, 2], Jg[0, 2])]
            thg = mm * (np.array([0, 0, gg]) - a)
            if np.linalg.norm(thg) > 1e-2 and np.linalg.norm(np.cross(thg / np.linalg.norm(thg), xC)) > 1e-2:
                wg, wdg, Mg, Cg = og[2].flatten(), og[3].flatten(), og[4].flatten(), og[1]
                inpg = dict(inp, m=mm, g=gg, J=Jg.tolist())
                S.check("mr_ref_traj", "euler_equation_general_inertia", inpg, H.close(Mg, Jg @ wdg + np.cross(wg, Jg @ wg), 1e-8, scale=max(1.0, float(np.max(np.abs(Mg))))), (Jg @ wdg + np.cross(wg, Jg @ wg)).tolist(), Mg.tolist(), "M_b != J wdot + w x J w with a non-zero product of inertia")
                S.check("mr_ref_traj", "thrust_axis_general", inpg, H.close(Cg[:, 2], thg / np.linalg.norm(thg), 1e-8) and abs(float(og[5]) - np.linalg.norm(thg)) < 1e-8 * np.linalg.norm(thg), None, Cg[:, 2].tolist(), "body z / thrust magnitude wrong for general mass and gravity")
            # p, q are the rotation rate of the thrust axis along a(t) = a + j t  (finite differences, independent)
            h = 1e-6
            def zb(t):
                tt = bezier.m * (np.array([0, 0, bezier.g]) - (a + j * t))
                return tt / np.linalg.norm(tt)
            zd = (zb(h) - zb(-h)) / (2 * h)
            S.check("mr_ref_traj", "roll_pitch_rates", inp, abs(w[1] - np.dot(zd, C[:, 0])) < 1e-5 * max(1, abs(w[1])) and abs(-w[0] - np.dot(zd, C[:, 1])) < 1e-5 * max(1, abs(w[0])),
                    [float(-np.dot(zd, C[:, 1])), float(np.dot(zd, C[:, 0]))], w[:2].tolist(), "p, q are not the rotation rate of the thrust axis")
            # the two shipped variants agree
            qf = out_f[1].flatten()
            same = H.close(qmat(qf), C, 1e-7) and abs(np.dot(qf, qf) - 1) < 1e-9
            for i in (0, 2, 3, 4, 5):
                same = same and H.close(out_f[i], out_m[i], 1e-7, scale=max(1.0, float(np.max(np.abs(out_m[i])))))
            S.check("f_ref", "agrees_with_mr_ref_traj", inp, bool(same), None, qf.tolist(), "f_ref and mr_ref_traj disagree / f_ref quaternion not a unit quaternion of C_be")
        # ---- helpers
        e = np.array([psi, rng.uniform(-1.4, 1.4), rng.uniform(-3, 3)])
        q = np.array(e2q(e[0], e[1], e[2])).flatten()
        Rz = L.Rmat(np.array([0, 0, 1.0]), e[0]); Ry = L.Rmat(np.array([0, 1.0, 0]), e[1]); Rx = L.Rmat(np.array([1.0, 0, 0]), e[2])
        S.check("eulerB321_to_quat", "proper_rotation", {"euler": e.tolist()}, abs(np.dot(q, q) - 1) < 1e-9 and H.close(qmat(q), Rz @ Ry @ Rx, 1e-8), None, q.tolist(), "not the unit quaternion of Rz Ry Rx")
        aetr = rng.uniform(-1, 1, 4)
        qv = L.quat_of(*L.rand_rot(rng))
        if L.euler_ok(qmat(qv)):
            qr, thr = (np.array(o).flatten() for o in auto(10.0, 5.0, aetr, qv))
            yaw = np.arctan2(qmat(qv)[1, 0], qmat(qv)[0, 0])
            Rr = L.Rmat(np.array([0, 0, 1.0]), yaw + np.deg2rad(rdd2.yaw_rate_max) * aetr[3]) @ L.Rmat(np.array([0, 1.0, 0]), np.deg2rad(rdd2.rollpitch_max) * aetr[1]) @ L.Rmat(np.array([1.0, 0, 0]), np.deg2rad(rdd2.rollpitch_max) * aetr[0])
            S.check("rdd2.input_auto_level", "proper_rotation", {"aetr": aetr.tolist(), "q": qv.tolist()}, abs(np.dot(qr, qr) - 1) < 1e-9 and H.close(qmat(qr), Rr, 1e-7), None, qr.tolist(), "auto-level set-point is not the unit quaternion of the commanded Euler angles")
        # ---- SE_2(3) outer loop
        zeta = rng.normal(size=9) * np.array([1, 1, 1, 1, 1, 1, 0.3, 0.3, 0.3])
        kp9 = rng.uniform(0.2, 2, 3)
        try:
            nT2, q2, _ = (np.array(o).flatten() for o in se23(trim, kp9, zeta, at, yawq(psi), zi, 0.01))
            R2 = qmat(q2)
            S.check("ll.se23_position_control", "proper_rotation", {"zeta": zeta.tolist(), "psi": psi, "trim": trim}, abs(np.dot(q2, q2) - 1) < 1e-9 and abs(np.dot(R2[:, 1], xC)) < 1e-7 and np.isfinite(nT2[0]),
                    1.0, float(np.dot(q2, q2)), "SE_2(3) outer loop set-point is not a unit quaternion / body y not perpendicular to heading")
        except Exception as e_:
            S.check("ll.se23_position_control", "raises", {"zeta": zeta.tolist()}, False, None, str(e_)[:150], "raised")
    # degenerate branches explicitly: thrust along the heading, near-zero thrust
    for psi in (0.0, 0.7, np.pi / 2, -2.0):
        xC = np.array([np.cos(psi), np.sin(psi), 0])
        for scale in (1.0, -1.0):
            at = scale * 50 * xC          # feed-forward saturates p_term along the heading; trim 0 -> thrust parallel to xC
            nT, q, _ = (np.array(o).flatten() for o in pos(0.0, np.zeros(3), np.zeros(3), at, yawq(psi), np.zeros(3), np.zeros(3), 0.0, 0.01))
            S.check("rdd2.position_control", "degenerate_fallback", {"psi": psi, "at_w": at.tolist(), "trim": 0.0}, abs(np.dot(q, q) - 1) < 1e-9 and np.all(np.isfinite(q)), 1.0, float(np.dot(q, q)),
                    "thrust parallel to the heading vector: the documented fallback does not give a proper rotation")
        nT, q, _ = (np.array(o).flatten() for o in pos(0.0, np.zeros(3), np.zeros(3), np.zeros(3), yawq(psi), np.zeros(3), np.zeros(3), 0.0, 0.01))
        S.check("rdd2.position_control", "zero_thrust_fallback", {"psi": psi}, abs(np.dot(q, q) - 1) < 1e-9 and np.all(np.isfinite(q)), 1.0, float(np.dot(q, q)), "near-zero thrust: fallback does not give a proper rotation")


H.run(search, "random errors/feed-forwards/headings incl. headings at 0, +-90, 180 deg and beyond +-120 deg with tilt (all Shepperd branches), saturated and unsaturated feedback, degenerate branches (thrust parallel to heading, zero thrust); references rebuilt in numpy; finite differences for the rates; distinct = distinct (unit, input)")
