"""Samplers and numeric helpers for the Lie-group falsification harnesses (real cyecca code)."""
import numpy as np
import casadi as ca


def f(x):
    return np.array(ca.DM(x), dtype=float)


def groups():
    from cyecca.lie import SO2, SE2, R2, R3, SO3Quat, SO3Mrp, SO3Dcm, SO3EulerB321, SE3Quat, SE3Mrp, SE23Quat, SE23Mrp
    G = {"SO2": SO2, "SE2": SE2, "R2": R2, "R3": R3, "SO3Quat": SO3Quat, "SO3Mrp": SO3Mrp, "SO3Dcm": SO3Dcm,
         "SO3Euler": SO3EulerB321, "SE3Quat": SE3Quat, "SE3Mrp": SE3Mrp, "SE23Quat": SE23Quat, "SE23Mrp": SE23Mrp}
    G["DPa"] = SO3Mrp * R3
    G["DPb"] = (SO3Quat * R3) * SO2
    G["DPc"] = SE2 * (SO2 * R2)
    G["DPd"] = SO3Dcm * R2
    G["DPe"] = SO3Quat * SO3Mrp
    G["DPf"] = SE2 * SE2
    return G


def rand_rot(rng, big=False):
    """random rotation as (axis, angle)"""
    ax = rng.normal(size=3)
    ax /= np.linalg.norm(ax)
    mode = rng.integers(0, 6)
    if mode == 0:
        ang = rng.uniform(0, 1e-3)
    elif mode == 1:
        ang = rng.uniform(2.2, np.pi - 1e-3)
    elif mode == 2 and big:
        ang = rng.uniform(np.pi, 2 * np.pi - 0.2)
    else:
        ang = rng.uniform(0, np.pi - 1e-2)
    return ax, ang


def quat_of(ax, ang):
    return np.concatenate([[np.cos(ang / 2)], np.sin(ang / 2) * ax])


def Rmat(ax, ang):
    K = np.array([[0, -ax[2], ax[1]], [ax[2], 0, -ax[0]], [-ax[1], ax[0], 0]])
    return np.eye(3) + np.sin(ang) * K + (1 - np.cos(ang)) * K @ K


def sample_so3(name, rng, big=False):
    """valid parameter vector of an SO(3) representation"""
    ax, ang = rand_rot(rng, big)
    if name == "SO3Quat":
        q = quat_of(ax, ang)
        return q * rng.choice([-1, 1])
    if name == "SO3Mrp":
        r = np.tan(ang / 4) * ax
        if rng.random() < 0.3 and np.dot(r, r) > 1e-6:
            r = -r / np.dot(r, r)     # shadow set: outside the unit ball
        return r
    if name == "SO3Dcm":
        return Rmat(ax, ang).reshape(9, order="F")
    if name == "SO3Euler":
        while True:
            e = np.array([rng.uniform(-np.pi, np.pi), rng.uniform(-np.pi / 2, np.pi / 2), rng.uniform(-np.pi, np.pi)])
            if abs(abs(e[1]) - np.pi / 2) > 2e-2:
                return e
    raise KeyError(name)


def sample(name, rng, big=False):
    if name in ("SO3Quat", "SO3Mrp", "SO3Dcm", "SO3Euler"):
        return sample_so3(name, rng, big)
    if name == "SO2":
        return np.array([rng.uniform(-np.pi, np.pi)])
    if name == "SE2":
        return np.concatenate([rng.normal(size=2) * 3, [rng.uniform(-np.pi, np.pi)]])
    if name == "R2":
        return rng.normal(size=2) * 3
    if name == "R3":
        return rng.normal(size=3) * 3
    if name.startswith("SE3"):
        return np.concatenate([rng.normal(size=3) * 3, sample_so3("SO3" + name[3:], rng, big)])
    if name.startswith("SE23"):
        return np.concatenate([rng.normal(size=6) * 3, sample_so3("SO3" + name[4:], rng, big)])
    if name == "DPa":
        return np.concatenate([sample_so3("SO3Mrp", rng), rng.normal(size=3)])
    if name == "DPb":
        return np.concatenate([sample_so3("SO3Quat", rng), rng.normal(size=3), [rng.uniform(-3, 3)]])
    if name == "DPc":
        return np.concatenate([sample("SE2", rng), [rng.uniform(-3, 3)], rng.normal(size=2)])
    if name == "DPd":
        return np.concatenate([sample_so3("SO3Dcm", rng), rng.normal(size=2)])
    if name == "DPe":
        return np.concatenate([sample_so3("SO3Quat", rng), sample_so3("SO3Mrp", rng)])
    if name == "DPf":
        return np.concatenate([sample("SE2", rng), sample("SE2", rng)])
    raise KeyError(name)


def mrp_pair_ok(a, b):
    return abs(1 + np.dot(a, a) * np.dot(b, b) - 2 * np.dot(a, b)) > 1e-2


def rot_part(name, p):
    if name in ("SO3Mrp",):
        return p
    if name.startswith("SE3Mrp"):
        return p[3:]
    if name.startswith("SE23Mrp"):
        return p[6:]
    if name == "DPa":
        return p[:3]
    if name == "DPe":
        return p[4:]
    return None


def euler_ok(M):
    """pitch of the 3-2-1 Euler triple of rotation matrix M is outside the gimbal band (with margin)"""
    return abs(abs(np.arcsin(np.clip(-M[2, 0], -1, 1))) - np.pi / 2) > 2e-2
