"""C17 exploration: the shipped cascades closed around the shipped quadrotor model (real CasADi functions), RK4 at
100 Hz with the gains of scripts/rdd2_sim.py (read from its source by an AST reader).  NOT a proof of convergence.
Also checks the interface between the independently written allocator and plant (mixer vs rotor geometry)."""
import ast
import numpy as np
import casadi as ca
import hcommon as H
import liegroups as L


def sim_constants():
    """gains used by scripts/rdd2_sim.py: literal assignments inside update_controller (fail closed if they move)"""
    src = open("/repo/scripts/rdd2_sim.py").read()
    tree = ast.parse(src)
    want = {"k_p_att": None, "kp": None, "ki": None, "kd": None, "f_cut": None, "i_max": None, "F_max": None}
    for node in ast.walk(tree):
        if isinstance(node, ast.FunctionDef) and node.name == "update_controller":
            for st in ast.walk(node):
                if isinstance(st, ast.Assign) and len(st.targets) == 1 and isinstance(st.targets[0], ast.Name) and st.targets[0].id in want:
                    v = st.value
                    if isinstance(v, ast.Call) and v.args:
                        v = v.args[0]
                    want[st.targets[0].id] = ast.literal_eval(v)
    missing = [k for k, v in want.items() if v is None]
    if missing:
        raise RuntimeError("could not read %s from scripts/rdd2_sim.py" % missing)
    return {k: (np.array(v, dtype=float) if isinstance(v, list) else float(v)) for k, v in want.items()}


def qmat(q):
    a, b, c, d = q
    return np.array([[a*a+b*b-c*c-d*d, 2*(b*c-a*d), 2*(b*d+a*c)], [2*(b*c+a*d), a*a+c*c-b*b-d*d, 2*(c*d-a*b)], [2*(b*d-a*c), 2*(c*d+a*b), a*a+d*d-b*b-c*c]])


def search(S):
    from cyecca.models import quadrotor, rdd2, rdd2_loglinear
    K = sim_constants()
    mdl = quadrotor.derive_model()
    f = mdl["f"]
    p = np.array(list(mdl["p_defaults"].values()), dtype=float)
    pi = mdl["p_index"]
    m, g, CT, CM, l = p[pi["m"]], p[pi["g"]], p[pi["CT"]], p[pi["CM"]], p[pi["l_motor_0"]]
    alloc = rdd2.derive_control_allocation()["f_alloc"]
    pos = rdd2.derive_position_control()["position_control"]
    att = rdd2.derive_attitude_control()["attitude_control"]
    rate = rdd2.derive_attitude_rate_control()["attitude_rate_control"]
    se23e = rdd2_loglinear.derive_se23_error()["se23_error"]
    se23p = rdd2_loglinear.derive_outerloop_control()["se23_position_control"]
    so3a = rdd2_loglinear.derive_so3_attitude_control()["so3_attitude_control"]
    rng = S.rng
    dt = 0.01
    trim = m * g
    w_hover = np.sqrt(m * g / (4 * CT))
    w_max = np.sqrt(K["F_max"] / CT)

    # ---- interface: allocator mixer vs plant rotor geometry (unsaturated demand)
    for k in range(20):
        T = float(rng.uniform(0.3, 0.7) * 4 * K["F_max"] * 0.5)
        M = rng.normal(size=3) * np.array([0.3, 0.3, 0.05])
        om, Fp, Fm, Ft, Ms = (np.array(o).flatten() for o in alloc(K["F_max"], l, CM, CT, T, M))
        x = np.zeros(17); x[6] = 1; x[2] = 5; x[13:17] = om
        xd = np.array(f(x, om, p)).flatten()
        J = np.array([p[pi["Jx"]], p[pi["Jy"]], p[pi["Jz"]]])
        Mplant = J * xd[10:13]
        Tplant = m * (xd[5] + g)
        kx = np.sin(np.pi / 4)
        ok = abs(Tplant - T) < 1e-6 * max(1, T) and np.allclose(Mplant, np.array([kx, kx, 1.0]) * M, atol=1e-7)
        S.check("interface.allocator_plant", "mixer_matches_geometry", {"T": T, "M": M.tolist()}, bool(ok), (np.array([kx, kx, 1.0]) * M).tolist(), Mplant.tolist(),
                "thrust/moment realised by the plant from the allocated rotor speeds has wrong sign, axis or scale")

    def run(mode, x0, psp, psi, tf):
        x = x0.copy()
        zi = 0.0
        i0 = np.zeros(3); e0 = np.zeros(3); de0 = np.zeros(3)
        qc = np.array([np.cos(psi / 2), 0, 0, np.sin(psi / 2)])
        umax = 0.0
        for step in range(int(tf / dt)):
            q = x[6:10]
            pw = x[0:3]
            vw = qmat(q / np.linalg.norm(q)) @ x[3:6]
            if mode == "mellinger":
                thrust, q_sp, zi_n = pos(trim, psp, np.zeros(3), np.zeros(3), qc, pw, vw, zi, dt)
                om_sp = att(K["k_p_att"], q, q_sp)
            else:
                zeta = se23e(pw, vw, q, psp, np.zeros(3), qc)
                thrust, q_sp, zi_n = se23p(trim, K["k_p_att"], zeta, np.zeros(3), qc, zi, dt)
                om_sp = so3a(K["k_p_att"], q, q_sp)
            zi = float(zi_n)
            Mc, i1, e1, de1, _ = rate(K["kp"], K["ki"], K["kd"], K["f_cut"], K["i_max"], x[10:13], om_sp, i0, e0, de0, dt)
            i0, e0, de0 = (np.array(v).flatten() for v in (i1, e1, de1))
            u = np.array(alloc(K["F_max"], l, CM, CT, thrust, Mc)[0]).flatten()
            umax = max(umax, float(np.max(u)))
            if not np.all(np.isfinite(u)):
                return x, umax, "nan in motor command at step %d" % step
            for _ in range(2):          # RK4, two substeps of 5 ms
                h = dt / 2
                k1 = np.array(f(x, u, p)).flatten(); k2 = np.array(f(x + h / 2 * k1, u, p)).flatten()
                k3 = np.array(f(x + h / 2 * k2, u, p)).flatten(); k4 = np.array(f(x + h * k3, u, p)).flatten()
                x = x + h / 6 * (k1 + 2 * k2 + 2 * k3 + k4)
            x[6:10] /= np.linalg.norm(x[6:10])
            if not np.all(np.isfinite(x)):
                return x, umax, "nan in state at step %d" % step
        return x, umax, None

    runs = max(3, S.budget // 60)
    for k in range(runs):
        mode = "mellinger" if k % 2 == 0 else "loglinear"
        psp = np.array([0.0, 0.0, 5.0])
        ax = rng.normal(size=3); ax[2] *= 0.3; ax /= np.linalg.norm(ax)
        tilt = float(rng.uniform(0, np.deg2rad(50)))
        q0 = L.quat_of(ax, tilt)
        x0 = np.zeros(17)
        x0[0:3] = psp + rng.uniform(-1.5, 1.5, 3)
        x0[3:6] = rng.uniform(-1, 1, 3)
        far = mode == "mellinger" and k % 4 == 2
        if far:
            # several metres away and moving outwards: the position loop starts saturated (30 % of weight)
            off = np.array([rng.choice([-1, 1]) * rng.uniform(3.5, 5.0), rng.choice([-1, 1]) * rng.uniform(3.5, 5.0), rng.uniform(-2.0, 3.0)])
            x0[0:3] = psp + off
        x0[6:10] = q0
        if far:
            x0[3:6] = qmat(q0).T @ (off / np.linalg.norm(off) * rng.uniform(0.5, 1.2))       # body-frame velocity, pointing away
        x0[10:13] = rng.uniform(-1, 1, 3)
        x0[13:17] = w_hover
        psi = float(rng.uniform(-np.pi, np.pi)) if (mode == "mellinger" and k % 4 == 0) else 0.0
        tf = 20.0 if far else 15.0
        inp = {"mode": mode, "x0": x0.tolist(), "p_sp": psp.tolist(), "heading": psi, "tf": tf}
        x, umax, err = run(mode, x0, psp, psi, tf)
        if err:
            S.check("cascade." + mode, "nan", inp, False, None, err, "closed loop produced a non-finite value")
            continue
        R = qmat(x[6:10])
        S.check("cascade." + mode, "position_convergence", inp, bool(np.linalg.norm(x[0:3] - psp) < 0.05), "< 0.05 m at the end of the run", float(np.linalg.norm(x[0:3] - psp)), "position error does not decay below a few centimetres")
        S.check("cascade." + mode, "attitude_settles", inp, bool(np.arccos(np.clip(R[2, 2], -1, 1)) < 0.02 and np.linalg.norm(x[10:13]) < 0.05 and np.linalg.norm(x[3:6]) < 0.05), "tilt < 0.02 rad, rates and speed < 0.05",
                [float(np.arccos(np.clip(R[2, 2], -1, 1))), float(np.linalg.norm(x[10:13])), float(np.linalg.norm(x[3:6]))], "attitude / rates do not settle")
        S.check("cascade." + mode, "motor_limits", inp, bool(umax <= w_max * (1 + 1e-9)), float(w_max), umax, "motor command exceeded sqrt(F_max/CT)")


H.run(search, "both shipped cascades (position_control+attitude_control, se23 log-linear) with the rdd2_sim.py gains around quadrotor.derive_model() defaults, true state fed back, RK4 100 Hz; random initial offsets up to 1.5 m per axis, tilts up to 50 deg, velocities and rates up to 1, random commanded headings for the Mellinger cascade, 15 simulated seconds; every fourth run (Mellinger) starts 3.5-5 m away horizontally and moving outwards so that the position loop starts saturated, 20 simulated seconds; plus allocator/plant interface on unsaturated demands; distinct = distinct (unit, input)")
