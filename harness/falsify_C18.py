"""C18 falsification search: Bezier evaluation, derivatives and boundary-value solvers on the real code."""
import math
import numpy as np
import casadi as ca
import hcommon as H


def bern(P, beta):
    n = P.shape[1] - 1
    return sum(math.comb(n, i) * beta ** i * (1 - beta) ** (n - i) * P[:, i] for i in range(n + 1))


def poly_coeffs(P, T):
    """power-basis coefficients in t of each row of the Bezier curve (independent reference)"""
    n = P.shape[1] - 1
    out = []
    for row in P:
        c = np.zeros(n + 1)
        for i in range(n + 1):
            # C(n,i) (t/T)^i (1-t/T)^(n-i)
            for k in range(n - i + 1):
                c[i + k] += math.comb(n, i) * math.comb(n - i, k) * (-1) ** k * row[i] / T ** (i + k)
        out.append(np.polynomial.Polynomial(c))
    return out


def search(S):
    from cyecca.models import bezier
    rng = S.rng
    N = max(4, S.budget // 8)
    for k in range(N):
        m = int(rng.integers(1, 5))
        n = int(rng.integers(1, 9))
        T = float(rng.choice([1.0, 0.5, 2.5, rng.uniform(0.2, 5)]))
        P = rng.normal(size=(m, n + 1))
        t = float(rng.uniform(-0.5 * T, 1.5 * T))
        inp = {"P": P.tolist(), "T": T, "t": t}
        B = bezier.Bezier(ca.SX(ca.DM(P)), T)
        val = np.array(ca.DM(B.eval(t))).flatten()
        S.check("Bezier.eval", "bernstein", inp, H.close(val, bern(P, t / T), 1e-8), bern(P, t / T).tolist(), val.tolist(), "eval != Bernstein polynomial")
        e0 = np.array(ca.DM(B.eval(0))).flatten()
        eT = np.array(ca.DM(B.eval(T))).flatten()
        S.check("Bezier.eval", "endpoints", inp, H.close(e0, P[:, 0]) and H.close(eT, P[:, -1]), None, [e0.tolist(), eT.tolist()], "end points are not the first/last control point")
        ref = poly_coeffs(P, T)
        for order in range(1, n + 1):
            want = np.array([r.deriv(order)(t) for r in ref])
            got = np.array(ca.DM(B.deriv(order).eval(t))).flatten()
            S.check("Bezier.deriv", "order%d" % min(order, 3), dict(inp, order=order), H.close(got, want, 1e-7, scale=max(1.0, np.max(np.abs(want)))), want.tolist(), got.tolist(),
                    "deriv(m).eval is not the m-th time derivative")
            Bc = B
            for _ in range(order):
                Bc = Bc.deriv()
            gotc = np.array(ca.DM(Bc.eval(t))).flatten()
            S.check("Bezier.deriv", "chained", dict(inp, order=order), H.close(gotc, want, 1e-7, scale=max(1.0, np.max(np.abs(want)))), want.tolist(), gotc.tolist(),
                    "chained deriv() is not the m-th time derivative")
    b3 = bezier.derive_bezier3()
    b7 = bezier.derive_bezier7()
    mr = bezier.derive_multirotor()["bezier_multirotor"]
    for k in range(N):
        T = float(rng.uniform(0.3, 6))
        w0, w1 = rng.normal(size=4), rng.normal(size=4)
        inp = {"wp_0": w0.tolist(), "wp_1": w1.tolist(), "T": T}
        P3 = b3["bezier3_solve"](w0[:2], w1[:2], T)
        r0 = np.array(b3["bezier3_traj"](0, T, P3)).flatten()
        rT = np.array(b3["bezier3_traj"](T, T, P3)).flatten()
        S.check("bezier3_solve", "boundary", inp, H.close(r0[:2], w0[:2], 1e-8) and H.close(rT[:2], w1[:2], 1e-8), [w0[:2].tolist(), w1[:2].tolist()], [r0.tolist(), rT.tolist()], "cubic boundary conditions not met")
        P7 = b7["bezier7_solve"](w0, w1, T)
        r0 = np.array(b7["bezier7_traj"](0, T, P7)).flatten()
        rT = np.array(b7["bezier7_traj"](T, T, P7)).flatten()
        S.check("bezier7_solve", "boundary", inp, H.close(r0[:4], w0, 1e-6) and H.close(rT[:4], w1, 1e-6), [w0.tolist(), w1.tolist()], [r0.tolist(), rT.tolist()], "septic boundary conditions not met")
        # trajectory rows are derivatives of each other (independent polynomial reference)
        P = rng.normal(size=(1, 8))
        t = float(rng.uniform(0, T))
        ref = poly_coeffs(P, T)[0]
        want = np.array([ref.deriv(o)(t) if o else ref(t) for o in range(5)])
        got = np.array(b7["bezier7_traj"](t, T, P)).flatten()
        S.check("bezier7_traj", "rows", {"P": P.tolist(), "T": T, "t": t}, H.close(got, want, 1e-6, scale=max(1.0, np.max(np.abs(want)))), want.tolist(), got.tolist(), "traj rows are not successive derivatives")
        PX, PY, PZ, Pp = rng.normal(size=(1, 8)), rng.normal(size=(1, 8)), rng.normal(size=(1, 8)), rng.normal(size=(1, 4))
        out = [np.array(o).flatten() for o in mr(t, T, PX, PY, PZ, Pp)]
        rx, ry, rz = (np.array(b7["bezier7_traj"](t, T, Q)).flatten() for Q in (PX, PY, PZ))
        rp = np.array(b3["bezier3_traj"](t, T, Pp)).flatten()
        want = [rx[0:1], ry[0:1], rz[0:1], rp[0:1], rp[1:2], rp[2:3]] + [np.array([rx[i], ry[i], rz[i]]) for i in range(1, 5)]
        S.check("bezier_multirotor", "stack", {"t": t, "T": T}, all(H.close(a, b) for a, b in zip(out, want)), None, None, "multirotor outputs are not the stacked scalar trajectories")


H.run(search, "random control matrices (dimension 1..4, degree 1..8), T in {1, 0.5, 2.5, random}, t inside and outside [0,T], all derivative orders, via deriv(m) and chained deriv(); solvers with random boundary vectors; reference = independent power-basis polynomial; distinct = distinct (unit, input)")
