"""C02 search on the real cyecca functions: matrix of exp(x) vs an independent matrix exponential (scipy expm of
algebra.to_Matrix), exp(0), exp(-x) = exp(x)^-1, exp((s+t)x) = exp(sx) exp(tx).  Search / replay only."""
import numpy as np
import casadi as ca
import hcommon as H
import liegroups as L
import lie_exp as E


def search(S):
    rng = S.rng
    P = E.pairs()
    n = max(8, S.budget // 4)
    for label, alg, grp, nt, rot3, rep in P:
        for k in range(n):
            v, th = E.sample_algebra(label, alg, nt, rot3, rng, k)
            inp = {"algebra": v.tolist(), "theta": th}
            unit = label + ".exp"
            try:
                X = alg.elem(ca.DM(v)).exp(grp)
                M = E.D(X.to_Matrix())
            except Exception as e:
                S.check(unit, "exception", inp, False, None, "%s: %s" % (type(e).__name__, str(e)[:200]), "exp raised")
                continue
            ref = E.expm_ref(alg, v)
            if rep == "euler" and not L.euler_ok(ref[:3, :3]):
                continue
            if rep == "mrp" and abs(th - 2 * np.pi) < 0.1:
                continue
            scale = max(1.0, float(np.max(np.abs(ref))))
            S.check(unit, "is_expm", inp, bool(E.fin(M) and np.max(np.abs(M - ref)) <= 1e-9 * scale), ref.tolist(), M.tolist(), "matrix of exp(x) differs from the matrix exponential of the algebra element")
            # exp(-x) is the inverse
            try:
                Xm = alg.elem(ca.DM(-v)).exp(grp)
                Pm = E.D((X * Xm).to_Matrix())
                S.check(unit, "neg_is_inverse", inp, bool(np.max(np.abs(Pm - np.eye(Pm.shape[0]))) <= 1e-9 * scale), None, Pm.tolist(), "exp(x) exp(-x) is not the identity")
            except Exception as e:
                S.check(unit, "exception", inp, False, None, "%s: %s" % (type(e).__name__, str(e)[:200]), "exp(-x)/product raised")
            # one-parameter subgroup
            s, t = rng.uniform(-1, 1, 2)
            if rep == "mrp" and any(abs(abs(c) * th - 2 * np.pi) < 0.3 for c in (s, t, s + t)):
                continue
            if abs(s + t) * th >= 2 * np.pi - 0.05 or abs(s) * th >= 2 * np.pi - 0.05:
                continue
            try:
                Xs = alg.elem(ca.DM(s * v)).exp(grp); Xt = alg.elem(ca.DM(t * v)).exp(grp); Xst = alg.elem(ca.DM((s + t) * v)).exp(grp)
                A = E.D((Xs * Xt).to_Matrix()); B = E.D(Xst.to_Matrix())
                if rep == "euler" and not (L.euler_ok(A[:3, :3]) and L.euler_ok(E.D(Xs.to_Matrix())[:3, :3]) and L.euler_ok(E.D(Xt.to_Matrix())[:3, :3])):
                    continue
                S.check(unit, "one_parameter_group", {"algebra": v.tolist(), "s": float(s), "t": float(t)}, bool(np.max(np.abs(A - B)) <= 1e-9 * max(1.0, float(np.max(np.abs(B))))), B.tolist(), A.tolist(), "exp((s+t)x) != exp(sx) exp(tx)")
            except Exception as e:
                S.check(unit, "exception", inp, False, None, "%s: %s" % (type(e).__name__, str(e)[:200]), "composition raised")
        # exp(0) is the identity element
        z = np.zeros(alg.n_param)
        X0 = alg.elem(ca.DM(z)).exp(grp)
        M0 = E.D(X0.to_Matrix())
        S.check(label + ".exp", "exp_zero", {"algebra": z.tolist()}, bool(np.array_equal(M0, np.eye(M0.shape[0])) and np.allclose(E.D(X0.param), E.D(grp.identity().param), atol=0)), None, M0.tolist(), "exp(0) is not exactly the identity")
    # Euler just outside its gimbal band (the property applies from 1e-3 rad on)
    from cyecca.lie import so3, SO3EulerB321
    for sign in (1, -1):
        for dth in (1.2e-3, 2e-3, 5e-3, 1e-2, 2e-2, 4e-2, 8e-2):
            e = np.array([rng.uniform(-3, 3), sign * (np.pi / 2 - dth), rng.uniform(0.3, 3) * rng.choice([-1, 1])])
            Rt = E.D(SO3EulerB321.elem(ca.DM(e)).to_Matrix())
            ang = np.arccos(np.clip((np.trace(Rt) - 1) / 2, -1, 1))
            if ang < 1e-6 or abs(ang - np.pi) < 1e-3:
                continue
            v = ang / (2 * np.sin(ang)) * np.array([Rt[2, 1] - Rt[1, 2], Rt[0, 2] - Rt[2, 0], Rt[1, 0] - Rt[0, 1]])
            M = E.D(so3.elem(ca.DM(v)).exp(SO3EulerB321).to_Matrix()); ref = E.expm_ref(so3, v)
            S.check("SO3Euler.exp", "is_expm_near_band", {"algebra": v.tolist(), "pitch_offset": dth}, bool(E.fin(M) and np.max(np.abs(M - ref)) <= 1e-9 / dth), ref.tolist(), M.tolist(), "exp into Euler angles just outside the gimbal band differs from the matrix exponential")
    # direct sums
    G = L.groups()
    for name in ("DPa", "DPb", "DPc", "DPd", "DPe", "DPf"):
        g = G[name]
        for k in range(max(4, n // 4)):
            v = rng.normal(size=g.algebra.n_param)
            try:
                X = g.algebra.elem(ca.DM(v)).exp(g)
                M = E.D(X.to_Matrix()); ref = E.expm_ref(g.algebra, v)
                S.check(name + ".exp", "is_expm", {"algebra": v.tolist()}, bool(np.max(np.abs(M - ref)) <= 1e-9 * max(1.0, float(np.max(np.abs(ref))))), ref.tolist(), M.tolist(), "direct-sum exp differs from expm")
            except Exception as e:
                S.check(name + ".exp", "exception", {"algebra": v.tolist()}, False, None, "%s: %s" % (type(e).__name__, str(e)[:200]), "direct-sum exp raised")


H.run(search, "every algebra-group pair (so2/se2/r3/so3 x {Quat,Mrp,Dcm,Euler}/se3/se23 x {Quat,Mrp}) and four direct sums; rotation angle exactly 0, 1e-300..1e-4, both sides of each coefficient switch, axis-aligned and random axes, up to 2pi-0.05 (both signs for planar groups); translations ~N(0,3); reference scipy.linalg.expm of algebra.to_Matrix; Euler skipped inside its gimbal band, MRP skipped within 0.1 rad of 2pi; distinct = distinct (unit, input)")
