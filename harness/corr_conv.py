"""C19 correspondence + property search: cyecca.symbolic converters vs the Coq model Model/Conv.v.

sympy_to_casadi: grammar-generated sympy trees (incl. non-integer and negative floats, rationals, Half, nested powers,
user functions through f_dict, a malformed stream with unsupported heads); the real converter's result and the model's
result (conv evaluated by vm_compute, printed as a prefix code) are evaluated at the same points and compared, together
with success/raise and the final symbol table; the real result is also compared with sympy's own evaluation.
casadi_to_sympy: random CasADi expressions incl. matrices, comparisons, selections, min/max, modulo/remainder: the sympy
result is evaluated with sympy and compared with CasADi (property search; not modelled in Coq)."""
import argparse
import io
import json
import math
import os
import re
import subprocess
import contextlib
import numpy as np
import sympy
import casadi as ca

ROOT = os.path.dirname(os.path.dirname(os.path.abspath(__file__)))
WORK = os.path.join(ROOT, ".work")
SYMS = ["x", "y", "z"]
HEADS = {"sin": 0, "cos": 1, "tan": 2, "atan": 3, "f": 10, "g": 11, "h": 12}
UFUN = {10: (lambda v: 2 * v + 1), 11: (lambda v: v * v), 12: (lambda v: math.cos(v) - 0.5)}
UFUN_CA = {"f": (lambda v: 2 * v + 1), "g": (lambda v: v * v), "h": (lambda v: ca.cos(v) - 0.5)}


def gen_tree(rng, depth, malformed):
    x, y, z = sympy.symbols("x y z")
    syms = [x, y, z]
    r = rng.random()
    if depth <= 0 or r < 0.25:
        k = rng.integers(0, 7)
        if k == 0:
            return sympy.Integer(int(rng.integers(-5, 6)))
        if k == 1:
            return sympy.Rational(int(rng.integers(-7, 8)), int(rng.integers(2, 9)))
        if k == 2:
            return sympy.Float(float(rng.choice([2.5, -0.75, 1.125, 3.0, -2.0, 0.3, 1e-3])))
        return syms[int(rng.integers(0, 3))]
    if r < 0.45:
        return sympy.Add(*[gen_tree(rng, depth - 1, malformed) for _ in range(int(rng.integers(2, 4)))])
    if r < 0.65:
        return sympy.Mul(*[gen_tree(rng, depth - 1, malformed) for _ in range(int(rng.integers(2, 4)))])
    if r < 0.8:
        b = gen_tree(rng, depth - 1, malformed)
        e = rng.choice(["half", "2", "3", "-1", "sym", "nested_half", "nested_32", "nested_third"])
        if e == "half":
            return sympy.sqrt(b * b + 1)
        if e.startswith("nested"):
            # a power of a power with a non-integer outer exponent: (b^2)^(1/2) is |b|, not b
            q = {"nested_half": sympy.Rational(1, 2), "nested_32": sympy.Rational(3, 2), "nested_third": sympy.Rational(1, 3)}[e]
            return sympy.Pow(sympy.Pow(b, 2), q)
        if e == "sym":
            return sympy.Pow(b * b + 2, syms[int(rng.integers(0, 3))])
        return sympy.Pow(b, int(e))
    if r < 0.95 or not malformed:
        h = rng.choice(["sin", "cos", "tan", "atan", "f", "g", "h"])
        a = gen_tree(rng, depth - 1, malformed)
        if h in ("f", "g", "h"):
            return sympy.Function(h)(a)
        return getattr(sympy, h)(a)
    h = rng.choice(["Abs", "exp", "Max", "pi", "k"])
    a = gen_tree(rng, depth - 1, malformed)
    if h == "pi":
        return sympy.pi * a
    if h == "Max":
        return sympy.Max(a, 1)
    if h == "k":
        return sympy.Function("k")(a)       # user function missing from f_dict
    return getattr(sympy, h)(a)


def encode(e):
    """actual sympy tree -> Coq term of type sy (fail: SOther)"""
    if isinstance(e, sympy.Integer):
        return "(SInt (%d))" % int(e)
    if isinstance(e, sympy.Rational) and not isinstance(e, sympy.Integer):
        if e == sympy.S.Half:
            return "SHalf"
        return "(SRat (%d) %d)" % (e.p, e.q)
    if isinstance(e, sympy.Float):
        n, d = float(e).as_integer_ratio()
        return "(SFloat (%d) (%d))" % (n, -(d.bit_length() - 1))
    if isinstance(e, sympy.Symbol):
        return "(SSym %d)" % SYMS.index(str(e))
    if isinstance(e, sympy.Add):
        return "(SAdd [%s])" % "; ".join(encode(a) for a in e.args)
    if isinstance(e, sympy.Mul):
        return "(SMul [%s])" % "; ".join(encode(a) for a in e.args)
    if isinstance(e, sympy.Pow):
        return "(SPow %s %s)" % (encode(e.args[0]), encode(e.args[1]))
    name = str(type(e))
    if name in HEADS and len(e.args) == 1:
        return "(SFun %d %s)" % (HEADS[name], encode(e.args[0]))
    if name == "k" and len(e.args) == 1:
        return "(SFun 99 %s)" % encode(e.args[0])
    return "(SOther 0)"


def eval_code(code, env):
    """evaluate the model's printed prefix code"""
    pos = [0]

    def go():
        t = code[pos[0]]
        pos[0] += 1
        if t == 0:
            v = code[pos[0]]; pos[0] += 1
            return float(v)
        if t == 1:
            m, e = code[pos[0]], code[pos[0] + 1]; pos[0] += 2
            return math.ldexp(float(m), e)
        if t == 2:
            return 0.5
        if t == 3:
            v = code[pos[0]]; pos[0] += 1
            return env[SYMS[v]]
        if t in (4, 5, 6, 7):
            a = go(); b = go()
            if t == 4:
                return a + b
            if t == 5:
                return a * b
            if t == 6:
                return a / b
            return math.pow(a, b)
        if t == 8:
            return math.sqrt(go())
        if t == 9:
            h = code[pos[0]]; pos[0] += 1
            a = go()
            return {0: math.sin, 1: math.cos, 2: math.tan, 3: math.atan}.get(h, UFUN.get(h))(a)
        raise ValueError("bad code %r" % t)
    return go()


def run_model(trees):
    lines = ["From Coq Require Import List NArith ZArith.", "From Cyecca Require Import Model.Conv.", "Import ListNotations.", "Local Open Scope Z_scope.",
             "Fixpoint show (c : ca) : list Z := match c with CConst (KInt z) => [0; z] | CConst (KFloat m e) => [1; m; e] | CConst KHalf => [2] | CSym x => [3; Z.of_N x] | CAdd a b => 4 :: show a ++ show b | CMul a b => 5 :: show a ++ show b | CDiv a b => 6 :: show a ++ show b | CPow a b => 7 :: show a ++ show b | CSqrt a => 8 :: show a | CFun h a => 9 :: Z.of_N h :: show a end.",
             "Definition go (s : sy) : list Z * list Z := match conv [10; 11; 12]%N 200 s [] with None => ([-1], []) | Some (c, t) => (show c, map Z.of_N t) end."]
    for t in trees:
        lines.append("Eval vm_compute in (go %s)." % encode(t).replace("(SSym ", "(SSym ").replace("(SFun ", "(SFun "))
    os.makedirs(WORK, exist_ok=True)
    path = os.path.join(WORK, "conv_cases_%d.v" % os.getpid())
    txt = "\n".join(lines) + "\n"
    # numerals inside sy constructors: N for names/heads, Z for values -- annotate scopes
    txt = re.sub(r"\(SSym (\d+)\)", r"(SSym \1%N)", txt)
    txt = re.sub(r"\(SFun (\d+) ", r"(SFun \1%N ", txt)
    txt = re.sub(r"\(SOther 0\)", r"(SOther 0%N)", txt)
    txt = re.sub(r"\(SRat \((-?\d+)\) (\d+)\)", r"(SRat (\1) \2%positive)", txt)
    with open(path, "w") as fh:
        fh.write(txt)
    p = subprocess.run(["timeout", "900", "coqc", "-Q", os.path.join(ROOT, "coq"), "Cyecca", "-w", "none", path], stdout=subprocess.PIPE, stderr=subprocess.STDOUT, text=True)
    for ext in (".v", ".vo", ".vok", ".vos", ".glob"):
        try:
            os.remove(path[:-2] + ext)
        except OSError:
            pass
    aux = os.path.join(WORK, ".conv_cases_%d.aux" % os.getpid())
    if os.path.exists(aux):
        os.remove(aux)
    if p.returncode != 0:
        raise RuntimeError("coqc failed on conv cases: " + p.stdout[-1500:])
    out = p.stdout.replace("\n", " ")
    res = []
    for m in re.finditer(r"=\s*\((\[[^\]]*\]),\s*(\[[^\]]*\])\)\s*:", out):
        code = [int(v) for v in re.findall(r"-?\d+", m.group(1))]
        tab = [int(v) for v in re.findall(r"-?\d+", m.group(2))]
        res.append((code, tab))
    if len(res) != len(trees):
        raise RuntimeError("conv: parsed %d results for %d cases: %s" % (len(res), len(trees), p.stdout[:600]))
    return res


def same(a, b, tol=1e-9):
    if a is None or b is None:
        return a is b
    if isinstance(a, complex) or isinstance(b, complex):
        return False
    if math.isnan(a) or math.isnan(b):
        return math.isnan(a) and math.isnan(b)
    if math.isinf(a) or math.isinf(b):
        return a == b
    return abs(a - b) <= tol * max(1.0, abs(a), abs(b))


def forward(rng, n, out):
    from cyecca.symbolic import sympy_to_casadi
    trees = [gen_tree(rng, int(rng.integers(1, 5)), malformed=(i % 5 == 4)) for i in range(n)]
    model = run_model(trees)
    stats = {"trees": n, "raises": 0, "nodes": 0, "floats": 0, "user_functions": 0, "max_depth": 0}
    for t, (code, tab) in zip(trees, model):
        stats["nodes"] += sum(1 for _ in sympy.preorder_traversal(t))
        stats["floats"] += sum(1 for s_ in sympy.preorder_traversal(t) if isinstance(s_, sympy.Float))
        stats["user_functions"] += sum(1 for s_ in sympy.preorder_traversal(t) if str(type(s_)) in ("f", "g", "h"))
        pts = [{k: float(rng.uniform(0.2, 1.5)) for k in SYMS} for _ in range(3)] + [{k: float(rng.uniform(-1.5, 1.5)) for k in SYMS} for _ in range(2)]
        mine = {}          # the caller's (still empty) table: must be the one that is filled and returned
        symbols = mine
        try:
            with contextlib.redirect_stdout(io.StringIO()):
                e, symbols = sympy_to_casadi(t, f_dict=dict(UFUN_CA), symbols=mine)
            real_ok = True
        except NotImplementedError:
            real_ok = False
        if real_ok:
            again_same = True
            try:
                with contextlib.redirect_stdout(io.StringIO()):
                    e2, _ = sympy_to_casadi(t, f_dict=dict(UFUN_CA), symbols=mine)
                v1 = {str(v_): v_ for v_ in ca.symvar(ca.SX(e))}; v2 = {str(v_): v_ for v_ in ca.symvar(ca.SX(e2))}
                again_same = all(k_ in v2 and ca.is_equal(v1[k_], v2[k_]) for k_ in v1)
            except NotImplementedError:
                pass
            if symbols is not mine or set(mine.keys()) != set(symbols.keys()) or not again_same:
                out["failures"].append({"unit": "sympy_to_casadi", "class": "symbol_table", "input": {"expr": str(t)}, "expected": "the caller's table is filled and a second conversion with it reuses the same variables", "observed": {"returned_is_callers": symbols is mine, "callers_keys": sorted(mine.keys()), "returned_keys": sorted(symbols.keys()), "second_call_same_variables": again_same}, "what": "the same symbol name maps to different variables across conversions sharing one table"})
                continue
        model_ok = code != [-1]
        if not real_ok:
            stats["raises"] += 1
        if real_ok != model_ok:
            out["disagreements"].append({"part": "sympy_to_casadi", "tree": sympy.srepr(t), "real": "ok" if real_ok else "raises", "model": "ok" if model_ok else "raises"})
            continue
        if not real_ok:
            continue
        real_tab = [SYMS.index(k) for k in symbols.keys()]
        if real_tab != tab:
            out["disagreements"].append({"part": "sympy_to_casadi", "tree": sympy.srepr(t), "what": "symbol table", "real": real_tab, "model": tab})
            continue
        args = [symbols.get(k, ca.SX.sym(k)) for k in SYMS]
        fn = ca.Function("f", args, [ca.SX(e)])
        for pt in pts:
            rv = float(fn(*[pt[k] for k in SYMS]))
            try:
                mv = eval_code(code, pt)
            except (ValueError, ZeroDivisionError, OverflowError):
                mv = float("nan")
            # the property itself on the real code: same value as sympy's own evaluation
            try:
                sub = {sympy.Symbol(k): v for k, v in pt.items()}
                tt = t.replace(sympy.Function("f"), lambda a: 2 * a + 1).replace(sympy.Function("g"), lambda a: a * a).replace(sympy.Function("h"), lambda a: sympy.cos(a) - sympy.Rational(1, 2))
                sv = complex(tt.evalf(30, subs=sub))
                sv = sv.real if abs(sv.imag) < 1e-12 else None
            except Exception:
                sv = None
            if sv is not None and math.isfinite(rv) and not same(rv, sv, 1e-8):
                out["failures"].append({"unit": "sympy_to_casadi", "class": "value", "input": {"expr": str(t), "point": pt}, "expected": sv, "observed": rv, "what": "converted expression evaluates differently from the sympy source"})
                break
            if not same(rv, mv):
                out["disagreements"].append({"part": "sympy_to_casadi", "tree": sympy.srepr(t), "point": pt, "real": rv, "model": mv})
                break
    out["cases"] += n
    out["distribution"]["sympy_to_casadi"] = stats


def forward_cse(rng, n, out):
    """the CSE path of sympy_to_casadi (cse=True): expressions with nested common subexpressions; the result must evaluate
    like the plain conversion (which is tied to the Coq model by forward()) and like sympy, must not depend on temporaries
    outside the returned symbol table, and the table must be the one the plain conversion returns"""
    from cyecca.symbolic import sympy_to_casadi
    x, y, z = sympy.symbols("x y z")
    stats = {"trees": 0, "nested_cse": 0, "with_preexisting_x0": 0}
    for i in range(n):
        a = gen_tree(rng, int(rng.integers(1, 3)), malformed=False)
        if not a.free_symbols:
            a = a + x
        kind = i % 4
        u = a + y if kind != 3 else a * z
        v = u ** 2 if kind in (0, 3) else sympy.sin(u)
        w = sympy.cos(v) + v
        t = sympy.sin(v) + w * u + (w * v if kind == 2 else w)
        defs, _ = sympy.cse(t)
        stats["trees"] += 1
        stats["nested_cse"] += int(any(d[1].has(*[dd[0] for dd in defs]) for d in defs))
        for pre in (False, True):
            symbols = {}
            if pre:
                symbols["x0"] = ca.SX.sym("x0")       # a variable of that name already in the caller's table
                stats["with_preexisting_x0"] += 1
            try:
                with contextlib.redirect_stdout(io.StringIO()):
                    e_plain, tab_plain = sympy_to_casadi(t, f_dict=dict(UFUN_CA), symbols=dict(symbols))
            except NotImplementedError:
                break           # a construct the converter rejects (e.g. pi): covered by forward()
            try:
                with contextlib.redirect_stdout(io.StringIO()):
                    e_cse, tab_cse = sympy_to_casadi(t, f_dict=dict(UFUN_CA), symbols=dict(symbols), cse=True)
            except Exception as ex:
                out["failures"].append({"unit": "sympy_to_casadi", "class": "cse_raises", "input": {"expr": str(t), "preexisting_x0": pre}, "expected": "conversion", "observed": "%s: %s" % (type(ex).__name__, str(ex)[:200]), "what": "conversion with cse=True raised on a supported expression"})
                break
            names = sorted(tab_plain.keys())
            if not names:
                break
            if sorted(tab_cse.keys()) != names:
                out["failures"].append({"unit": "sympy_to_casadi", "class": "cse_symbol_table", "input": {"expr": str(t), "preexisting_x0": pre}, "expected": names, "observed": sorted(tab_cse.keys()), "what": "cse=True returns a different symbol table"})
                break
            free = [str(v_) for v_ in ca.symvar(ca.SX(e_cse))]
            if any(f_ not in tab_cse or not ca.is_equal(tab_cse[f_], [v_ for v_ in ca.symvar(ca.SX(e_cse)) if str(v_) == f_][0]) for f_ in free):
                out["failures"].append({"unit": "sympy_to_casadi", "class": "cse_free_variable", "input": {"expr": str(t), "preexisting_x0": pre}, "expected": names, "observed": free, "what": "the cse=True result depends on a variable that is not in the returned symbol table (leftover temporary)"})
                break
            args = [tab_cse[k] for k in names]
            f_c = ca.Function("f", args, [ca.SX(e_cse)]); f_p = ca.Function("f", [tab_plain[k] for k in names], [ca.SX(e_plain)])
            bad = False
            for _ in range(3):
                pt = {k: float(rng.uniform(0.2, 1.5)) for k in names}
                vc = float(f_c(*[pt[k] for k in names])); vp = float(f_p(*[pt[k] for k in names]))
                tt = t.replace(sympy.Function("f"), lambda a_: 2 * a_ + 1).replace(sympy.Function("g"), lambda a_: a_ * a_).replace(sympy.Function("h"), lambda a_: sympy.cos(a_) - sympy.Rational(1, 2))
                try:
                    sv = complex(tt.evalf(30, subs={sympy.Symbol(k): v_ for k, v_ in pt.items()}))
                except Exception:
                    sv = complex(0, 1)
                if not same(vc, vp, 1e-9) or (abs(sv.imag) < 1e-12 and math.isfinite(vc) and not same(vc, sv.real, 1e-8)):
                    out["failures"].append({"unit": "sympy_to_casadi", "class": "cse_value", "input": {"expr": str(t), "point": pt, "preexisting_x0": pre}, "expected": vp, "observed": vc, "what": "cse=True conversion evaluates differently from the plain conversion / the sympy source"})
                    bad = True
                    break
            if bad:
                break
    out["cases"] += n
    out["distribution"]["sympy_to_casadi_cse"] = stats



def backward(rng, n, out):
    from cyecca.symbolic import casadi_to_sympy
    x, y = ca.SX.sym("x"), ca.SX.sym("y")
    stats = {"expressions": 0, "matrices": 0, "ops": {}}

    def gen(depth):
        if depth <= 0 or rng.random() < 0.25:
            return [x, y, ca.SX(float(rng.choice([2.0, -0.5, 1.25, 3.0])))][int(rng.integers(0, 3))]
        op = rng.choice(["add", "sub", "mul", "div", "neg", "sq", "sqrt", "sin", "cos", "atan", "ifelse", "fmin", "fmax", "lt", "fabs", "pow", "twice", "fmod", "remainder", "eq",
                         "exp", "log", "tan", "asin", "acos", "ne", "not", "and", "or", "floor", "ceil", "sign", "copysign", "inv", "sinh", "cosh", "tanh",
                         "asinh", "acosh", "atanh", "atan2", "erf", "gt", "ge"])
        stats["ops"][op] = stats["ops"].get(op, 0) + 1
        a, b = gen(depth - 1), gen(depth - 1)
        if op == "add": return a + b
        if op == "sub": return a - b
        if op == "mul": return a * b
        if op == "div": return a / (b * b + 1)
        if op == "neg": return -a
        if op == "sq": return a ** 2
        if op == "sqrt": return ca.sqrt(a * a + 1)
        if op == "sin": return ca.sin(a)
        if op == "cos": return ca.cos(a)
        if op == "atan": return ca.atan(a)
        if op == "ifelse": return ca.if_else(a < b, a, b)
        if op == "fmin": return ca.fmin(a, b)
        if op == "fmax": return ca.fmax(a, b)
        if op == "lt": return ca.if_else(a <= b, 1.5, -2.5)
        if op == "fabs": return ca.fabs(a)
        if op == "pow": return (a * a + 1) ** b
        if op == "twice": return 2 * a
        if op == "fmod": return ca.fmod(a, b * b + 0.5)
        if op == "remainder": return ca.remainder(a, b * b + 0.5)
        if op == "eq": return ca.if_else(a == b, 1.0, 2.0)
        if op == "exp": return ca.exp(ca.sin(a))
        if op == "log": return ca.log(a * a + 0.5)
        if op == "tan": return ca.tan(ca.atan(a) * 0.9)
        if op == "asin": return ca.asin(a / (1 + ca.fabs(a)) * 0.95)
        if op == "acos": return ca.acos(a / (1 + ca.fabs(a)) * 0.95)
        if op == "ne": return ca.if_else(a != b, 1.0, 2.0)
        if op == "not": return ca.if_else(ca.logic_not(a < b), 1.0, 3.0)
        if op == "and": return ca.if_else(ca.logic_and(a < b, b < 1), 1.0, 3.0)
        if op == "or": return ca.if_else(ca.logic_or(a < b, b < -1), 1.0, 3.0)
        if op == "floor": return ca.floor(a)
        if op == "ceil": return ca.ceil(a)
        if op == "sign": return ca.sign(a)
        if op == "copysign": return ca.copysign(a, b)
        if op == "inv": return 1 / (a * a + 0.5)
        if op == "sinh": return ca.sinh(ca.sin(a))
        if op == "cosh": return ca.cosh(ca.sin(a))
        if op == "tanh": return ca.tanh(a)
        if op == "asinh": return ca.asinh(a)
        if op == "acosh": return ca.acosh(a * a + 1.5)
        if op == "atanh": return ca.atanh(a / (1 + ca.fabs(a)) * 0.95)
        if op == "atan2": return ca.atan2(a, b)
        if op == "erf": return ca.erf(a)
        if op == "gt": return ca.if_else(a > b, 1.5, -2.5)
        if op == "ge": return ca.if_else(a >= b, 1.5, -2.5)
    for i in range(n):
        mat = (i % 4 == 3)
        if mat:
            r, c = int(rng.integers(1, 4)), int(rng.integers(1, 4))
            e = ca.SX(r, c)
            for a in range(r):
                for b in range(c):
                    e[a, b] = gen(2)
            stats["matrices"] += 1
        else:
            e = gen(int(rng.integers(1, 4)))
        stats["expressions"] += 1
        syms = {}
        try:
            with contextlib.redirect_stdout(io.StringIO()):
                s = casadi_to_sympy(e, syms)
        except NotImplementedError:
            continue
        except Exception as ex:
            out["failures"].append({"unit": "casadi_to_sympy", "class": "raises", "input": {"expr": str(e)}, "expected": "a sympy expression or NotImplementedError", "observed": "%s: %s" % (type(ex).__name__, str(ex)[:120]), "what": "conversion raised an unexpected exception"})
            continue
        fn = ca.Function("f", [x, y], [e])
        # random points plus ties: equal operands and the constants the generator uses (non-strict comparisons, min/max,
        # sign, floor/ceil and equality only differ from their neighbours exactly there)
        consts = [2.0, -0.5, 1.25, 3.0]
        tie = float(rng.choice(consts))
        pts = [(float(rng.uniform(-2, 2)), float(rng.uniform(-2, 2))) for _ in range(3)] + [(tie, tie), (float(rng.choice(consts)), float(rng.choice(consts))), (float(rng.uniform(-2, 2)),) * 2]     # (0, 0) is left out: atan2(0, 0) is outside the domain
        for px, py in pts:
            ref = np.array(fn(px, py)).astype(float)
            sub = {v: (px if str(k) == "x" else py) for k, v in syms.items()}
            try:
                if isinstance(s, sympy.MatrixBase):
                    got = np.array(s.subs(sub).evalf(20).tolist(), dtype=float)
                else:
                    got = np.array([[float(sympy.sympify(s).subs(sub).evalf(20))]])
            except Exception as ex:
                got = None
            ops_used = str(e)
            cls = "value"
            if "fmod" in ops_used:
                cls = "fmod"
            elif "remainder" in ops_used:
                cls = "remainder"
            elif mat:
                cls = "matrix"
            ok = got is not None and got.shape == ref.shape and np.allclose(got, ref, rtol=1e-8, atol=1e-9, equal_nan=True)
            if not ok:
                if len([f for f in out["failures"] if f["class"] == cls]) < 2:
                    out["failures"].append({"unit": "casadi_to_sympy", "class": cls, "input": {"expr": str(e)[:300], "x": px, "y": py}, "expected": ref.tolist(), "observed": None if got is None else got.tolist(), "what": "sympy result evaluates differently from the CasADi source"})
                break
    out["cases"] += n
    out["distribution"]["casadi_to_sympy"] = stats


def main():
    ap = argparse.ArgumentParser()
    ap.add_argument("--seed", type=int, default=0)
    ap.add_argument("--budget", type=int, default=200)
    ap.add_argument("--mode", default="corr")
    ap.add_argument("--replay", default=None)
    a = ap.parse_args()
    rng = np.random.default_rng(a.seed)
    out = {"cases": 0, "disagreements": [], "failures": [], "distribution": {}}
    try:
        forward(rng, a.budget, out)
        forward_cse(rng, max(8, a.budget // 5), out)
        backward(rng, a.budget, out)
        out["disagreements"] = out["disagreements"][:5]
    except Exception:
        import traceback
        out["crashed"] = True
        out["raw"] = traceback.format_exc()[-3000:]
    print(json.dumps(out, default=str))


if __name__ == "__main__":
    main()
