"""Shared helpers of the exp/log/Jacobian harnesses (C02, C03, C05, C06, C08): algebra samplers and independent references."""
import numpy as np
import casadi as ca
import scipy.linalg


def D(x):
    return np.array(ca.DM(x), dtype=float)


def pairs():
    """(label, algebra, group, n_trans, has_rot3, rep) for every algebra-group pair"""
    from cyecca.lie import so2, se2, so3, se3, se23, r3, SO2, SE2, R3, SO3Quat, SO3Mrp, SO3Dcm, SO3EulerB321, SE3Quat, SE3Mrp, SE23Quat, SE23Mrp
    return [
        ("SO2", so2, SO2, 0, False, None), ("SE2", se2, SE2, 2, False, None), ("R3", r3, R3, 3, False, None),
        ("SO3Quat", so3, SO3Quat, 0, True, "quat"), ("SO3Mrp", so3, SO3Mrp, 0, True, "mrp"), ("SO3Dcm", so3, SO3Dcm, 0, True, "dcm"),
        ("SO3Euler", so3, SO3EulerB321, 0, True, "euler"),
        ("SE3Quat", se3, SE3Quat, 3, True, "quat"), ("SE3Mrp", se3, SE3Mrp, 3, True, "mrp"),
        ("SE23Quat", se23, SE23Quat, 6, True, "quat"), ("SE23Mrp", se23, SE23Mrp, 6, True, "mrp"),
    ]


SWITCHES = [1e-3, np.sqrt(1e-3), 2 * np.sqrt(1e-3), 4e-3, 2e-3]      # theta at which some coefficient switches cell


def angle_grid(rng, k, amax):
    """rotation magnitude: exactly 0, tiny, around each switch (both sides), moderate, up to amax"""
    m = k % 8
    if m == 0:
        return 0.0
    if m == 1:
        return float(10 ** rng.uniform(-300, -4))
    if m == 2:
        s = SWITCHES[(k // 8) % len(SWITCHES)]
        return float(s * (1 + rng.choice([-1, 1]) * 10 ** rng.uniform(-15, -2)))
    if m == 3:
        return float(rng.uniform(0, 0.1))
    if m == 4:
        return float(rng.uniform(amax * 0.9, amax))
    return float(rng.uniform(0, amax))


def sample_algebra(label, alg, ntrans, rot3, rng, k, amax=2 * np.pi - 0.05, tscale=3.0):
    th = angle_grid(rng, k, amax)
    if label == "R3":
        return rng.normal(size=3) * tscale, 0.0
    if label in ("SO2", "SE2"):
        th = th * rng.choice([-1, 1])
        t = rng.normal(size=ntrans) * tscale
        return np.concatenate([t, [th]]), abs(th)
    ax = rng.normal(size=3)
    ax /= np.linalg.norm(ax)
    if k % 16 == 5:
        ax = np.eye(3)[rng.integers(0, 3)] * rng.choice([-1, 1])
    t = rng.normal(size=ntrans) * tscale
    return np.concatenate([t, th * ax]), th


def expm_ref(alg, v):
    return scipy.linalg.expm(D(alg.elem(ca.DM(v)).to_Matrix()))


def jl_ref(alg, v, terms=60):
    """left Jacobian  sum_k ad^k / (k+1)!  from the algebra's own ad matrix"""
    ad = D(alg.elem(ca.DM(v)).ad())
    n = ad.shape[0]
    J = np.zeros((n, n)); T = np.eye(n)
    for k in range(terms):
        J = J + T
        T = T @ ad / (k + 2)
    return J


def fin(*a):
    return all(bool(np.all(np.isfinite(np.array(D(v), dtype=float)))) for v in a)
