"""C20 correspondence, part 2: estimator-node gating (Model/Node.v) and logger/scheduler (Model/Sched.v) vs the real code."""
import io
import os
import re
import subprocess
import contextlib
from fractions import Fraction
import numpy as np

ROOT = os.path.dirname(os.path.dirname(os.path.abspath(__file__)))
WORK = os.path.join(ROOT, ".work")
TICK = 1024.0
PROPERTY_FAILURES = []


def coqc_eval(lines, tag):
    os.makedirs(WORK, exist_ok=True)
    path = os.path.join(WORK, "%s_%d.v" % (tag, os.getpid()))
    with open(path, "w") as fh:
        fh.write("\n".join(lines) + "\n")
    p = subprocess.run(["timeout", "900", "coqc", "-Q", os.path.join(ROOT, "coq"), "Cyecca", "-w", "none", path], stdout=subprocess.PIPE, stderr=subprocess.STDOUT, text=True)
    for ext in (".v", ".vo", ".vok", ".vos", ".glob"):
        try:
            os.remove(path[:-2] + ext)
        except OSError:
            pass
    aux = os.path.join(WORK, ".%s_%d.aux" % (tag, os.getpid()))
    if os.path.exists(aux):
        os.remove(aux)
    if p.returncode != 0:
        raise RuntimeError("coqc failed: " + p.stdout[-1500:])
    return p.stdout.replace("\n", " ")


def ints(s):
    return [int(x) for x in re.findall(r"-?\d+", s.replace("%Z", "").replace("%N", "").replace("%nat", ""))]


# ------------------------------------------------------------------ node gating
def gen_msgs(rng):
    """message sequence with off-rate, duplicate-time and out-of-order stamps"""
    n = int(rng.integers(5, 60))
    t_imu, t_mag = 0, 0
    out = []
    for _ in range(n):
        if rng.random() < 0.7:
            step = int(rng.choice([0, 1, 2, 3, 4, 5, 6, 8, -2], p=[0.05, 0.1, 0.1, 0.1, 0.2, 0.2, 0.1, 0.1, 0.05]))
            t_imu = max(0, t_imu + step)
            out.append(("imu", t_imu, bool(rng.random() < 0.6)))
        else:
            t_mag = max(0, t_mag + int(rng.choice([0, 1, 3, 4, 5, 7, 20])))
            out.append(("mag", t_mag))
    return out


def run_real_node(msgs_seq, initialize, dt_acc=None, dt_mag=None):
    import cyecca.sim.uros as uros
    import cyecca.sim.msgs as msgs
    from cyecca.estimate.attitude.estimator import AttitudeEstimator
    acts = []
    cur = {"ok": True, "t": 0}
    z = lambda *s: np.zeros(s)
    eqs = {
        "constants": lambda: {"x0": z(6, 1), "W0": np.eye(6)},
        "initialize": lambda a, m, d: (z(6, 1), 0 if cur["ok"] else 1),
        "predict": lambda t, x, W, om, sg, sn, dt: (acts.append(("predict", int(round(t * TICK)), int(round(dt * TICK)))), (x, W))[1],
        "get_state": lambda x: (z(4, 1), z(3, 1), z(3, 1)),
        "correct_accel": lambda *a: (acts.append(("accel", cur["t"])), (a[0], a[1], z(1, 1), z(2, 1), z(2, 1), z(1, 1)))[1],
        "correct_mag": lambda *a: (acts.append(("mag", cur["t"])), (a[0], a[1], z(1, 1), z(1, 1), z(1, 1), z(1, 1)))[1],
    }
    core = uros.Core()
    est = AttitudeEstimator(core, "e", eqs, initialize)
    uros.Subscriber(core, "e_attitude", msgs.Attitude, lambda m: acts.append(("publish", int(round(m.data["time"] * TICK)))))
    # the two minimum periods are set to DIFFERENT values through the parameter interface (dyadic, in ticks)
    core.init_params()
    if dt_acc is not None:
        core.set_param("e/dt_min_accel", dt_acc / TICK)
        core.set_param("e/dt_min_mag", dt_mag / TICK)
    a_val = dt_acc / TICK if dt_acc is not None else 1.0 / 200
    m_val = dt_mag / TICK if dt_mag is not None else 1.0 / 200
    d_acc = a_val - 1e-3      # thresholds as the property states them: configured minimum period minus 1 ms
    d_mag = m_val - 1e-3
    for m in msgs_seq:
        cur["t"] = m[1]
        if m[0] == "imu":
            cur["ok"] = m[2]
            msg = msgs.Imu()
            msg.data["time"] = m[1] / TICK
            msg.data["gyro"] = 0
            msg.data["accel"] = 0
            before = est.initialized
            had_mag = est.last_mag is not None
            est.imu_callback(msg)
            if not before and had_mag:
                acts.append(("init", bool(est.initialized)))
        else:
            msg = msgs.Mag()
            msg.data["time"] = m[1] / TICK
            msg.data["mag"] = 0
            est.mag_callback(msg)
    return acts, Fraction(d_acc) * 1024, Fraction(d_mag) * 1024


def node_correspondence(rng, n):
    cases = []
    for _ in range(n):
        pa, pm = (None, None) if rng.random() < 0.25 else (int(rng.choice([3, 5, 8, 20, 50])), int(rng.choice([3, 5, 8, 20, 50])))
        cases.append((gen_msgs(rng), bool(rng.random() < 0.5), pa, pm))
    sink = io.StringIO()
    reals = []
    with contextlib.redirect_stdout(sink):
        for ms, ini, pa, pm in cases:
            reals.append(run_real_node(ms, ini, pa, pm))
    lines = ["From Coq Require Import List ZArith.", "From Cyecca Require Import Model.Node.", "Import ListNotations.", "Local Open Scope Z_scope.",
             "Definition show (a : act) : list Z := match a with AInit ok => [0; if ok then 1 else 0] | APredict t dt => [1; t; dt] | ACorrAccel t => [2; t] | ACorrMag t => [3; t] | APublish t => [4; t] end."]
    for (ms, ini, pa, pm), (_, fa, fm) in zip(cases, reals):
        ml = "; ".join(("Imu %d %s" % (m[1], "true" if m[2] else "false")) if m[0] == "imu" else ("Mag %d" % m[1]) for m in ms)
        cfg = "{| acc_num := %d; acc_den := %d; mag_num := %d; mag_den := %d |}" % (fa.numerator, fa.denominator, fm.numerator, fm.denominator)
        lines.append("Eval vm_compute in (map show (snd (nrun %s (nstate0 %s) [%s])))." % (cfg, "true" if ini else "false", ml))
    txt = coqc_eval(lines, "node_cases")
    res = re.findall(r"=\s*(\[.*?\])\s*:\s*list \(list Z\)", txt)
    if len(res) != len(cases):
        raise RuntimeError("node: parsed %d results for %d cases" % (len(res), len(cases)))
    dis = []
    stats = {"sequences": n, "messages": 0, "predicts": 0, "accel": 0, "mag": 0, "skipped_dt<=0": 0, "init_attempts": 0}
    for (ms, ini, pa, pm), (acts, _, _), r in zip(cases, reals, res):
        inner = r.strip()[1:-1]            # an empty trace prints as "[]": no inner lists
        model = [ints(g) for g in re.findall(r"\[([^\[\]]*)\]", inner)]
        canon = []
        for a in acts:
            if a[0] == "init":
                canon.append([0, 1 if a[1] else 0])
            elif a[0] == "predict":
                canon.append([1, a[1], a[2]])
            elif a[0] == "accel":
                canon.append([2, a[1]])
            elif a[0] == "mag":
                canon.append([3, a[1]])
            elif a[0] == "publish":
                canon.append([4, a[1]])
        stats["messages"] += len(ms)
        stats["predicts"] += sum(1 for a in canon if a[0] == 1)
        stats["accel"] += sum(1 for a in canon if a[0] == 2)
        stats["mag"] += sum(1 for a in canon if a[0] == 3)
        stats["init_attempts"] += sum(1 for a in canon if a[0] == 0)
        if canon != model:
            dis.append({"messages": ms, "initialize": ini, "dt_min_accel_ticks": pa, "dt_min_mag_ticks": pm, "real": canon, "model": model})
        # the property itself, evaluated on the REAL trace (independent of the model)
        fa_, fm_ = reals[cases.index((ms, ini, pa, pm))][1], reals[cases.index((ms, ini, pa, pm))][2]
        inp = {"messages": ms, "initialize": ini, "dt_min_accel_ticks": pa, "dt_min_mag_ticks": pm}
        for a in canon:
            if a[0] == 1 and a[2] <= 0:
                PROPERTY_FAILURES.append({"unit": "AttitudeEstimator.imu_callback", "class": "predict_dt_nonpositive", "input": inp, "expected": "dt > 0", "observed": a, "what": "predict called with a non-positive time step"})
        for kind, code, thr in (("accel", 2, fa_), ("mag", 3, fm_)):
            ts = [0] + [a[1] for a in canon if a[0] == code]
            for t1, t2 in zip(ts, ts[1:]):
                if (t2 - t1) < thr:
                    PROPERTY_FAILURES.append({"unit": "AttitudeEstimator", "class": "%s_rate_limit" % kind, "input": inp, "expected": ">= %s ticks apart" % float(thr), "observed": [t1, t2], "what": "%s corrections applied more often than the configured minimum period (minus 1 ms)" % kind})
                    break
        if ini:
            seen_init = False
            for a in canon:
                if a == [0, 1]:
                    seen_init = True
                if a[0] in (1, 2, 3, 4) and not seen_init:
                    PROPERTY_FAILURES.append({"unit": "AttitudeEstimator", "class": "init_gate", "input": inp, "expected": "no work before a successful initialisation", "observed": a, "what": "prediction/correction before initialisation"})
                    break
    return n, dis, stats


# ------------------------------------------------------------------ logger / scheduler
def run_real_sched(procs, logger_dt, tf):
    import simpy
    import cyecca.sim.uros as uros
    import cyecca.sim.msgs as msgs
    core = uros.Core()
    # procs: (topic, period) periodic publisher, or ("set", value, period): a process that sets logger/dt to value every period
    topics = sorted(set(t for t, _ in [q for q in procs if q[0] != "set"]))
    pubs = {t: uros.Publisher(core, "t%d" % t, msgs.Imu) for t in topics}

    sets = []

    def setter(value, period):
        while True:
            sets.append((int(round(core.now * TICK)), value))
            core.set_param("logger/dt", value / TICK)
            yield simpy.Timeout(core, period / TICK)

    def proc(pid, topic, period):
        c = 0
        while True:
            c += 1
            m = msgs.Imu()
            m.data["time"] = core.now
            m.data["gyro"] = pid * 100000 + c
            m.data["accel"] = 0
            pubs[topic].publish(m)
            yield simpy.Timeout(core, period / TICK)
    for pid, q in enumerate(procs):
        if q[0] == "set":
            simpy.Process(core, setter(q[1], q[2]))
        else:
            simpy.Process(core, proc(pid, q[0], q[1]))
    lg = uros.Logger(core)
    core.init_params()
    core.set_param("logger/dt", logger_dt / TICK)
    core.run(until=tf / TICK)
    arr = lg.get_log_as_array()
    rows = []
    for r in arr:
        snap = []
        for t in topics:
            v = r["t%d" % t]["gyro"][0]
            if not np.isnan(v):
                snap.append((t, int(v)))
        rows.append((int(round(float(r["time"]) * TICK)), sorted(snap)))
    # the property itself, on the real rows: consecutive rows are one logging period apart, the period being the
    # logger/dt in force when the earlier row was written (an update at exactly that instant may come first or second)
    stamps = [t for t, _ in rows]
    inp = {"procs": [list(q) for q in procs], "logger_dt_ticks": logger_dt, "until_ticks": tf, "tick_s": 1.0 / TICK}
    for t1, t2 in zip(stamps, stamps[1:]):
        before = [v for (ts, v) in sets if ts < t1]
        allowed = {before[-1] if before else logger_dt} | {v for (ts, v) in sets if ts == t1}
        if t2 < t1 or (t2 - t1) not in allowed:
            PROPERTY_FAILURES.append({"unit": "uros.Logger.run", "class": "one_row_per_period", "input": inp, "expected": "next row %s ticks after the row at %d" % (sorted(allowed), t1), "observed": [t1, t2],
                                      "what": "logger rows are not one logging period apart (logger/dt in force when the earlier row was written)"})
            break
    if stamps and stamps[0] != 0:
        PROPERTY_FAILURES.append({"unit": "uros.Logger.run", "class": "first_row_at_start", "input": inp, "expected": 0, "observed": stamps[0], "what": "first logger row not written at the start of the run"})
    return rows


def sched_correspondence(rng, n):
    cases = []
    for _ in range(n):
        k = int(rng.integers(1, 5))
        procs = [(int(rng.integers(1, 4)), int(rng.choice([1, 2, 3, 4, 5, 8]))) for _ in range(k)]
        # in half of the runs logger/dt is changed while the simulation runs (one or two updating processes)
        if rng.random() < 0.5:
            for _ in range(int(rng.integers(1, 3))):
                procs.insert(int(rng.integers(0, len(procs) + 1)), ("set", int(rng.choice([1, 2, 3, 4, 6, 8])), int(rng.choice([7, 9, 11, 16, 25]))))
        cases.append((procs, int(rng.choice([1, 2, 4, 5, 8])), int(rng.integers(5, 60))))
    sink = io.StringIO()
    reals = []
    with contextlib.redirect_stdout(sink):
        for procs, ldt, tf in cases:
            reals.append(run_real_sched(procs, ldt, tf))
    lines = ["From Coq Require Import List ZArith NArith.", "From Cyecca Require Import Model.Sched.", "Import ListNotations.", "Local Open Scope Z_scope.",
             "Definition show (r : Z * list (N * N)) : list Z := fst r :: flat_map (fun p => [Z.of_N (fst p); Z.of_N (snd p)]) (snd r)."]
    for procs, ldt, tf in cases:
        pl = "; ".join(("{| kind := PSet %d; period := %d |}" % (q[1], q[2])) if q[0] == "set" else ("{| kind := PPub %d%%N; period := %d |}" % (q[0], q[1])) for q in procs) + "; {| kind := PLog; period := %d |}" % ldt
        lines.append("Eval vm_compute in (map show (simulate [%s] %d 4000%%nat))." % (pl, tf))
    txt = coqc_eval(lines, "sched_cases")
    res = re.findall(r"=\s*(\[.*?\])\s*:\s*list \(list Z\)", txt)
    if len(res) != len(cases):
        raise RuntimeError("sched: parsed %d results for %d cases" % (len(res), len(cases)))
    dis = []
    stats = {"runs": n, "rows": 0, "processes": 0, "simultaneous_event_runs": 0, "runs_with_logger_dt_updates": 0}
    for (procs, ldt, tf), real, r in zip(cases, reals, res):
        model = []
        for g in re.findall(r"\[([^\[\]]*)\]", r):
            v = ints(g)
            model.append((v[0], sorted((v[i], v[i + 1]) for i in range(1, len(v), 2))))
        stats["rows"] += len(real)
        stats["processes"] += len(procs) + 1
        if len(set(q[-1] for q in procs) | {ldt}) < len(procs) + 1:
            stats["simultaneous_event_runs"] += 1
        if any(q[0] == "set" for q in procs):
            stats["runs_with_logger_dt_updates"] += 1
        if [(a, [list(x) for x in b]) for a, b in real] != [(a, [list(x) for x in b]) for a, b in model]:
            dis.append({"procs": procs, "logger_dt": ldt, "tf": tf, "real": real[:6], "model": model[:6]})
    return n, dis, stats
