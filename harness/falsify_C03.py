"""C03 search on the real cyecca functions: exp(log X) = X, log(exp x) = x below pi, principal and
representation-independent rotation part.  Search / replay only."""
import numpy as np
import casadi as ca
import hcommon as H
import liegroups as L
import lie_exp as E


def rot_angle(M):
    c = (np.trace(M[:3, :3]) - 1) / 2
    s = np.linalg.norm(M[:3, :3] - M[:3, :3].T) / (2 * np.sqrt(2))
    return float(np.arctan2(s, c))


def search(S):
    from cyecca.lie import SO3Quat, SO3Mrp, SO3Dcm, SO3EulerB321, SE3Quat, SE3Mrp, SE23Quat, SE23Mrp
    rng = S.rng
    P = E.pairs()
    G = L.groups()
    n = max(8, S.budget // 4)
    MARGIN = 0.05
    for label, alg, grp, nt, rot3, rep in P:
        for k in range(n):
            # log(exp x) = x for rotation angle below pi
            v, th = E.sample_algebra(label, alg, nt, rot3, rng, k, amax=np.pi - MARGIN)
            inp = {"algebra": v.tolist(), "theta": th}
            try:
                X = alg.elem(ca.DM(v)).exp(grp)
                if rep == "euler" and not L.euler_ok(E.D(X.to_Matrix())):
                    continue
                lg = E.D(X.log().param).flatten()
                S.check(label + ".log", "log_exp", inp, bool(E.fin(lg) and np.max(np.abs(lg - v)) <= 1e-8 * max(1.0, float(np.max(np.abs(v))))), v.tolist(), lg.tolist(), "log(exp x) != x for a rotation angle below pi")
            except Exception as e:
                S.check(label + ".log", "exception", inp, False, None, "%s: %s" % (type(e).__name__, str(e)[:200]), "exp/log raised")
            # exp(log X) = X for group elements in every admissible parameterisation
            name = label if label in G else None
            if name is None:
                continue
            p = L.sample(name, rng, big=True)
            try:
                X = grp.elem(ca.DM(p))
                M = E.D(X.to_Matrix())
                ang = rot_angle(M) if rot3 else (abs(p[-1]) if label in ("SO2", "SE2") else 0.0)
                if rot3 and abs(ang - np.pi) < MARGIN:
                    continue
                if rep == "euler" and not L.euler_ok(M):
                    continue
                lx = X.log()
                M2 = E.D(lx.exp(grp).to_Matrix())
                S.check(label + ".log", "exp_log", {"group": p.tolist()}, bool(np.max(np.abs(M2 - M)) <= 1e-8 * max(1.0, float(np.max(np.abs(M))))), M.tolist(), M2.tolist(), "exp(log X) is not the same group element as X")
                rp = L.rot_part(label, p)
                if rot3 and (rp is None or np.dot(rp, rp) <= 1.0):      # canonical inputs only: MRPs of norm at most 1
                    w = E.D(lx.param).flatten()[-3:]
                    S.check(label + ".log", "principal", {"group": p.tolist()}, bool(np.linalg.norm(w) <= np.pi + 1e-9 and abs(np.linalg.norm(w) - ang) <= 1e-7), ang, float(np.linalg.norm(w)), "rotation part of log is not the smallest-angle rotation vector")
            except Exception as e:
                S.check(label + ".log", "exception", {"group": p.tolist()}, False, None, "%s: %s" % (type(e).__name__, str(e)[:200]), "log raised")
    # SE(2) (alone and inside a direct product) for headings up to just under 2 pi in magnitude: exp(log X) = X
    from cyecca.lie import SE2, R3
    for k in range(n * 2):
        th = float(rng.uniform(-2 * np.pi + 0.05, 2 * np.pi - 0.05))
        if k % 3 == 0:
            th = float(np.sign(th) * rng.uniform(np.pi + 0.05, 2 * np.pi - 0.05))
        p = np.concatenate([rng.normal(size=2) * 3, [th]])
        for nm, g, pp in (("SE2", SE2, p), ("SE2*R3", SE2 * R3, np.concatenate([p, rng.normal(size=3)]))):
            try:
                X = g.elem(ca.DM(pp))
                M = E.D(X.to_Matrix()); M2 = E.D(X.log().exp(g).to_Matrix())
                S.check(nm + ".log", "exp_log", {"group": pp.tolist()}, bool(np.max(np.abs(M2 - M)) <= 1e-8 * max(1.0, float(np.max(np.abs(M))))), M.tolist(), M2.tolist(), "exp(log X) is not the same group element as X (|theta| < 2 pi)")
            except Exception as ex:
                S.check(nm + ".log", "exception", {"group": pp.tolist()}, False, None, "%s: %s" % (type(ex).__name__, str(ex)[:200]), "log raised")
    # representation independence: one rotation, every parameterisation
    for k in range(n * 2):
        ax, ang = L.rand_rot(rng)
        ang = min(ang, np.pi - MARGIN)
        w = ang * ax
        R = L.Rmat(ax, ang)
        q = L.quat_of(ax, ang)
        r = np.tan(ang / 4) * ax
        inp = {"axis": ax.tolist(), "angle": ang}
        cands = {"SO3Quat(+q)": (SO3Quat, q), "SO3Quat(-q)": (SO3Quat, -q), "SO3Mrp": (SO3Mrp, r), "SO3Dcm": (SO3Dcm, R.reshape(9, order="F"))}
        if L.euler_ok(R):
            e = E.D(SO3EulerB321.from_Dcm(SO3Dcm.elem(ca.DM(R.reshape(9, order="F")))).param).flatten() if hasattr(SO3EulerB321, "from_Dcm") else None
            if e is not None and E.fin(e):
                cands["SO3Euler"] = (SO3EulerB321, e)
        for nm, (g, p) in cands.items():
            try:
                lg = E.D(g.elem(ca.DM(p)).log().param).flatten()
                S.check(nm.split("(")[0] + ".log", "representation_independent", dict(inp, rep=nm), bool(np.max(np.abs(lg - w)) <= 1e-7), w.tolist(), lg.tolist(), "log differs from the principal rotation vector of the rotation")
            except Exception as ex:
                S.check(nm.split("(")[0] + ".log", "exception", dict(inp, rep=nm), False, None, "%s: %s" % (type(ex).__name__, str(ex)[:200]), "log raised")
        t = rng.normal(size=6) * 2
        for (ga, pa), (gb, pb), nm in (((SE3Quat, np.concatenate([t[:3], -q])), (SE3Mrp, np.concatenate([t[:3], r])), "SE3"), ((SE23Quat, np.concatenate([t, q])), (SE23Mrp, np.concatenate([t, r])), "SE23")):
            try:
                la = E.D(ga.elem(ca.DM(pa)).log().param).flatten(); lb = E.D(gb.elem(ca.DM(pb)).log().param).flatten()
                S.check(nm + ".log", "representation_independent", dict(inp, trans=t.tolist()), bool(np.max(np.abs(la - lb)) <= 1e-7 * max(1.0, float(np.max(np.abs(la))))), la.tolist(), lb.tolist(), "log depends on the SO(3) parameterisation holding the element")
            except Exception as ex:
                S.check(nm + ".log", "exception", inp, False, None, "%s: %s" % (type(ex).__name__, str(ex)[:200]), "log raised")


H.run(search, "every algebra-group pair: algebra vectors with rotation 0, tiny, around the switches, up to pi-0.05 (log(exp x) = x); group elements in every admissible parameterisation incl. negative-scalar quaternions, shadow-set MRPs and angles beyond pi, skipped within 0.05 rad of pi and inside the Euler gimbal band (exp(log X) = X, principal angle); one rotation held as +q, -q, MRP, DCM, Euler and in SE3/SE23 with Quat vs Mrp (representation independence); distinct = distinct (unit, input)")
