"""C01 falsification search: group axioms under the matrix representation, on the real code."""
import numpy as np
import casadi as ca
import hcommon as H
import liegroups as L

TOL = 1e-9


def search(S):
    G = L.groups()
    rng = S.rng
    n = max(3, S.budget // 16)
    for name, grp in G.items():
        so3name = name if name.startswith("SO3") else None
        for k in range(n):
            a, b, c = (L.sample(name, rng, big=False) for _ in range(3))
            ra, rb, rc = (L.rot_part(name, x) for x in (a, b, c))
            if ra is not None:
                if not (L.mrp_pair_ok(ra, rb) and L.mrp_pair_ok(rb, rc)):
                    continue
            inp = {"a": a.tolist(), "b": b.tolist(), "c": c.tolist()}
            try:
                A, B, C = grp.elem(ca.DM(a)), grp.elem(ca.DM(b)), grp.elem(ca.DM(c))
                MA, MB, MC = L.f(A.to_Matrix()), L.f(B.to_Matrix()), L.f(C.to_Matrix())
                euler_guard = True
                if "Euler" in name:
                    euler_guard = L.euler_ok(MA @ MB) and L.euler_ok(MB @ MC) and L.euler_ok(MA @ MB @ MC) and L.euler_ok(MA.T)
                if euler_guard:
                    AB = A * B
                    S.check(name + ".product", "hom", inp, H.close(L.f(AB.to_Matrix()), MA @ MB, 1e-8), (MA @ MB).tolist(), L.f(AB.to_Matrix()).tolist(),
                            "to_Matrix(X*Y) != to_Matrix(X) @ to_Matrix(Y)")
                    if ra is None or L.mrp_pair_ok(L.rot_part(name, L.f(AB.param).flatten()), rc) and L.mrp_pair_ok(ra, L.rot_part(name, L.f((B * C).param).flatten())):
                        S.check(name + ".product", "assoc", inp, H.close(L.f(((A * B) * C).to_Matrix()), L.f((A * (B * C)).to_Matrix()), 1e-7), None, None, "(XY)Z != X(YZ)")
                    Ai = A.inverse()
                    S.check(name + ".inverse", "inv", inp, H.close(L.f(Ai.to_Matrix()) @ MA, np.eye(MA.shape[0]), 1e-8) and H.close(MA @ L.f(Ai.to_Matrix()), np.eye(MA.shape[0]), 1e-8),
                            None, (L.f(Ai.to_Matrix()) @ MA).tolist(), "to_Matrix(X^-1) is not the matrix inverse")
                E = grp.identity()
                ME = L.f(E.to_Matrix())
                S.check(name + ".identity", "id", inp, H.close(ME, np.eye(ME.shape[0])) and H.close(L.f((E * A).to_Matrix()), MA, 1e-8) and H.close(L.f((A * E).to_Matrix()), MA, 1e-8),
                        None, ME.tolist(), "identity is not neutral / not the identity matrix", nontrivial=(k == 0))
            except Exception as e:
                S.check(name, "raises", inp, False, None, "%s: %s" % (type(e).__name__, str(e)[:200]), "group operation raised")
                break
            # from_Matrix wherever offered
            try:
                X = grp.from_Matrix(ca.SX(ca.DM(MA)))
            except NotImplementedError:
                X = None
            except Exception as e:
                S.check(name + ".from_Matrix", "raises", inp, False, None, "%s: %s" % (type(e).__name__, str(e)[:200]), "from_Matrix is offered but raises")
                X = None
            if X is not None and ("Euler" not in name or L.euler_ok(MA)):
                MX = L.f(grp.elem(ca.DM(L.f(X.param))).to_Matrix())
                S.check(name + ".from_Matrix", "right_inverse", inp, H.close(MX, MA, 1e-7), MA.tolist(), MX.tolist(),
                        "to_Matrix(from_Matrix(to_Matrix X)) != to_Matrix X")
    # Euler elements just outside the gimbal band (the property excludes only +-1e-3 rad): neutral element, inverse and
    # product with a small rotation must still be exact there
    from cyecca.lie import SO3EulerB321 as EU
    for sign in (1, -1):
        for dth in (1.2e-3, 2e-3, 5e-3, 1e-2, 2e-2, 4e-2, 8e-2):
            e = np.array([rng.uniform(-3, 3), sign * (np.pi / 2 - dth), rng.uniform(0.3, 3) * rng.choice([-1, 1])])
            X = EU.elem(ca.DM(e)); MX = L.f(X.to_Matrix())
            inp = {"a": e.tolist(), "pitch_offset": dth}
            tol = 1e-9 / dth
            try:
                E0 = EU.identity()
                S.check("SO3Euler.identity", "id_near_band", inp, H.close(L.f((E0 * X).to_Matrix()), MX, tol) and H.close(L.f((X * E0).to_Matrix()), MX, tol), MX.tolist(), L.f((X * E0).to_Matrix()).tolist(), "identity is not neutral for an Euler element just outside the gimbal band")
                Xi = X.inverse()
                S.check("SO3Euler.inverse", "inv_near_band", inp, H.close(L.f((Xi.inverse()).to_Matrix()), MX, tol), MX.tolist(), L.f(Xi.inverse().to_Matrix()).tolist(), "inverse of the inverse is a different rotation just outside the gimbal band")
                # a product that lands just outside the band: X = A * B with A = X * B^-1 for an ordinary B
                b = np.array([rng.uniform(-1, 1), rng.uniform(-0.6, 0.6), rng.uniform(-1, 1)])
                B = EU.elem(ca.DM(b)); MB = L.f(B.to_Matrix())
                A = EU.from_Matrix(ca.SX(ca.DM(MX @ MB.T)))
                MA = L.f(EU.elem(ca.DM(L.f(A.param))).to_Matrix())
                if L.euler_ok(MA):
                    P = EU.elem(ca.DM(L.f(A.param))) * B
                    S.check("SO3Euler.product", "hom_near_band", dict(inp, b=b.tolist()), H.close(L.f(P.to_Matrix()), MA @ MB, tol), (MA @ MB).tolist(), L.f(P.to_Matrix()).tolist(), "to_Matrix(X*Y) != to_Matrix(X) @ to_Matrix(Y) when the product lands just outside the gimbal band")
            except Exception as ex:
                S.check("SO3Euler", "raises", inp, False, None, "%s: %s" % (type(ex).__name__, str(ex)[:200]), "group operation raised")
    # Shepperd branches explicitly: rotations by large angles about each axis and diagonal-tie cases
    from cyecca.lie import SO3Quat, SO3Mrp
    for ax in (np.eye(3)[0], np.eye(3)[1], np.eye(3)[2], np.ones(3) / np.sqrt(3), np.array([1, 1, 0]) / np.sqrt(2)):
        for ang in (2.2, 2.8, np.pi - 1e-6, np.pi, 2 * np.pi / 3):
            M = L.Rmat(ax, ang)
            for nm, g in (("SO3Quat", SO3Quat), ("SO3Mrp", SO3Mrp)):
                X = g.from_Matrix(ca.SX(ca.DM(M)))
                MX = L.f(g.elem(ca.DM(L.f(X.param))).to_Matrix())
                S.check(nm + ".from_Matrix", "right_inverse", {"axis": ax.tolist(), "angle": ang}, H.close(MX, M, 1e-6), M.tolist(), MX.tolist(),
                        "matrix -> element -> matrix changed the rotation (Shepperd branch)")


H.run(search, "per group (12 groups + 4 direct products): random valid elements (unit quaternions of both signs, MRPs inside/outside the unit ball away from the product singularity, orthonormal DCMs, Euler outside the gimbal band, incl. elements and products 1.2e-3 .. 8e-2 rad from the poles) incl. angles near 0 and near pi; hom/assoc/inv/id/from_Matrix compared as matrices with numpy; distinct = distinct (unit, input)")
