#!/venv/bin/python
"""Writes coq/Proofs/C18_inst.v and coq/Props/C18.v (instance statements for Bezier degrees 1..7).
Run once at development time; the output is committed (the statements are what matters, not this script)."""
import os
ROOT = os.path.dirname(os.path.dirname(os.path.abspath(__file__)))
HDR = '''From Coq Require Import Reals List Lra.
From Coquelicot Require Import Coquelicot.
From Cyecca Require Import Base.Ops Base.Tactics Spec.Mat Gen.Bezier.
Import ListNotations.
Local Open Scope R_scope.
'''
proofs = [HDR, '''
(* Bernstein polynomial of a control polygon, by Pascal's rule (no factorials) *)
Fixpoint binR (n k : nat) : R :=
  match n, k with
  | _, O => 1
  | O, S _ => 0
  | S n', S k' => binR n' k' + binR n' (S k')
  end.
Fixpoint bern_sum (n i : nat) (P : list R) (b : R) : R :=
  match P with
  | [] => 0
  | p :: P' => binR n i * b ^ i * (1 - b) ^ (n - i) * p + bern_sum n (S i) P' b
  end.
Definition bernstein (P : list R) (b : R) : R := bern_sum (length P - 1) 0 P b.
Ltac bern_cbv := cbv beta iota zeta delta [bernstein bern_sum binR length Nat.sub pow nth].
''']
props = ['''(* C18 -- Bezier curves on the model regenerated from cyecca/models/bezier.py.
   bez_eval_n_m : Bezier(P, T).eval(t) for an m x (n+1) control matrix; bez_deriv_n_m_ok : control points of .deriv(k);
   bernstein P b : sum_i C(n,i) b^i (1-b)^(n-i) P_i  (Proofs/C18_inst.v). *)
From Coq Require Import Reals List Lra.
From Coquelicot Require Import Coquelicot.
From Cyecca Require Import Base.Ops Spec.Mat Gen.Bezier Proofs.C18_inst Proofs.C18_solve.
Import ListNotations.
Local Open Scope R_scope.
''']
names = []

def thm(name, stmt, proof):
    proofs.append("Lemma %s : %s.\nProof. %s Qed.\n" % (name, stmt, proof))
    props.append("Theorem C18_%s : %s.\nProof. exact %s. Qed.\n" % (name, stmt, name))
    names.append("C18_" + name)

for n in range(1, 8):
    ps = " ".join("p%d" % i for i in range(n + 1))
    pl = "[" + "; ".join("p%d" % i for i in range(n + 1)) + "]"
    thm("eval%d_bernstein" % n,
        "forall %s T t, T <> 0 -> bez_eval_%d_1 %s T t = [bernstein %s (t / T)]" % (ps, n, ps, pl),
        "intros. Bezier_unfold. bern_cbv. list_eq. field. assumption.")
    thm("eval%d_endpoints" % n,
        "forall %s T, T <> 0 -> bez_eval_%d_1 %s T 0 = [p0] /\\ bez_eval_%d_1 %s T T = [p%d]" % (ps, n, ps, n, ps, n),
        "intros. Bezier_unfold. split; list_eq; field; assumption.")
    if n >= 2:
        thm("eval%d_derivative" % n,
            "forall %s T t, T <> 0 -> is_derive (fun t => nth 0 (bez_eval_%d_1 %s T t) 0) t (nth 0 (bez_eval_%d_1_v (bez_deriv_%d_1_o1 %s T) [T] [t]) 0)" % (ps, n, ps, n - 1, n, ps),
            "intros %s T t HT. Bezier_unfold. auto_derive; [repeat split; assumption | field; assumption]." % ps)
    else:
        thm("eval1_derivative",
            "forall p0 p1 T t, T <> 0 -> is_derive (fun t => nth 0 (bez_eval_1_1 p0 p1 T t) 0) t (nth 0 (bez_deriv_1_1_o1 p0 p1 T) 0)",
            "intros p0 p1 T t HT. Bezier_unfold. auto_derive; [repeat split; assumption | field; assumption].")
    # higher derivative orders are iterations of the first-order one (pins the 1/T^m scaling of deriv(m))
    for k in range(2, min(n, 4) + 1):
        thm("deriv%d_order%d_iterates" % (n, k),
            "forall %s T, T <> 0 -> bez_deriv_%d_1_o%d %s T = bez_deriv_%d_1_o1_v (bez_deriv_%d_1_o%d %s T) [T]" % (ps, n, k, ps, n - k + 1, n, k - 1, ps),
            "intros. Bezier_unfold. list_eq; field; assumption.")
    if n >= 2:
        thm("deriv%d_chain2" % n,
            "forall %s T, T <> 0 -> bez_deriv_%d_1_chain2 %s T = bez_deriv_%d_1_o2 %s T" % (ps, n, ps, n, ps),
            "intros. Bezier_unfold. list_eq; field; assumption.")
# vector-valued curves are evaluated / differentiated row by row
for n in range(1, 4):
    cols = ["x%d y%d z%d" % (i, i, i) for i in range(n + 1)]
    allv = " ".join(cols)
    rows = [" ".join("%s%d" % (c, i) for i in range(n + 1)) for c in "xyz"]
    thm("eval%d_dim3_rows" % n,
        "forall %s T t, bez_eval_%d_3 %s T t = bez_eval_%d_1 %s T t ++ bez_eval_%d_1 %s T t ++ bez_eval_%d_1 %s T t" % (allv, n, allv, n, rows[0], n, rows[1], n, rows[2]),
        "intros. Bezier_unfold. reflexivity.")
    # deriv output m x n column-major: column i = (dx_i, dy_i, dz_i)
    thm("deriv%d_dim3_rows" % n,
        "forall %s T, T <> 0 -> forall d i, (d < 3)%%nat -> (i < %d)%%nat -> nth (d + 3 * i) (bez_deriv_%d_3_o1 %s T) 0 = nth i (nth d [bez_deriv_%d_1_o1 %s T; bez_deriv_%d_1_o1 %s T; bez_deriv_%d_1_o1 %s T] []) 0" % (allv, n, n, allv, n, rows[0], n, rows[1], n, rows[2]),
        "intros %s T HT d i Hd Hi. Bezier_unfold. do 3 (destruct d as [|d]; [ do %d (destruct i as [|i]; [ cbn [Nat.add Nat.mul nth]; field; assumption | ]); exfalso; Lia.lia | ]); exfalso; Lia.lia." % (allv, n))
    if n >= 2:
        thm("deriv%d_dim3_chain2" % n,
            "forall %s T, T <> 0 -> bez_deriv_%d_3_chain2 %s T = bez_deriv_%d_3_o2 %s T" % (allv, n, allv, n, allv),
            "intros. Bezier_unfold. list_eq; field; assumption.")

open(os.path.join(ROOT, "coq/Proofs/C18_inst.v"), "w").write("\n".join(proofs))
open(os.path.join(ROOT, "coq/Props/C18.v.part"), "w").write("\n".join(props) + "\n(*NAMES " + " ".join(names) + " *)\n")
print(len(names), "instance theorems")
