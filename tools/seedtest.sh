#!/bin/sh
# usage: seedtest.sh <seedID> <prop> [<prop>...]  -- applies seeded/<seedID>/patch.diff to /repo, runs the checks, reverts;
# evidence files are saved and restored so that committed evidence always comes from the unchanged tree.
SEED=$1; shift
D=/verif/seeded/$SEED
cd /verif
if ! git -C /repo diff --quiet; then echo "/repo has local changes; refusing"; exit 2; fi
git -C /repo apply $D/patch.diff || { echo "patch does not apply" | tee -a $D/detect.log; exit 2; }
mkdir -p /verif/.work/ev_backup && cp evidence/*.json /verif/.work/ev_backup/ 2>/dev/null
for P in "$@"; do
  OUT=$(VERIF_SEED=${VERIF_SEED:-0} ./check $P --tier ${TIER:-quick} 2>&1); RC=$?
  echo "== $(date -u +%FT%TZ) seed=$SEED check=$P tier=${TIER:-quick} repo=$(git -C /repo rev-parse --short HEAD) exit=$RC" >> $D/detect.log
  echo "$OUT" | grep -E "VIOLATION|KNOWN|BROKEN|OK tier|FAIL tier" >> $D/detect.log
  echo "$OUT" | grep -E "VIOLATION|BROKEN|OK tier|FAIL tier" | head -4
  for r in $(echo "$OUT" | grep -o "replay=[^ ]*" | cut -d= -f2 | head -1); do cp $r $D/replay_$P.json 2>/dev/null; done
done
git -C /repo checkout -- .
cp /verif/.work/ev_backup/*.json evidence/ 2>/dev/null
# leave coq/Gen in the state of the unchanged tree (the checks above regenerated it from the mutated tree)
(cd /verif && PYTHONPATH=/repo /venv/bin/python extract/gen.py > /dev/null 2>&1 || true)
