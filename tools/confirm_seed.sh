#!/bin/sh
# usage: confirm_seed.sh <ID>   -- re-confirms a seeded change in a fresh scratch worktree of /repo, writes seeded/<ID>/confirm.log
ID=$1
D=/verif/seeded/$ID
WT=/tmp/confirm_$ID
git -C /repo worktree remove --force $WT 2>/dev/null
git -C /repo worktree add -q --detach $WT HEAD || exit 2
cd $WT
{
echo "== demo on unchanged tree ($(git -C /repo rev-parse --short HEAD))"
PYTHONPATH=$WT timeout 900 /venv/bin/python -W ignore $D/demo.py > $WT/demo0.out 2>&1; r0=$?
tail -3 $WT/demo0.out; echo "exit=$r0"
git apply $D/patch.diff || echo "PATCH DOES NOT APPLY"
echo "== demo with change"
PYTHONPATH=$WT timeout 900 /venv/bin/python -W ignore $D/demo.py > $WT/demo1.out 2>&1; r1=$?
tail -5 $WT/demo1.out; echo "exit=$r1"
echo "== pytest with change"
PYTHONPATH=$WT timeout 1800 /venv/bin/python -m pytest -q -p no:cacheprovider --timeout=900 --continue-on-collection-errors 2>&1 | tail -4
echo "SUMMARY demo_unchanged_exit=$r0 demo_changed_exit=$r1"
} > $D/confirm.log 2>&1
cd /
git -C /repo worktree remove --force $WT
tail -1 $D/confirm.log
