#!/venv/bin/python
"""Writes /verif/MANIFEST.json from harness/registry.py (single source of truth)."""
import json
import os
import sys

ROOT = os.path.dirname(os.path.dirname(os.path.abspath(__file__)))
sys.path.insert(0, os.path.join(ROOT, "harness"))
import registry  # noqa

ALL = ["C%02d" % i for i in range(1, 21)]
checks = []
for pid in ALL:
    if pid not in registry.PROPS or not registry.PROPS[pid].get("claimed", True):
        continue
    c = registry.PROPS[pid]
    checks.append({
        "property_id": pid,
        "quick_cmd": "./check %s --tier quick" % pid,
        "thorough_cmd": "./check %s --tier thorough" % pid,
        "evidence_file": "/verif/evidence/%s.json" % pid,
        "replay_cmd_template": "./check %s --replay {path}" % pid,
        "engine": "coq",
        "level_claimed": {"category": c["level"], "text": c["level_text"], "design_ref": c.get("design_ref", "DESIGN.md section 5, " + pid)},
        "level_note": c["level_note"],
        "technique": c["technique"],
    })
na = []
for pid in ALL:
    if pid not in [c["property_id"] for c in checks]:
        na.append({"property_id": pid, "reason": registry.NOT_CLAIMED.get(pid, "no check built yet in this snapshot of /verif; see DESIGN.md section 5 for the plan")})
m = {
    "version": 1,
    "setup_cmd": "./check --setup",
    "hooks": {"guard": "CYECCA_VERIF", "enable": "no source hooks are needed: every check observes cyecca through its public API with PYTHONPATH=/repo; CYECCA_VERIF=1 is exported by ./check but nothing in /repo reads it",
              "baseline_off_cmd": "cd /repo && /venv/bin/python -m pytest -ra -q -p no:cacheprovider --timeout=900 --continue-on-collection-errors",
              "source_commits": registry.SOURCE_COMMITS, "add_only": True},
    "engines": [{"name": "coq", "path": "/verif/coq", "serves_properties": [c["property_id"] for c in checks],
                 "kind_free_text": "Coq 8.16.1 development: real-number model regenerated from /repo by extract/sx2coq.py on every run (coq/Gen), hand-written proofs (coq/Proofs), property theorems (coq/Props); hand models with correspondence harnesses for non-CasADi code"}],
    "checks": checks,
    "not_applicable": na,
    "notes": "Single driver ./check; see DESIGN.md. Fix commits in /repo are listed in known_findings.json (status fixed).",
}
with open(os.path.join(ROOT, "MANIFEST.json"), "w") as fh:
    json.dump(m, fh, indent=1)
print("MANIFEST.json: %d checks, %d not claimed" % (len(checks), len(na)))
