"""Concrete failing inputs for the defects of DESIGN.md section 8, run against whatever tree PYTHONPATH points to.
Prints one line per probe: PROBE <name> FAIL|ok <detail>.  Used before/after each fix: commit."""
import numpy as np, casadi as ca, traceback
from cyecca.lie import *
from cyecca.lie.group_so3 import so3
from cyecca.lie.group_se3 import se3
from cyecca.lie.group_rn import r3
from cyecca.lie.group_so2 import so2

def P(name, fn):
    try:
        ok, detail = fn()
        print("PROBE %-28s %s %s" % (name, "ok  " if ok else "FAIL", detail))
    except Exception as e:
        print("PROBE %-28s FAIL raised %s: %s" % (name, type(e).__name__, str(e)[:100]))

def f(x): return np.array(ca.DM(x), dtype=float)

P("SO3Dcm.identity", lambda: (np.allclose(f(SO3Dcm.identity().to_Matrix()), np.eye(3)), f(SO3Dcm.identity().param).T))
P("SO3Dcm.Ad", lambda: (np.allclose(f(SO3Dcm.elem(ca.DM(np.eye(3).reshape(9,1))).Ad()), np.eye(3)), ""))
def dcm_from_mrp():
    r = ca.DM([0.1, 0.2, -0.3]); R = f(SO3Dcm.from_Mrp(SO3Mrp.elem(r)).to_Matrix()); R0 = f(SO3Mrp.elem(r).to_Matrix())
    return np.allclose(R, R0), "max diff %.3g, R R^T - I = %.3g" % (abs(R-R0).max(), abs(R@R.T-np.eye(3)).max())
P("SO3Dcm.from_Mrp", dcm_from_mrp)
def se3_Ad():
    X = SE3Quat.elem(ca.DM([1,2,3, np.cos(.3), np.sin(.3)*.6, 0, np.sin(.3)*.8])); y = se3.elem(ca.DM([.1,.2,.3,.4,.5,.6]))
    M = f(X.to_Matrix()); conj = M @ f(y.to_Matrix()) @ np.linalg.inv(M); got = f(se3.elem(X.Ad() @ y.param).to_Matrix())
    return np.allclose(conj, got), "max diff %.3g" % abs(conj-got).max()
P("SE3.Ad=conjugation", se3_Ad)
P("R3.Ad shape", lambda: (R3.elem(ca.DM([1,2,3])).Ad().shape == (3,3), str(R3.elem(ca.DM([1,2,3])).Ad().shape)))
P("r3.ad shape", lambda: (r3.elem(ca.DM([1,2,3])).ad().shape == (3,3), str(r3.elem(ca.DM([1,2,3])).ad().shape)))
def so2_fromM():
    th = 0.7; X = SO2.from_Matrix(SO2.elem(ca.DM([th])).to_Matrix()); return abs(float(X.param) - th) < 1e-12, "theta=0.7 -> %.4f" % float(X.param)
P("SO2.from_Matrix", so2_fromM)
def se2_fromM():
    X = SE2.elem(ca.DM([1,2,0.7])); Y = SE2.from_Matrix(X.to_Matrix()); return np.allclose(f(Y.param), f(X.param)), ""
P("SE2.from_Matrix", se2_fromM)
def so2alg_fromM():
    x = so2.elem(ca.DM([0.3])); y = so2.from_Matrix(x.to_Matrix()); return np.allclose(f(y.param), 0.3), ""
P("so2.from_Matrix", so2alg_fromM)
def quat_log():
    w = np.array([0.36, -0.48, 0.0]); q = f(so3.elem(ca.DM(w)).exp(SO3Quat).param).flatten()
    lm = f(SO3Quat.elem(ca.DM(-q)).log().param).flatten(); return np.allclose(lm, w), "log(-q) = %s vs %s" % (lm, w)
P("SO3Quat.log(-q)", quat_log)
def bez7():
    from cyecca.models import bezier
    fs = bezier.derive_bezier7(); s = fs["bezier7_solve"]; tr = fs["bezier7_traj"]
    wp0 = [0, 0.3, -0.2, 0.1]; wp1 = [1, -0.5, 0.4, 0.7]; T = 2.0
    Pp = s(ca.DM(wp0), ca.DM(wp1), T); out = [f(o).flatten() for o in tr(T, T, Pp)]
    got = [float(o[0]) for o in out[:4]]
    return np.allclose(got, wp1), "end (p,v,a,j) = %s wanted %s" % (np.round(got, 4), wp1)
P("bezier7 end conditions", bez7)
def est_bias():
    from cyecca.estimate.attitude.algorithms import mrp
    e = mrp.derive_mrp() if hasattr(mrp, "derive_mrp") else None
    return True, "see C11 check"
def sympy_float():
    import sympy
    from cyecca.symbolic import sympy_to_casadi
    x = sympy.symbols("x"); e = sympy_to_casadi(2.5 * x); v = ca.Function("f", [ca.SX.sym("x")], [e]) if False else None
    xs = ca.symvar(e)[0]; val = float(ca.Function("f", [xs], [e])(0.7)); return abs(val - 1.75) < 1e-12, "2.5*x at 0.7 -> %.4f" % val
P("sympy Float", sympy_float)
